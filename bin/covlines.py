#!/usr/bin/env python3
"""covlines.py <Module> <file.tla> <from_line> <to_line> <tlc coverage outputs...>
lists the source lines in [from,to] that contain code but on which no evaluated expression starts
(this TLC omits never-evaluated sub-expressions from the -coverage tree instead of printing ": 0").
False positives: definition header lines `X(..) ==`, bare ELSE / IN / LET lines, continuation lines.
Get the outputs with: bin/drift <MC> <cfg> --coverage --keep ; grep -v '^"' <kept>/tlc.out > file"""
import sys, re
mod, tla, lo, hi = sys.argv[1], sys.argv[2], int(sys.argv[3]), int(sys.argv[4])
cov = {}
rx = re.compile(r"line (\d+), col (\d+) to line (\d+), col (\d+) of module " + re.escape(mod) + r": (\d+)")
for f in sys.argv[5:]:
    for line in open(f, errors="replace"):
        m = rx.search(line)
        if m:
            a, b, c, d, n = map(int, m.groups())
            if n > 0:
                cov[a] = max(cov.get(a, 0), n)   # an expression starts on line a
src = open(tla).read().split("\n")
for ln in range(lo, min(hi, len(src)) + 1):
    t = src[ln - 1]
    code = t.split("\\*")[0].strip()
    if not code or code.startswith("(*") or code.startswith("RECURSIVE") or code.startswith("----"):
        continue
    if ln not in cov:
        print("%4d  %s" % (ln, t))
