#!/usr/bin/env python3
"""Regenerates MANIFEST.json from the table below (claimed checks) and properties.jsonl (everything else is
listed under not_applicable with a reason)."""
import json, os, subprocess
V = os.path.dirname(os.path.dirname(os.path.abspath(__file__)))
TECH = "TLA+ spec (Stream + transcribed parser) model-checked with TLC; TLC oracle records replayed on the Go code; relational formulas of the spec evaluated on real executions"
CLAIMS = {
 "C02": ("§6 C02", "TLC checks ResumeEqFresh on the Stream spec for every Send/Call interleaving over all atom strings up to a bound (scalar-header, token-param, name-addr ... kinds as transcribed) and every explored state is replayed on the real code (drift 0); on the code itself every atom string up to N per parser family is parsed on every prefix and every (suspended prefix -> longer prefix) pair is resumed and compared with a fresh parse, which by induction covers every chunk schedule.",
         "bounded: atom alphabets per family, string length <= N atoms, start offsets {0,3}, capacities {0,1,2}; full-state equality at suspensions read by reflection is used only to justify the schedule induction, never as a verdict; sub-parser kinds without a finished TLA+ transcription are covered by the relational exploration only"),
 "C03": ("§6 C03", "TLC checks the invariant Stable (a definitive one-shot verdict on a wire equals the verdict on every extension) on prefix-closed atom-string sets; the same relation is evaluated on the real code for every atom string up to N of every parser family (each definitive prefix against the next longer prefix, transitively all extensions).",
         "bounded atom alphabets (incl. SP HT CR LF digits quotes letters); end-of-input modes and the body extent without Content-Length are exempt as the property states"),
 "C04": ("§6 C04", "TLC checks OffsSane (no panic verdict, offset inside the buffer, not before the passed offset unless error) on the model; on the code every call made by the explorations runs under recover and a watchdog, offsets are range-checked and every exported field is dereferenced against an exact-capacity buffer.",
         "bounded inputs; absence of data races under the Go memory model is outside what the TLA+ spec decides (isolation is decided at call-interleaving granularity)"),
 "C11": ("§6 C11", "every enumerated input of every parser family is parsed at offset 0 and at offsets k (junk before it) and the projections, shifted by exactly k, must be byte-identical; the Stream spec carries the start offset as configuration (cfg.start) and is model-checked for start in {0,3}.",
         "k from a fixed set incl. 65000 (near the 16 bit limit), not all k; inputs bounded by the atom enumeration"),
}
props = [json.loads(l) for l in open(os.path.join(V, "properties.jsonl"))]
commits = subprocess.run(["git", "-C", "/repo", "log", "--format=%h %s"], stdout=subprocess.PIPE, text=True).stdout.splitlines()
hooks = [c.split()[0] for c in commits if " hook:" in c or c.split(" ", 1)[1].startswith("verif:")]
m = dict(version=1,
         setup_cmd="cd /verif && bin/setup",
         hooks=dict(guard="verif", enable="go build -tags verif (the harness in /verif/harness is always built with -tags verif against /repo's working tree; no hook file is needed so far: the API plus read-only reflection expose the whole abstract state)",
                    baseline_off_cmd="cd /repo && go test -count=1 -vet=off ./...", source_commits=hooks, add_only=True),
         engines=[dict(name="tlc", path="/verif/spec", serves_properties=sorted(CLAIMS), kind_free_text="TLA+ specification (Stream protocol spec + transcribed parsers + property formulas), model-checked with TLC 1.8"),
                  dict(name="sipspv", path="/verif/harness", serves_properties=sorted(CLAIMS), kind_free_text="Go conformance harness: replays TLC oracle records / behaviours on the real code, runs the relational explorations, records traces")],
         checks=[], notes="see DESIGN.md; known-findings.json lists the defects found and fixed",
         not_applicable=[])
for p in props:
    i = p["id"]
    if i in CLAIMS:
        ref, text, note = CLAIMS[i]
        m["checks"].append(dict(property_id=i, quick_cmd="bin/check %s --tier quick" % i, thorough_cmd="bin/check %s --tier thorough" % i,
                                evidence_file="/verif/evidence/%s.json" % i, replay_cmd_template="bin/check %s --replay {path}" % i,
                                engine="tlc+sipspv", level_claimed=dict(category="model_checking", text=text, design_ref=ref),
                                level_note=note, technique=TECH))
    else:
        m["not_applicable"].append(dict(property_id=i, reason="check not built yet in this round (planned: DESIGN.md §6 %s); the technique applies" % i))
json.dump(m, open(os.path.join(V, "MANIFEST.json"), "w"), indent=1)
print("claimed:", sorted(CLAIMS))
