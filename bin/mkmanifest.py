#!/usr/bin/env python3
"""Regenerates MANIFEST.json from the table below (claimed checks) and properties.jsonl (everything else is
listed under not_applicable with a reason)."""
import json, os, subprocess
V = os.path.dirname(os.path.dirname(os.path.abspath(__file__)))
TECH = "TLA+ spec (Stream + transcribed parser) model-checked with TLC; TLC oracle records replayed on the Go code; relational formulas of the spec evaluated on real executions"
GEN = "TLA+ generator with intended decomposition (ghost) enumerated by TLC; each generated behaviour executed on the Go code and compared on the intended keys"
CLAIMS = {
 "C01": ("§6 C01", "messages are derived exhaustively (bounded) by TLC from the TLA+ generator Gen!GenMsg; the whole-message parser is transcribed (SIPMsg.tla) and model-checked as a Stream instance (ResumeEqFresh over every Send/Call interleaving, oracle records replayed on the code with drift 0); on the code every generated message (+ near-miss mutants) x flag sets x capacity pairs is parsed on every prefix and resumed over all / sampled (p,q) pairs and compared with fresh parses.",
         "bounded: K<=2 (quick) / 3 (thorough) pool headers per message, messages <= ~300 bytes, capacity pairs and flags rotated; all-pairs only for K=1 (others: q in {p+1,n} + seeded sample, stated in the evidence)"),
 "C02": ("§6 C02", "TLC checks ResumeEqFresh on the Stream spec for every Send/Call interleaving over all atom strings up to a bound, per transcribed parser kind, and every explored state is replayed on the real code (drift 0); on the code itself every atom string up to N per parser family is parsed on every prefix and every (suspended prefix -> longer prefix) pair is resumed and compared with a fresh parse, which by induction covers every chunk schedule.",
         "bounded: atom alphabets per family, string length <= N atoms, start offsets {0,3}, capacities {0,1,2}; full-state equality at suspensions (read-only reflection) only justifies the schedule induction, never a verdict"),
 "C03": ("§6 C03", "TLC checks the invariant Stable (a definitive one-shot verdict on a wire equals the verdict on every extension) on prefix-closed atom-string sets; the same relation is evaluated on the real code for every atom string up to N of every parser family (each definitive prefix against the next longer prefix, transitively all extensions).",
         "bounded atom alphabets (incl. SP HT CR LF digits quotes letters); end-of-input modes and the body extent without Content-Length are exempt as the property states"),
 "C04": ("§6 C04", "TLC checks OffsSane (no panic verdict, offset inside the buffer, not before the passed offset unless error) on the model; on the code every call made by the explorations runs under recover and a watchdog, offsets are range-checked and every exported field is dereferenced against an exact-capacity buffer.",
         "bounded inputs; absence of data races under the Go memory model is outside what the TLA+ spec decides (isolation is decided at call-interleaving granularity)"),
 "C06": ("§6 C06", "Gen!Framing states the property's framing table (verdict, offset, body per flags x declared Content-Length x available bytes); TLC enumerates messages with these framings and each is executed on the real parser and compared; pipelines of generated self-delimiting messages are parsed back to back with a Reset object and compared with each message alone.",
         "bounded: Content-Length in {absent,0,2,3,4,12,13,600}, bodies of 0/3/12 bytes, all 8 flag sets, pipelines of depth 3-4"),
 "C07": ("§6 C07", "TLC enumerates header blocks built from parts (names in several spellings and compact forms, WS before ':', values with SP/HT/folds, CRLF / lone CR / lone LF, empty values, repeated headers) together with the intended list (type by the documented table, name span, trimmed value span, count, type flags, first-of-type, stored prefix for small arrays); every block is executed on the real parser and compared on those keys.",
         "bounded: 43 well-formed pool lines, <= 2 (quick) / 3 (thorough) per block; the intended reading is by construction of the text, no parsing on the oracle side"),
 "C10": ("§6 C10", "for 209 boundary digit strings x 6 numeric positions TLA+ computes the decimal value in 192 bit limb arithmetic and states the demanded outcome (exact value, rejection, flag, saturation); every record is executed on the real code one-shot and cut inside the number.",
         "the digit-string set is closed-form (neighbourhoods of the documented bounds, wrap residues, leading zeros, up to 40 digits), not all digit strings"),
 "C11": ("§6 C11", "every enumerated input of every parser family is parsed at offset 0 and at offsets k (junk before it) and the projections, shifted by exactly k, must be byte-identical; the Stream spec carries the start offset as configuration (cfg.start) and is model-checked for start in {0,3}.",
         "k from a fixed set incl. 65000 (near the 16 bit limit), not all k; inputs bounded by the atom enumeration"),
 "C12": ("§6 C12", "histories Use(A, stop) . Reset | Init(same arrays) . Use(B) on real objects of every kind with a reset operation, A over generated messages / atom strings, stop at every suspension / completion / failure, B over probe inputs; observations compared with a newly created object (pristine arrays of the same capacities).",
         "histories of length 2 (one reset); probes are a fixed small set per kind; reading 'same caller-supplied arrays' as arrays of the same capacities in pristine state"),
 "C13": ("§6 C13", "CapacityIndependent: the observation of a run with small caller-supplied arrays equals the observation of the ample-capacity run truncated to those capacities (verdict, offset, counts, flags, first-of-type, values, expires summary, first/last contact; stored elements a prefix; More <=> dropped), over generated messages and atom strings, one-shot and chunked.",
         "capacities 0..3 and built-in; successful parses only, as the property states"),
 "C16": ("§6 C16", "TLC enumerates every letter-case variant of every table name, every byte string of length 0..3 over a 40 byte alphabet and every one-edit neighbour of every table name, checks hash-lookup = table-membership on the model and prints what the documented table says; every name is classified by the real functions and compared.",
         "exhaustive over the stated name sets (>= 96k names); longer random names only through the header-block generator"),
 "C05": ("§6 C05", "the C05 predicate FieldsNested (spec/Props.tla) is an invariant of the transcribed message parser over every generated message (with AutoEqDecl: the transcription reads each message as the generator intends), and TLC itself judges the REAL observations: every generated message is executed on the real parser (one-shot and with cuts), the observation is written out and evaluated by TLC with the same predicate (Judge_Msg.tla).",
         "bounded generator (K<=2/3 pool headers incl. repeated Contact / PAI / From and multi-value headers); chunk schedules beyond the three replayed ones are covered through C01 (resumed = one-shot)"),
 "C08": ("§6 C08", "GenFLine.tla builds request and status lines from parts with the intended decomposition (all method names and case variants, arbitrary tokens, version in 4 letter-case patterns, codes incl. 000 (thorough: all 1000), empty / one-token / multi-token reasons, three terminators, near-misses with 'rejected or more'); TLC checks FLineDecl on the transcription (FLine.tla) and, as a Stream instance, resumption/stability over steered atom strings; every record is executed on the real ParseFLine (decl mismatch = violation, drift reported).",
         "bounded token sets; near-miss list is fixed (double SP, HT, missing token, leading SP, <14 bytes, non-digit/2-/4-digit status)"),
 "C09": ("§6 C09", "GenNameAddr.tla builds name-addr values and comma lists from parts (display forms, <uri>/bare uri, 0..3 parameters in any order/case with missing/empty/token/number/quoted values, LWS around ';' '=' ',') with the intended fields; TLC enumerates five slices (>= 200k values/lists) and each is executed through ParseNameAddrPVal (From/To/Contact/PAI), the Contact/PAI list parsers (capacities 0 1 2 4), ParseHeaders and ParseSIPMsg and compared on the determined keys; the parsers are also transcribed (NameAddr.tla, ValLists.tla) and model-checked as Stream instances.",
         "keys the statement leaves open (Name with LWS before '<', duplicate parameter names, Min/MaxExpires with absent expires) are not compared"),
 "C14": ("§6 C14", "ParseURI is transcribed (SipURI.tla, 18 states); the Decl predicate Lossless (URIProps.tla) is a TLC invariant over every byte string up to 5-6 atoms of the delimiter alphabet after each scheme spelling; every explored input is executed on the real ParseURI (drift 0); real results that differ from the model, and a sample of all real results, are judged by TLC with the same predicate (Judge_URI.tla).",
         "bounded alphabet ': @ ; ? & = [ ] . a 1' and length; random longer inputs not included; byte 0x1a accepted as scheme colon is outside the quantifier (not a scheme prefix) and documented"),
 "C17": ("§6 C17", "GenParams.tla builds parameter lists of 0..3 items with all value kinds, LWS placements, both separators and the five endings together with intended spans, counts, type flags, verdict and offset, plus a 256-byte sweep at 9 positions in 3 modes for the character set; every list is executed through ParseTokenParam (9 flag sets), ParseAllURIParams / ParseAllURIHdrs (capacities 0 1 2 8) and URIParamResolve; TokParam.tla transcribes the parsers (46 model-checked configurations, drift 0).",
         "known finding: a list with nothing in it is counted as one parameter (codified by a repository test); 'All' of an empty value is not compared (not determined by the statement)"),
 "C18": ("§6 C18", "AdjustOffs and the views are transcribed (SipURI.tla); RelocateOk / ViewsOk (URIProps.tla) are TLC invariants over every accepted URI x target offsets {0,1,300,65535-len} x spans 0..len+2, and over every offset up to the wrap boundary in a scaled model (OffsMod = 32); every case is executed on the real code (drift 0) and drifted / sampled real results are judged by TLC (RelocateReal, ViewsReal).",
         "known finding: views of a tel: URI with a password; spans that are not spans of any buffer (offs+len > 65535) are outside the quantifier"),
 "C19": ("§6 C19", "MsgSig.tla states the demanded header part of the signature (SigHdrModel) and transcribes GetMsgSig; TLC checks AutoSatisfiesDecl / DeclMeta / StringOK and enumerates requests (method x permutations/subsets of the fingerprinted headers, long/compact, fillers, value changes, later repeats, capacities, replies, cut positions); each is executed on the real parser + GetMsgSig: demanded keys, metamorphic groups (same fingerprinted content => identical full signature), explicit-truncated-or-equal-to-ample, well-formed rendering.",
         "the character-class functions (getStrCharsSig) are uninterpreted in the model; their determinism on equal strings is checked through the metamorphic groups"),
 "C20": ("§6 C20", "IP4Prefix / ContainsIP4 are transcribed (IPAddr.tla); ContainsDecl / PrefixDecl (a dotted quad defined directly) are TLC invariants over every string over {1,2,5,6,.,x} (<=7/8), {2,.,x} (<=10/11), {2,5,6,.} (<=9), {0,2,.} (<=10); every string is executed on the real functions (drift 0); drifted / sampled real results are judged by TLC (Judge_IP4.tla).",
         "bounded alphabets and lengths; random long strings with embedded addresses not included"),
}
TECHS = {"C06": GEN, "C07": GEN, "C10": GEN, "C16": GEN, "C08": GEN, "C09": GEN, "C17": GEN, "C19": GEN,
         "C05": "TLA+ predicate checked on the transcription by TLC and evaluated by TLC on recorded real observations (judge)",
         "C14": "TLA+ transcription + Decl predicate model-checked with TLC; every explored input replayed on the Go code; TLC judges real results",
         "C18": "TLA+ transcription + Decl predicate model-checked with TLC (incl. scaled wrap model); replay on the Go code; TLC judges real results",
         "C20": "TLA+ transcription + Decl predicate model-checked with TLC; every explored input replayed on the Go code; TLC judges real results"}
props = [json.loads(l) for l in open(os.path.join(V, "properties.jsonl"))]
commits = subprocess.run(["git", "-C", "/repo", "log", "--format=%h %s"], stdout=subprocess.PIPE, text=True).stdout.splitlines()
hooks = [c.split()[0] for c in commits if " hook:" in c or c.split(" ", 1)[1].startswith("verif:")]
m = dict(version=1,
         setup_cmd="cd /verif && bin/setup",
         hooks=dict(guard="verif", enable="go build -tags verif (the harness in /verif/harness is always built with -tags verif against /repo's working tree; no hook file is needed so far: the API plus read-only reflection expose the whole abstract state)",
                    baseline_off_cmd="cd /repo && go test -count=1 -vet=off ./...", source_commits=hooks, add_only=True),
         engines=[dict(name="tlc", path="/verif/spec", serves_properties=sorted(CLAIMS), kind_free_text="TLA+ specification (Stream protocol spec + transcribed parsers + property formulas), model-checked with TLC 1.8"),
                  dict(name="sipspv", path="/verif/harness", serves_properties=sorted(CLAIMS), kind_free_text="Go conformance harness: replays TLC oracle records / behaviours on the real code, runs the relational explorations, records traces")],
         checks=[], notes="see DESIGN.md; known-findings.json lists the defects found and fixed",
         not_applicable=[])
for p in props:
    i = p["id"]
    if i in CLAIMS:
        ref, text, note = CLAIMS[i]
        m["checks"].append(dict(property_id=i, quick_cmd="bin/check %s --tier quick" % i, thorough_cmd="bin/check %s --tier thorough" % i,
                                evidence_file="/verif/evidence/%s.json" % i, replay_cmd_template="bin/check %s --replay {path}" % i,
                                engine="tlc+sipspv", level_claimed=dict(category="model_checking", text=text, design_ref=ref),
                                level_note=note, technique=TECHS.get(i, TECH)))
    else:
        m["not_applicable"].append(dict(property_id=i, reason="check not built yet in this round (planned: DESIGN.md §6 %s); the technique applies" % i))
json.dump(m, open(os.path.join(V, "MANIFEST.json"), "w"), indent=1)
print("claimed:", sorted(CLAIMS))
