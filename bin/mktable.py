#!/usr/bin/env python3
"""Rewrites Appendix A of DESIGN.md (seeded-change campaign) from seeded/*/meta.json."""
import json, glob, os, re
V = os.path.dirname(os.path.dirname(os.path.abspath(__file__)))
rows = []
for f in sorted(glob.glob(os.path.join(V, "seeded", "*", "meta.json"))):
    m = json.load(open(f))
    if m["id"].startswith("T-"): continue
    rd = os.path.join(os.path.dirname(f), "README.md")
    what = ""
    if os.path.exists(rd):
        txt = open(rd).read()
        lines = [l.strip() for l in txt.splitlines() if l.strip() and not l.startswith("#")]
        what = (lines[0] if lines else "")[:150].replace("|", "/")
    caught = ", ".join(m.get("caught_by") or []) or "—"
    ran = ", ".join("%s: exit %s" % (c, r["exit"]) for c, r in (m.get("checks") or {}).items())
    rows.append("| %s | %s | %s | %s | %s |" % (m["id"], m["property"], "yes" if m.get("confirmed") else "NO", caught, what))
n = len(rows); c = sum(1 for r in rows if not r.split("|")[4].strip() == "—")
app = ["## Appendix A — seeded-change campaign", "",
       "Fresh sub-agents were given only the text of one property and a scratch worktree of `/repo` and asked for realistic changes",
       "(three each in round 1, two each in rounds 2 to 8 -- ids `R2-` .. `R8-`; rounds 5 to 8 for ten properties each) that break the property, still compile and pass the 38",
       "tests, with a demonstration. Every change was confirmed",
       "(`bin/mutcheck`: patch applies, existing tests pass with it, the demonstration fails with it and passes without it) and the",
       "property's quick check was run against a scratch worktree carrying the change. Kept under `seeded/<id>/`.",
       "", "%d changes confirmed, %d detected by a quick-tier check (column 4; see the notes below the table for the ones that are not (none of them contradicts its property as stated), and for what each round led to)." % (n, c), "",
       "| id | property | confirmed | caught by (quick) | change (first line of the author's README) |", "|---|---|---|---|---|"] + rows + [""]
notes = os.path.join(V, "seeded", "NOTES.md")
if os.path.exists(notes): app += [open(notes).read()]
p = os.path.join(V, "DESIGN.md")
s = open(p).read()
i = s.find("## Appendix A — seeded-change campaign")
if i >= 0: s = s[:i]
s = s.rstrip() + "\n\n" + "\n".join(app) + "\n"
open(p, "w").write(s)
print(n, "mutants,", c, "caught")
