"""Per-property check plans (DESIGN §6).  A plan is a function(ctx) that runs TLC configurations, replays
their records on the real code, runs relational explorations of the real code and has TLC judge drifted
records.  Verdict rule (DESIGN §4.3): a VIOLATION comes only from observations of the real code."""
import os, json, re, time, shutil, random, zlib
import vlib
from vlib import Machinery, V

B = lambda s: [c for c in s.encode("latin-1")]

# ------------------------------------------------------------------------------------------------
class Ctx:
    def __init__(self, pid, tier, seed):
        self.pid, self.tier, self.seed = pid, tier, seed
        self.quick = tier != "thorough"
        self.states = 0; self.transitions = 0; self.records = 0; self.drift = 0
        self.impl_traces = 0; self.evaluations = 0; self.nontrivial = 0
        self.samples = []; self.violations = []; self.known = []; self.notes = []
        self.tlc_runs = []; self.minima = []; self.extra = {}
        self.assumptions = []
        self.exhaustive = pid in ("C02", "C06", "C07", "C08", "C09", "C10", "C14", "C15", "C16", "C17", "C18", "C19", "C20")
        with open(os.path.join(V, "known-findings.json")) as f:
            self.kf = json.load(f)

    # ---- TLC + replay of its records on the real code
    def tlc(self, mod, cfg, workers=8, timeout=1500, judge=None, min_records=1, simulate=None, depth=None, note="", audit=None):
        r = vlib.run_tlc(mod, cfg, workers=workers, timeout=timeout, simulate=simulate, depth=depth,
                         seed=(self.seed if simulate else None))
        if not r["ok"]:
            shutil.rmtree(r["dir"], ignore_errors=True) if False else None
            raise Machinery("TLC failed on %s/%s (rc=%s) -- a model-level problem is never a verdict:\n%s"
                            % (mod, cfg, r["rc"], r["tail"]))
        self.states += r["distinct"]; self.transitions += r["generated"]
        drift_out = os.path.join(r["dir"], "drift.ndjson")
        rp = vlib.replay(r["out"], drift_out=drift_out)
        x = rp["extra"]
        self.records += x["records"]; self.drift += x["drift"]; self.impl_traces += x["records"]
        if isinstance(cfg, tuple): cfg = cfg[0]
        self.tlc_runs.append(dict(module=mod, cfg=cfg, states=r["distinct"], generated=r["generated"],
                                  records=x["records"], drift=x["drift"], decl_mismatch=x["decl_mismatch"],
                                  tlc_wall_s=round(r["wall"], 1), note=note))
        if x["records"] < min_records:
            raise Machinery("vacuous: %s/%s produced %d oracle records (< %d)" % (mod, cfg, x["records"], min_records))
        for s in (rp.get("samples") or [])[:3]:
            if len(self.samples) < 12: self.samples.append(dict(source="TLC %s/%s replayed on the code" % (mod, cfg), case=s))
        for v in rp.get("violations") or []:
            if v.get("property") in ("", None): v["property"] = self.pid
            if v["property"] == self.pid: self.violation(v)
        if x["drift"]:
            self.notes.append("drift (model != code) on %d records of %s/%s, e.g. %s" % (x["drift"], mod, cfg, (x.get("drift_samples") or [""])[0][:400]))
            if judge:
                judge(self, drift_out)
        if audit:   # (judge module, 1-in-N): a hash sample of ALL real results is judged with the Decl predicates
            audit_sample(self, r["out"], audit[1], module=audit[0])
        shutil.rmtree(r["dir"], ignore_errors=True)
        return r, rp

    # ---- relational exploration of the real code
    def explore(self, job, name="explore", count_as_traces=True, relabel=None):
        job = dict(job); job.setdefault("seed", self.seed); job.setdefault("props", [self.pid])
        if self.pid in ("C01", "C02") and job.get("mode") == "explore" and "X-again" not in job["props"]:
            job["props"] = list(job["props"]) + ["X-again"]      # repeated call on the same prefix (Stream!CallAgain / Idempotent)
        r = vlib.run_job(job, name)
        if r.get("hang"):
            self.violation(dict(property="C04", what="a call does not return (watchdog)", sig="hang", detail=r["hang"], text=r["hang"], cfg={}, input=[]))
            return r
        st = r["stats"]
        self.evaluations += st.get("Calls", 0); self.nontrivial += st.get("NonTrivial", 0)
        if count_as_traces: self.impl_traces += st.get("Pairs", 0) + st.get("Inputs", 0)
        for s in (r.get("samples") or [])[:3]:
            if len(self.samples) < 12: self.samples.append(dict(source="harness " + name, case=s))
        for v in r.get("violations") or []:
            if relabel and v["property"] in relabel:
                v = dict(v, what=relabel[v["property"]][1] + ": " + v["what"], property=relabel[v["property"]][0])
            if v["property"] == self.pid: self.violation(v)
            elif v["property"] == "X-again":
                # outside the listed properties (their schedules are strictly increasing): recorded, never a verdict
                self.extra.setdefault("observations_outside_properties", [])
                if len(self.extra["observations_outside_properties"]) < 20:
                    self.extra["observations_outside_properties"].append(dict(what=v["what"], cfg=v.get("cfg"), text=v.get("text"), cuts=v.get("cuts")))
        self.extra.setdefault("explorations", []).append(dict(name=name, stats=st, wall_s=round(r.get("wall_s", 0), 1)))
        return r

    # ---- M3: real executions recorded as traces and validated by TLC against spec/Trace_Stream.tla
    def trace_validate(self, cfgs, inputs_file, max_events=2000, corrupt=None, name="traces"):
        d = vlib.scratch("trace")
        tr = os.path.join(d, "trace.ndjson")
        extra = dict(trace_out=tr, max_events=max_events)
        if corrupt is not None: extra["corrupt_call"] = corrupt
        r = vlib.run_job(dict(mode="trace", cfgs=cfgs, inputs_file=inputs_file, seed=self.seed, extra=extra), "trace")
        res = vlib.run_tlc("Trace_Stream", "Trace_Stream.cfg", workers=1, extra_files=[(tr, "trace.ndjson")], timeout=900)
        out = open(res["out"], errors="replace").read()
        m = re.search(r'<<\s*"TRACE-RESULT",\s*(\d+),\s*(<<[^<>]*>>),\s*(<<.*?>>)\s*>>\s*Model checking', re.sub(r"\s+", " ", out))
        lines = open(tr).read().splitlines()
        shutil.rmtree(res["dir"], ignore_errors=True)
        if not res["ok"] or not m:
            shutil.rmtree(d, ignore_errors=True)
            raise Machinery("trace validation did not complete (TLC rc=%s): %s" % (res["rc"], res["tail"][-1500:]))
        nlines = int(m.group(1))
        drift = [int(x) for x in re.findall(r"\d+", m.group(2))]
        bad = re.findall(r'<<(\d+), "(\w+)">>', m.group(3))
        self.states += res["distinct"]; self.transitions += res["generated"]
        self.impl_traces += r["extra"]["traces"]; self.evaluations += r["stats"].get("Calls", 0)
        self.drift += len(drift)
        self.extra.setdefault("trace_validation", []).append(dict(name=name, events=nlines, traces=r["extra"]["traces"], call_events=r["extra"]["calls"],
                                                                  accepted=True, drift_lines=drift[:20], property_failures=len(bad), tlc_wall_s=round(res["wall"], 1)))
        if len(self.samples) < 12 and len(lines) > 3:
            self.samples.append(dict(source="recorded trace (validated by TLC against Trace_Stream)", case=[json.loads(x) for x in lines[:3]]))
        for ln, what in bad:
            ev = json.loads(lines[int(ln) - 1])
            j = int(ln) - 1
            while j >= 0 and json.loads(lines[j]).get("ev") != "new": j -= 1
            hist = [json.loads(x) for x in lines[max(j, 0):int(ln)]]
            wire = [b for e in hist if e.get("ev") == "send" for b in e["bytes"]]
            prop = "C04" if what == "sane" else ("C01" if hist and hist[0].get("cfg", {}).get("kind") == "msg" else "C02")
            self.violation(dict(property=prop, what="property formula false on logged real values (%s)" % what, cfg=hist[0].get("cfg") if hist else {},
                                input=wire, text=repr(bytes(wire)), sig="trace-" + what, detail=json.dumps(ev)[:1500]))
        shutil.rmtree(d, ignore_errors=True)
        return drift, bad

    # ---- TLC judges real records (drifted ones, or all of them in audit mode) with the Decl predicates
    def judge(self, module, ndjson, prop=None, what="Decl predicate false on the real result", observe=None):
        """observe: a label -- failures are recorded as observations outside the listed properties, never as verdicts"""
        n = sum(1 for _ in open(ndjson))
        if n == 0: return 0
        cfg = ("judge.cfg", "SPECIFICATION Spec\nCONSTANTS\n  OffsMod = 65536\n  JudgeFile = \"judge.ndjson\"\n  Prop = \"%s\"\nINVARIANT Report\nCHECK_DEADLOCK FALSE\n" % (prop or self.pid))
        res = vlib.run_tlc(module, cfg, workers=1, extra_files=[(ndjson, "judge.ndjson")], timeout=1200)
        out = re.sub(r"\s+", " ", open(res["out"], errors="replace").read())
        shutil.rmtree(res["dir"], ignore_errors=True)
        verd = re.findall(r'<<\s*"JUDGE",\s*(\d+),\s*(TRUE|FALSE)\s*>>', out)
        if not res["ok"] or len(verd) != n:
            raise Machinery("judge %s did not complete (%d/%d verdicts): %s" % (module, len(verd), n, res["tail"][-1200:]))
        self.states += res["distinct"]; self.transitions += res["generated"]
        lines = open(ndjson).read().splitlines()
        nbad = 0
        for idx, ok in verd:
            if ok == "FALSE":
                nbad += 1
                rec = json.loads(lines[int(idx) - 1])
                if observe:
                    o = self.extra.setdefault("observations_outside_properties", [])
                    if len(o) < 20: o.append(dict(what=observe, fn=rec.get("fn"), text=repr(bytes(rec.get("args", {}).get("s", rec.get("wire", []))))[:200]))
                elif "wire" in rec:
                    self.violation(dict(property=self.pid, what=what, cfg=rec.get("cfg", {}), input=rec["wire"], text=repr(bytes(rec["wire"])), cuts=rec.get("cuts"),
                                        sig="judge:" + str(rec.get("k")), detail="(%s,%s) %s" % (rec.get("err"), rec.get("offs"), json.dumps(rec.get("obs"))[:1500]), rec=rec))
                else:
                    s_ = rec.get("args", {}).get("s", [])
                    self.violation(dict(property=self.pid, what=what, cfg={}, input=s_, text="%s %r %s" % (rec.get("fn"), bytes(s_), json.dumps({k: v for k, v in rec.get("args", {}).items() if k != "s"})),
                                        sig="judge:" + str(rec.get("fn")), detail=json.dumps(rec.get("res"))[:1500], rec=rec))
        self.extra.setdefault("judged", []).append(dict(module=module, records=n, failed=nbad, tlc_wall_s=round(res["wall"], 1)))
        return nbad

    # ---- violations / known findings
    def violation(self, v):
        for k in self.kf.get("known", []):
            if k["property"] != self.pid: continue
            m = k.get("match", {})
            if "sig" in m and v.get("sig") not in m["sig"]: continue
            c = v.get("cfg") or {}
            if "kind" in m and c.get("kind") not in m["kind"]: continue
            if "flags_mask" in m and not (int(c.get("flags", 0)) & m["flags_mask"]): continue
            if "detail_re" in m and not re.search(m["detail_re"], v.get("detail", ""), re.S): continue
            if "text_re" in m and not re.search(m["text_re"], v.get("text", ""), re.S): continue
            if "expr" in m:
                try:
                    if not eval(m["expr"], {}, dict(v=v)): continue
                except Exception:
                    continue
            if k["id"] not in [x["id"] for x in self.known]: self.known.append(k)
            k.setdefault("_n", 0); k["_n"] += 1
            return
        self.violations.append(v)

    def need(self, what, got, minimum):
        self.minima.append(dict(what=what, got=got, min=minimum))

    def finish(self, wall):
        for m in self.minima:
            if m["got"] < m["min"]:
                raise Machinery("vacuity guard: %s = %d < %d" % (m["what"], m["got"], m["min"]))
        EV = os.path.join(V, "evidence") if not (vlib.ALT or self.pid == "selftest") else os.path.join(vlib.WORK, "alt-evidence")
        RP = os.path.join(V, "replays") if not vlib.ALT else os.path.join(vlib.WORK, "alt-replays", os.path.basename(vlib.BIN))
        os.makedirs(EV, exist_ok=True)
        os.makedirs(RP, exist_ok=True)
        lines = []
        for k in self.known:
            lines.append("KNOWN-FINDING: property=%s %s (%d cases this run)" % (self.pid, k["desc"], k.get("_n", 0)))
        seen = {}
        for v in self.violations:
            key = (v.get("sig"), (v.get("cfg") or {}).get("kind"))
            if key in seen and seen[key] >= 3: continue
            seen[key] = seen.get(key, 0) + 1
            n = len([l for l in lines if l.startswith("VIOLATION")])
            p = os.path.join(RP, "%s-%d.json" % (self.pid, n))
            with open(p, "w") as f: json.dump(v, f, indent=1)
            lines.append("VIOLATION property=%s replay=%s" % (self.pid, p))
            lines.append("  # %s: %s | %s | %s" % (v.get("what"), v.get("text", "")[:200], json.dumps(v.get("cfg")), (v.get("detail") or "").replace("\n", " / ")[:600]))
        cov = dict(states=max(self.states, 0), transitions=max(self.transitions, 0),
                   traces_validated_against_impl=self.impl_traces,
                   evaluations=self.evaluations + self.records, distinct_nontrivial=self.nontrivial,
                   samples=self.samples or [dict(note="no sample recorded")],
                   oracle_records_replayed=self.records, drift=self.drift, tlc_runs=self.tlc_runs,
                   exhaustive=self.exhaustive, exhaustive_note=("every enumeration named in 'rule' was run to completion within its bounds" if self.exhaustive else
                                "bounded enumerations run to completion, plus seeded samples (light schedule mode, near-miss variants, random trace schedules)"),
                   rule=self.extra.pop("rule", ""), notes=self.notes, minima=self.minima)
        cov.update(self.extra)
        if not self.assumptions:
            self.assumptions = ["TLC 1.8 / the TLA+ modules in spec/ faithfully state what is claimed in 'rule' (drift 0 against the code on every replayed record)",
                                "the Go harness projects exported fields correctly (harness/obs.go) and the Go toolchain executes the library as it would in production",
                                "bounds as stated in 'rule'; behaviour beyond them is not covered"]
        ev = dict(property_id=self.pid, tier=self.tier, seed=self.seed, level="model_checking", coverage=cov,
                  assumptions=self.assumptions, wall_s=round(wall, 1), violations=len(self.violations),
                  known_findings=[k["id"] for k in self.known])
        with open(os.path.join(EV, self.pid + ".json"), "w") as f: json.dump(ev, f, indent=1)
        for l in lines: print(l)
        print("%s tier=%s seed=%d: states=%d transitions=%d oracle_records=%d drift=%d real_calls=%d impl_traces=%d violations=%d known=%d wall=%.0fs"
              % (self.pid, self.tier, self.seed, self.states, self.transitions, self.records, self.drift,
                 self.evaluations, self.impl_traces, len(self.violations), len(self.known), wall))
        return 1 if self.violations else 0

def replay_case(ctx, path):
    with open(path) as f: v = json.load(f)
    c = v.get("cfg") or {}
    d = vlib.scratch("replay")
    inp = os.path.join(d, "in.ndjson")
    with open(inp, "w") as f: f.write(json.dumps(v.get("input", [])) + "\n")
    start = c.get("start", 0)
    text = v.get("input", [])[start:] if v.get("sig", "").split(":")[0] not in ("shift", "shift-susp", "shift-resume") else v.get("input", [])
    with open(inp, "w") as f: f.write(json.dumps(text) + "\n")
    if v.get("sig", "").startswith("shift"): c = dict(c, start=0)
    job = dict(mode="explore", props=[v["property"]], cfgs=[c], inputs_file=inp, shifts=[1, 2, 7, 255, 256, 300, 4096, 65000], workers=1)
    r = vlib.run_job(job, "replay")
    shutil.rmtree(d, ignore_errors=True)
    vs = [x for x in r.get("violations") or [] if x["property"] == v["property"]]
    for x in vs[:5]:
        print("REPRODUCED property=%s %s: %s %s\n  %s" % (x["property"], x["what"], x["text"], json.dumps(x["cfg"]), x["detail"]))
    if not vs: print("not reproduced on the current tree")
    return 1 if vs else 0

# ------------------------------------------------------------------------------------------------
# Atom sets of the relational explorations (Go side), per parser family.
SP, HT, CR, LF = [32], [9], [13], [10]
ATOMS = dict(
    num=[SP, HT, CR, LF, B("0"), B("9"), B("x")],
    cseq=[SP, HT, CR, LF, B("1"), B("A"), B("ACK")],
    fline=[SP, HT, CR, LF, B("a"), B("1"), B("SIP/2.0"), B("sIp/2.0"), B("INVITE"), B("200"), B("sip:a")],
    fline_long=[B("INVITE sip:a SIP/2.0"), B("SIP/2.0 200 OK"), B("SIP/2.0 "), B("404 "), SP, CR, LF, B("x"), B("BYE s SIP/2.0   ")],
    hdr=[SP, HT, CR, LF, B(":"), B("a"), B("x"), B("From"), B("l")],
    hdrv=[SP, CR, LF, B("a:"), B("l:"), B("CSeq:"), B("i:"), B("Expires:"), B("1"), B("ACK"), B("x")],
    hdrna=[SP, CR, LF, B("f:"), B("t:"), B("m:"), B("P-Asserted-Identity:"), B("<sip:a>"), B(","), B(";"), B("tag=1"), B("x")],
    nameaddr=[SP, CR, LF, B("a"), B("<"), B(">"), B("\""), B("\\"), B(";"), B("="), B(","), B("*"), B("tag"), B("expires"), B("q"), B("lr"), B("1"), B(".")],
    contacts=[SP, CR, LF, B("<sip:a>"), B("a"), B(","), B(";"), B("expires=7"), B("\""), B("*")],
    tokparam=[SP, HT, CR, LF, B("a"), B("="), B(";"), B("&"), B(","), B("?"), B("\""), B("\\"), B("@"), [200]],
    tokparam_deep=[SP, CR, B("a"), B("="), B(";"), B("&"), B("\"")],
    nameaddr_deep=[SP, CR, B("a"), B("<b>"), B(";"), B("="), B("\""), B(",")],
    nameaddr_quoted=[B("\""), B("\\"), B("a"), B("<b>"), CR, B(";"), SP],
    tokparam_quoted=[B("\""), B("\\"), B("a"), B("="), B(";"), SP],
    urilists_known=[B("lr"), B("ttl"), B("Maddr"), B("="), B(";"), B("1"), B("&")],
    hdrnum=[SP, CR, LF, B("l:"), B("Expires:"), B("CSeq:"), B("123456789"), B("0"), B("9"), B(" ACK"), B("x")],
    quoted=[SP, HT, CR, LF, B("a"), B("\""), B("\\"), [127], [1], [200]],
)
F_TOK = [0, 1, 2, 4, 8, 9, 12, 16, 32, 64, 72, 128, 136]

def cfgs_sub(start=(0,)):
    """(name, atoms key, list of cfgs, quick N, thorough N) for every exported incremental sub-parser (C02 family)"""
    fam = []
    def k(kind, **kw):
        d = dict(kind=kind, start=0, flags=0, hcap=-1, ccap=-1, pcap=-1); d.update(kw); return d
    def st(cs): return [dict(c, start=s) for c in cs for s in start]
    fam.append(("scalar", "num", st([k("uint"), k("clen"), k("expires"), k("callid")]), 6, 8))
    fam.append(("cseq", "cseq", st([k("cseq")]), 6, 8))
    fam.append(("fline", "fline", st([k("fline")]), 4, 6))
    fam.append(("fline_long", "fline_long", st([k("fline")]), 4, 6))
    fam.append(("hdrline", "hdr", st([k("hdrline"), k("hdrlineb", ccap=1), k("headers", hcap=1), k("headersb", hcap=2, ccap=1)]), 5, 7))
    fam.append(("hdrvals", "hdrv", st([k("hdrlineb", ccap=1), k("headersb", hcap=0, ccap=0), k("headersb", hcap=3, ccap=2)]), 4, 6))
    fam.append(("hdrnameaddr", "hdrna", st([k("hdrlineb", ccap=1), k("headersb", hcap=0, ccap=0), k("headersb", hcap=3, ccap=2)]), 4, 5))
    fam.append(("hdrnum", "hdrnum", st([k("hdrlineb", ccap=1), k("headersb", hcap=1, ccap=0)]), 4, 5))
    fam.append(("nameaddr", "nameaddr", st([k("nameaddr", flags=h) for h in (1, 8, 13)] + [k("onepai")]), 4, 5))
    fam.append(("nameaddr_deep", "nameaddr_deep", st([k("nameaddr", flags=h) for h in (2, 8)]), 6, 8))
    fam.append(("nameaddr_quoted", "nameaddr_quoted", st([k("nameaddr", flags=h) for h in (1, 13)] + [k("contacts", ccap=1)]), 7, 8))
    fam.append(("contacts", "contacts", st([k("contacts", ccap=c) for c in (0, 1, 2)] + [k("pais")]), 5, 6))
    fam.append(("tokparam", "tokparam", st([k("tokparam", flags=f) for f in F_TOK]), 4, 5))
    fam.append(("tokparam_deep", "tokparam_deep", st([k("tokparam", flags=f) for f in F_TOK]), 6, 8))
    fam.append(("tokparam_quoted", "tokparam_quoted", st([k("tokparam", flags=f) for f in (0, 4, 16, 25)]), 7, 8))
    fam.append(("urilists", "tokparam", st([k("uriparams", flags=f, pcap=p) for f in (64, 72) for p in (0, 1, 2)] +
                                           [k("urihdrs", flags=f, pcap=p) for f in (128, 136) for p in (0, 1, 2)]), 4, 5))
    fam.append(("urilists_deep", "tokparam_deep", st([k("uriparams", flags=f, pcap=p) for f in (64, 72) for p in (0, 1, 2)] +
                                           [k("urihdrs", flags=f, pcap=p) for f in (128, 136) for p in (0, 1, 2)]), 6, 8))
    fam.append(("urilists_known", "urilists_known", st([k("uriparams", flags=f, pcap=p) for f in (64, 72) for p in (0, 1, 2)] +
                                           [k("urihdrs", flags=136, pcap=1)]), 5, 6))        # known URI parameter names: the Types flags depend on the name TEXT
    fam.append(("skipquoted", "quoted", st([k("skipquoted")]), 6, 7))
    return fam

SHIFTS_Q = [1, 2, 7, 255, 256, 65000, -1]        # (-1: the text ends exactly at offset 65 535, -2: one byte before)
SHIFTS_T = [1, 2, 3, 7, 8, 255, 256, 257, 4095, 4096, 32767, 32768, 65000, 65400, -1, -2]

def explore_sub(ctx, props, start=(0,), shifts=None, fams=None):
    for name, ak, cfgs, nq, nt in cfgs_sub(start):
        if fams and name not in fams: continue
        job = dict(mode="explore", props=props, cfgs=cfgs, atoms=ATOMS[ak], maxlen=(nq if ctx.quick else nt),
                   shifts=shifts or [])
        ctx.explore(job, name)

def mc_cfg(consts, invariants, extra=""):
    return ("SPECIFICATION Spec\nVIEW view\nCONSTANTS\n" + "\n".join("  " + c for c in consts) +
            "\nINVARIANTS " + " ".join(invariants) + ("\nPROPERTY MonotoneCont" if "ResumeEqFresh" in invariants else "") + "\nCHECK_DEADLOCK FALSE\n" + extra)

def msg_models(ctx, names, inv=("ResumeEqFresh", "StableM", "OffsSane", "Idempotent")):
    """Stream instances of the header-line / header-block / whole-message transcriptions (MC_Msg.tla)"""
    table = dict(hdr=("AtomsHdr", "CfgsHdr", 4, 5, 16), hdrv=("AtomsHdrV", "CfgsHdrV", 2, 3, 60), hdrna=("AtomsHdrNA", "CfgsHdrV", 2, 3, 80),
                 msg=("AtomsMsg", "CfgsMsg", 2, 3, 90), msgs=("AtomsMsgS", "CfgsMsgAll", 3, 4, 90))
    for n in names:
        atoms, cfgs, nq, nt, maxlen = table[n]
        cfg = mc_cfg(["OffsMod = 65536", "Atoms <- " + atoms, "MaxLen = %d" % maxlen, "MaxAtoms = %d" % (nq if ctx.quick else nt),
                      "Cfgs <- " + cfgs, "Junk = 34", "EmitOn = TRUE"], list(inv) + ["Emit", "EmitTwo", "EmitByte"])
        ctx.tlc("MC_Msg", ("MC_Msg_%s_run.cfg" % n, cfg), workers=8, timeout=3000)

def sub_models(ctx, level):
    """Stream instances of the other transcribed sub-parsers (agents' modules): a representative subset in the quick
    tier, every configuration in the thorough tier"""
    import glob
    if ctx.quick:
        runs = [("MC_TokParam", "MC_TokParam_tok_f4_quote.cfg"), ("MC_TokParam", "MC_TokParam_up_f64_qm.cfg"), ("MC_TokParam", "MC_TokParam_uh_f136_amp.cfg"),
                ("MC_TokParam", "MC_TokParam_sq_a.cfg"), ("MC_FLine", "MC_FLine_bad.cfg")][:level]
    else:
        runs = [("MC_TokParam", os.path.basename(f)) for f in sorted(glob.glob(os.path.join(V, "spec", "MC_TokParam_*.cfg")))] + \
               [("MC_FLine", "MC_FLine_%s.cfg" % c) for c in ("rpl", "req", "tok", "bad")]
    na = sorted(glob.glob(os.path.join(V, "spec", "MC_NameAddr_*.cfg")))
    runs += [("MC_NameAddr", os.path.basename(f)) for f in (na if not ctx.quick else [f for f in na if os.path.basename(f) in
             ("MC_NameAddr_struct.cfg", "MC_NameAddr_contacts.cfg", "MC_NameAddr_pais.cfg", "MC_NameAddr_known.cfg")][:level])]
    for mod, cfg in runs:
        ctx.tlc(mod, cfg, workers=8, timeout=3000)

def scalar_models(ctx, kinds=("uint", "clen", "callid", "cseq"), inv=("ResumeEqFresh", "Stable", "OffsSane", "Idempotent")):
    n = 5 if ctx.quick else 7
    for k in kinds:
        atoms = "AtomsCSeq" if k == "cseq" else "AtomsNumHT"
        cfg = mc_cfg(["OffsMod = 65536", 'Kind = "%s"' % k, "Atoms <- " + atoms, "MaxLen = %d" % (n + (1 if k == "cseq" else 0)),
                      "MaxAtoms = 99", "Cfgs <- Cfgs03", "Junk = 34", "EmitOn = TRUE"], list(inv) + ["Emit", "EmitTwo", "EmitByte"])
        ctx.tlc("MC_Scalar", ("MC_Scalar_%s_run.cfg" % k, cfg), workers=8)

def live_models(ctx, runs):
    """FairSpec / Progress (and MonotoneCont, ResumeEqFresh) on small Stream instances without the VIEW: model only,
    a failure is a defect of the protocol model or a transcription, reported as machinery (exit 2), never a verdict."""
    import re
    for mod, cfg, maxlen in runs:
        c = cfg
        if maxlen is not None:
            txt = open(os.path.join(V, "spec", cfg)).read()
            c = (cfg.replace(".cfg", "_n%d.cfg" % maxlen), re.sub(r"MaxLen = \d+", "MaxLen = %d" % maxlen, txt))
        r = vlib.run_tlc(mod, c, workers=8, timeout=1800)
        if not r["ok"]: raise Machinery("TLC failed on %s (liveness of the protocol model):\n%s" % (cfg, r["tail"]))
        ctx.states += r["distinct"]; ctx.transitions += r["generated"]
        ctx.tlc_runs.append(dict(module=mod, cfg="%s%s (FairSpec, PROPERTIES Progress MonotoneCont; model only)" % (cfg, "" if maxlen is None else " MaxLen=%d" % maxlen),
                                 states=r["distinct"], records=0, tlc_wall_s=round(r["wall"], 1)))
        shutil.rmtree(r["dir"], ignore_errors=True)

# ------------------------------------------------------------------------------------------------
def plan_C02(ctx):
    ctx.extra["rule"] = ("TLC: every Send/Call interleaving of Stream per parser kind over all atom strings <= MaxLen "
                         "(ResumeEqFresh checked on the model, one oracle record per distinct state replayed on the code). "
                         "Code: every atom string <= N per family x configuration; fresh parse of every prefix; every "
                         "(suspended prefix p -> longer prefix q) pair resumed and compared with the fresh parse of q "
                         "(verdict, offset; values when definitive, full object state when suspended => all 2^(n-1) "
                         "schedules by induction).  non-trivial = input with >= 1 suspension and a definitive verdict.")
    scalar_models(ctx)
    # liveness on small instances (beyond the listed properties): Stream!Progress under weak fairness of Call -- model only
    live_models(ctx, [("MC_Scalar", "MC_Scalar_live_%s.cfg" % k, None) for k in ("uint", "clen", "callid", "cseq")])
    # ... and for the list parsers (token / URI parameter / URI header lists, SkipQuoted, Contact and PAI value lists)
    n = 4 if ctx.quick else 5
    live_models(ctx, [("MC_TokParam", "MC_TokParam_live_%s.cfg" % k, n) for k in ("tok", "up", "uh")] +
                     [("MC_TokParam", "MC_TokParam_live_sq.cfg", None), ("MC_NameAddr", "MC_NameAddr_live_contacts.cfg", None),
                      ("MC_NameAddr", "MC_NameAddr_live_pais.cfg", None), ("MC_FLine", "MC_FLine_live_bad.cfg", None)])
    msg_models(ctx, ["hdr", "hdrv", "hdrna"])
    sub_models(ctx, 4)
    sub_traces(ctx, 700 if ctx.quick else 4000)
    explore_sub(ctx, ["C02"], start=(0, 3))
    cleanup(ctx)
    ctx.need("inputs with a suspension and a definitive verdict", ctx.nontrivial, 1000)

def plan_C03(ctx):
    ctx.extra["rule"] = ("TLC: invariant Stable on Stream (each wire against its parent, prefix-closed). Code: every atom string "
                         "<= N: every definitive fresh result on a prefix equals the fresh result on the next longer prefix "
                         "(transitively every extension inside the enumeration, which is prefix closed over the atom set "
                         "incl. SP HT CR LF digits quotes). Exempt: input-end / no-more-data configurations, body extent "
                         "of a message without Content-Length.")
    scalar_models(ctx)
    msg_models(ctx, ["hdr", "msg"] if ctx.quick else ["hdr", "hdrv", "hdrna", "msg", "msgs"])
    sub_models(ctx, 2)
    explore_sub(ctx, ["C03"], start=(0,))
    f1, n1 = gen_corpus(ctx, 1, "hdrs", "corpus")
    ctx.explore(dict(mode="explore", props=["C03"], cfgs=[c for c in msg_cfgs(None) if not c["flags"] & 4][::3], inputs_file=f1, mutants=3, light=True), "msg K=1 stable")
    f2, n2 = gen_corpus(ctx, 1 if ctx.quick else 2, "framing", "corpus", keep_every=(3 if ctx.quick else 2))
    ctx.explore(dict(mode="explore", props=["C03"], cfgs=[mk(flags=f, hcap=h) for f in (0, 1, 2, 3) for h in (-1, 1)], inputs_file=f2, light=True), "msg framing stable")
    cleanup(ctx)
    ctx.need("inputs with a suspension and a definitive verdict", ctx.nontrivial, 1000)

def plan_C04(ctx):
    ctx.extra["rule"] = ("TLC: invariant OffsSane (no PANIC verdict, offset in range and not before the passed offset unless error). "
                         "Code: every real call made by the explorations (fresh, resumed, shifted) runs under recover + watchdog; "
                         "offsets checked; every exported PField dereferenced against the visible buffer (exact capacity).")
    scalar_models(ctx)
    msg_models(ctx, ["hdrna", "msg"] if ctx.quick else ["hdrna", "msg", "msgs"])        # (hdr / hdrv: thorough tiers of C02 and C03)
    sub_models(ctx, 2)
    sub_traces(ctx, 400 if ctx.quick else 2500)
    explore_sub(ctx, ["C04"], start=(0, 3), shifts=[1, 65000])
    f1, n1 = gen_corpus(ctx, 1, "hdrs", "corpus")
    ctx.explore(dict(mode="explore", props=["C04"], cfgs=msg_cfgs(ctx.seed), inputs_file=f1, mutants=4, light=True, shifts=[3, 65000]), "msg K=1 + mutants, sane")
    ctx.explore(dict(mode="lookups", props=["C04"]), "total lookups", count_as_traces=False)
    # parses on objects that were used, abandoned and reset (caller-supplied arrays): no panic, fields dereferenceable
    f2, n2 = gen_corpus(ctx, 2, "hdrs", "corpus", keep_every=(9 if ctx.quick else 2))
    ctx.explore(dict(mode="reset", props=["C04"], cfgs=[mk(hcap=3, ccap=3), mk(hcap=1, ccap=2, flags=4), mk(hcap=64, ccap=4, flags=1)], inputs_file=f2,
                     light=True, extra=dict(probes=PROBES)), "msg reset histories, sane")
    ctx.explore(dict(mode="reset", props=["C04"], cfgs=[mk("contacts", ccap=c) for c in (1, 2, 3)] + [mk("headersb", hcap=2, ccap=2)],
                     atoms=ATOMS["contacts"], maxlen=4 if ctx.quick else 5,
                     extra=dict(probes=[B("<sip:a@b>, <sip:c@d>;expires=3\r\nX"), B("m: <sip:a@b>, <sip:c@d>\r\n\r\n")])), "contact list reset histories, sane")
    # the pure functions (relocation, URI parse / compare, IPv4 detection, signatures, lookups) on their TLC-enumerated domains:
    # a real panic where the model predicts a result is a violation
    for mod, cfg in (("MC_URIAdj", "MC_URIAdj_core.cfg"), ("MC_URI", "MC_URI_schemes.cfg"), ("MC_IP4", "MC_IP4_b4.cfg"), ("MC_URICmp", "MC_URICmp_recase.cfg"),
                     ("MC_GenSig", "MC_GenSig_probe.cfg"), ("MC_GenSig", "MC_GenSig_caps8.cfg")) + (() if ctx.quick else (("MC_URIAdj", "MC_URIAdj.cfg"), ("MC_URICmp", "MC_URICmp_flags64v.cfg"), ("MC_IP4Gen", "MC_IP4Gen.cfg"))):
        ctx.tlc(mod, cfg, workers=8, timeout=3000)
    # ... the string signatures (getStrCharsSig / GetCallIDSig / IP4Prefix / IP6Prefix behind them): structured Call-IDs (addresses, IPv6-shaped
    # texts with too many groups, very long ids) and every string over the base64 alphabets ('=' padding at every position, also last)
    ctx.tlc("MC_StrSig", strsig_cfg("gen"), min_records=1000)
    for al in ("b64", "b64b") + (() if ctx.quick else ("v6", "ip", "seps")):
        ctx.tlc("MC_StrSig", strsig_cfg("cid", al, 2 if ctx.quick else 0), min_records=1000, timeout=3000)
    # isolation at call-interleaving granularity: TLC enumerates every interleaving of the chunked calls of two objects (MC_Stream2,
    # invariant Isolated on the model); each is executed on two real objects and compared with their solo runs
    ctx.tlc("MC_Stream2", "MC_Stream2.cfg", workers=8, min_records=100)
    # isolation: independent calls from 16 goroutines vs the same calls alone
    ctx.explore(dict(mode="concurrent", props=["C04"], cfgs=msg_cfgs(ctx.seed), inputs_file=f1), "independent calls run concurrently", count_as_traces=False)
    cleanup(ctx)
    ctx.need("real calls", ctx.evaluations, 100000)

def plan_C11(ctx):
    ctx.extra["rule"] = ("Code: every atom string <= N per family, parsed at offset 0 and at offset k (junk bytes before it) for "
                         "k in the shift set: same verdict, offset and every positional field shifted by exactly k, everything "
                         "else equal (one-shot and resumed through the first suspension).")
    scalar_models(ctx, kinds=("uint",))
    explore_sub(ctx, ["C11"], start=(0,), shifts=SHIFTS_Q if ctx.quick else SHIFTS_T)
    # relocation of parsed URIs up to the 65 535 limit (offsets {0, 1, 300, 65535-len}): model invariant RelocateOk, replay, TLC judge
    r = vlib.run_tlc("MC_URIAdj", "MC_URIAdj.cfg", workers=8, timeout=1500)
    if not r["ok"]: raise Machinery("TLC failed on MC_URIAdj:\n" + r["tail"])
    ctx.states += r["distinct"]; ctx.transitions += r["generated"]
    dr = os.path.join(r["dir"], "drift.ndjson")
    rp = vlib.replay(r["out"], drift_out=dr)
    ctx.records += rp["extra"]["records"]; ctx.impl_traces += rp["extra"]["records"]; ctx.drift += rp["extra"]["drift"]
    ctx.tlc_runs.append(dict(module="MC_URIAdj", cfg="MC_URIAdj.cfg", states=r["distinct"], records=rp["extra"]["records"], drift=rp["extra"]["drift"]))
    if rp["extra"]["drift"]: ctx.judge("Judge_URI", dr)
    audit_sample(ctx, r["out"], 997 if ctx.quick else 199)
    shutil.rmtree(r["dir"], ignore_errors=True)
    f1, n1 = gen_corpus(ctx, 1, "hdrs", "corpus")
    ctx.explore(dict(mode="explore", props=["C11"], cfgs=msg_cfgs(ctx.seed), inputs_file=f1, shifts=SHIFTS_Q if ctx.quick else SHIFTS_T, mutants=2, light=True), "msg K=1 shifted")
    f2, n2 = gen_corpus(ctx, 1, "framing", "corpus", keep_every=(3 if ctx.quick else 1))
    ctx.explore(dict(mode="explore", props=["C11"], cfgs=[mk(flags=fl, hcap=h, ccap=c) for fl in range(8) for (h, c) in ((-1, -1), (1, 0))],
                     inputs_file=f2, shifts=[1, 97, 4096, 65000], light=True), "msg framing shifted")
    cleanup(ctx)
    ctx.need("shifted parses", sum(e["stats"].get("Shifts", 0) for e in ctx.extra.get("explorations", [])), 10000)

# ------------------------------------------------------------------------------------------------
# Message-level properties: behaviours come from the TLA+ generator (spec/Gen.tla, MC_GenMsg.tla)
def genmsg_cfg(K, part, prop):
    return ("genmsg_%s_%d.cfg" % (part, K),
            "SPECIFICATION Spec\nCONSTANTS\n  OffsMod = 65536\n  K = %d\n  Part = \"%s\"\n  Prop = \"%s\"\nINVARIANTS Emit\nCHECK_DEADLOCK FALSE\n" % (K, part, prop))

def gen_corpus(ctx, K, part, prop, keep_every=1, timeout=1500):
    """Run the generator in TLC, replay its records on the code, and return a file with the generated wires."""
    r = vlib.run_tlc("MC_GenMsg", genmsg_cfg(K, part, prop), workers=8, timeout=timeout)
    if not r["ok"]:
        raise Machinery("TLC failed on MC_GenMsg %s K=%d:\n%s" % (part, K, r["tail"]))
    ctx.states += r["distinct"]; ctx.transitions += r["generated"]
    rp = vlib.replay(r["out"])
    x = rp["extra"]
    ctx.records += x["records"]; ctx.impl_traces += x["records"]
    ctx.tlc_runs.append(dict(module="MC_GenMsg", cfg="%s K=%d prop=%s" % (part, K, prop), states=r["distinct"], generated=r["generated"],
                             records=x["records"], drift=x["drift"], decl_mismatch=x["decl_mismatch"], tlc_wall_s=round(r["wall"], 1)))
    for s_ in (rp.get("samples") or [])[:3]:
        if len(ctx.samples) < 12: ctx.samples.append(dict(source="TLC MC_GenMsg %s K=%d, replayed on the code" % (part, K), case=s_))
    for v in rp.get("violations") or []:
        v["property"] = ctx.pid if prop == ctx.pid else v.get("property")
        if v["property"] == ctx.pid: ctx.violation(v)
    os.makedirs(vlib.WORK, exist_ok=True)
    path = os.path.join(vlib.scratch("corpus"), "wires.ndjson")
    seen = set(); n = 0
    with open(path, "w") as f:
        for line in open(r["out"], errors="replace"):
            if not line.startswith('"{'): continue
            rec = json.loads(json.loads(line))
            w = bytes(rec["wire"])
            if w in seen: continue
            seen.add(w); n += 1
            if keep_every <= 1 or zlib.crc32(line.encode()) % keep_every == 0: f.write(json.dumps(rec["wire"]) + "\n")
    shutil.rmtree(r["dir"], ignore_errors=True)
    ctx._tmp = getattr(ctx, "_tmp", []) + [os.path.dirname(path)]
    if n < 100: raise Machinery("vacuous: generator produced %d messages" % n)
    return path, n

def mk(kind="msg", **kw):
    d = dict(kind=kind, start=0, flags=0, hcap=-1, ccap=-1, pcap=-1); d.update(kw); return d

def msg_cfgs(rot):
    """configurations of the whole-message parser: all 8 flag sets x capacity pairs (rotated to bound cost)"""
    caps = [(-1, -1), (0, 0), (1, 1), (2, -1), (64, 64), (-1, 0), (3, 1)]
    allc = [mk(flags=f, hcap=h, ccap=c) for f in range(8) for (h, c) in caps]
    if rot is None: return allc
    return [allc[(rot * 7 + i * 11) % len(allc)] for i in range(4)] + [mk()]

def cleanup(ctx):
    for d in getattr(ctx, "_tmp", []): shutil.rmtree(d, ignore_errors=True)

TRACE_CFGS = [mk(), mk(flags=5, hcap=1, ccap=0), mk(flags=2, hcap=64, ccap=64), mk("headersb", hcap=2, ccap=1), mk("hdrlineb", ccap=1),
              mk("cseq"), mk("clen"), mk("callid"), mk("fline"), mk("nameaddr", flags=8), mk("nameaddr", flags=1), mk("contacts", ccap=0),
              mk("contacts", ccap=2), mk("pais"), mk("uriparams", flags=72, pcap=1), mk("tokparam", flags=8), mk("msg", start=3)]

def atom_inputs(ctx, atoms, nmax, count, seed):
    """seeded random atom strings (inputs of recorded traces)"""
    rnd = random.Random(seed)
    d = vlib.scratch("atoms"); path = os.path.join(d, "in.ndjson")
    with open(path, "w") as f:
        for _ in range(count):
            k = rnd.randint(1, nmax); w = []
            for _ in range(k): w += rnd.choice(atoms)
            f.write(json.dumps(w) + "\n")
    ctx._tmp = getattr(ctx, "_tmp", []) + [d]
    return path

def sub_traces(ctx, n_events):
    """M3 for the sub-parser kinds: random atom strings, random schedules, validated against Trace_Stream"""
    fams = [("num", [mk("uint"), mk("clen"), mk("expires"), mk("callid"), mk("uint", start=3)]), ("cseq", [mk("cseq")]),
            ("fline_long", [mk("fline"), mk("fline", start=3)]), ("hdrna", [mk("hdrlineb", ccap=1), mk("headersb", hcap=1, ccap=0), mk("headersb", hcap=3, ccap=2)]),
            ("hdr", [mk("hdrline"), mk("headers", hcap=1)]),
            ("nameaddr", [mk("nameaddr", flags=h) for h in (1, 2, 8, 13)] + [mk("onepai")]),
            ("contacts", [mk("contacts", ccap=c) for c in (0, 1, 2)] + [mk("pais")]),
            ("tokparam_deep", [mk("tokparam", flags=f) for f in F_TOK] + [mk("uriparams", flags=72, pcap=1), mk("urihdrs", flags=136, pcap=2)]),
            ("quoted", [mk("skipquoted")])]
    for ak, cfgs in fams:
        f = atom_inputs(ctx, ATOMS[ak], 8, 400, ctx.seed * 7919 + len(ak))
        ctx.trace_validate(cfgs, f, max_events=n_events, name="traces " + ak)

def selftest(ctx):
    """Binding demonstration: corrupt one logged field and require the trace spec to flag exactly that line."""
    f1, n1 = gen_corpus(ctx, 1, "hdrs", "corpus")
    drift, bad = ctx.trace_validate(TRACE_CFGS, f1, max_events=600, corrupt=17, name="binding demonstration")
    cleanup(ctx)
    if len(drift) != 1 or bad:
        raise Machinery("binding demonstration failed: corrupted call event 17 -> drift lines %s, property failures %s" % (drift, bad))
    ctx.notes.append("binding demonstration: the offset of call event 17 was corrupted identically in the real and the paired fresh result; "
                     "Trace_Stream flagged exactly line %d as model/code divergence and no property failure" % drift[0])
    ctx.drift = 0
    print("selftest ok: corrupted line %d flagged" % drift[0])

def plan_C01(ctx):
    ctx.extra["rule"] = ("Behaviours: every message derivable from the TLA+ generator Gen!GenMsg (first line x K header lines from a "
        "52-line pool covering every value parser, folds, compact names, lone CR/LF terminators, WS before ':', empty values x blank "
        "line) enumerated by TLC, plus seeded single-atom near-miss mutants. Code: per message x configuration (8 flag sets x 7 "
        "capacity pairs, rotated) fresh parse of every prefix; K=1 messages: ALL (suspended p -> q) pairs (=> all schedules by "
        "induction, full-state equality at suspensions); K=2: q in {p+1, n} + seeded sample. non-trivial = message with a "
        "suspension and a definitive verdict.")
    msg_models(ctx, ["msg", "msgs"])
    f1, n1 = gen_corpus(ctx, 1, "hdrs", "corpus")
    ctx.explore(dict(mode="explore", props=["C01"], cfgs=msg_cfgs(None) if not ctx.quick else msg_cfgs(ctx.seed), inputs_file=f1, mutants=2), "msg K=1 all pairs")
    f2, n2 = gen_corpus(ctx, 2, "hdrs", "corpus", keep_every=(3 if ctx.quick else 1))
    ctx.explore(dict(mode="explore", props=["C01"], cfgs=msg_cfgs(ctx.seed + 1), inputs_file=f2, mutants=1, light=True), "msg K=2 light")
    f3, n3 = gen_corpus(ctx, 1 if ctx.quick else 2, "framing", "corpus", keep_every=(7 if ctx.quick else 5))
    ctx.explore(dict(mode="explore", props=["C01"], cfgs=msg_cfgs(ctx.seed + 2), inputs_file=f3, light=True), "msg framing light")
    f5, n5 = gen_corpus(ctx, 1, "bigclen", "corpus", keep_every=(3 if ctx.quick else 1))
    ctx.explore(dict(mode="explore", props=["C01"], cfgs=[mk(), mk(flags=4, hcap=1, ccap=0), mk(flags=3, hcap=64, ccap=64)], inputs_file=f5), "msg out-of-range numbers, all pairs")
    if not ctx.quick:
        f4, n4 = gen_corpus(ctx, 3, "caps", "corpus")
        ctx.explore(dict(mode="explore", props=["C01"], cfgs=msg_cfgs(ctx.seed + 3), inputs_file=f4, mutants=1, light=True), "msg K=3 light")
    ctx.trace_validate([c for c in TRACE_CFGS if c["kind"] == "msg"], f2, max_events=(2500 if ctx.quick else 12000), name="message traces")
    cleanup(ctx)
    ctx.need("messages with a suspension and a definitive verdict", ctx.nontrivial, 500)

def plan_C07(ctx):
    ctx.extra["rule"] = ("Decl by construction: TLC enumerates header blocks from Gen!GenHdrLine parts (name in several spellings / compact "
        "forms, WS before ':', value tokens with SP/HT/folds, CRLF / lone CR / lone LF, empty values, repeated headers) together with "
        "the intended list (type by the documented table, name span, trimmed value span, count, type flags, first of type, stored "
        "prefix for small capacities); every record is executed on the real parser and compared on exactly those keys.")
    gen_corpus(ctx, 1, "hdrs", "C07")
    gen_corpus(ctx, 2, "hdrs", "C07")
    gen_corpus(ctx, 2 if ctx.quick else 4, "caps", "C07")
    if not ctx.quick: gen_corpus(ctx, 3, "hdrs", "C07", timeout=7200)      # every block of three pool lines (0.54 M messages)
    cleanup(ctx)
    ctx.nontrivial = ctx.records
    ctx.need("generated header blocks replayed", ctx.records, 1000)

def plan_C06(ctx):
    ctx.extra["rule"] = ("Decl: Gen!Framing states what the property demands (verdict, offset, body) for flags x declared Content-Length "
        "(absent, 0, smaller, equal, larger, 600) x available body bytes; TLC enumerates messages with these framings (Content-Length "
        "header long/compact, first/last) and each is executed on the real parser. Pipelining: generated messages laid back to back, "
        "parsed one after another from each returned offset with a Reset object, compared with each message parsed alone.")
    gen_corpus(ctx, 1, "framing", "C06")
    if not ctx.quick: gen_corpus(ctx, 2, "framing", "C06", timeout=3600)       # two other header lines around the Content-Length line
    f, n = gen_corpus(ctx, 1 if ctx.quick else 2, "framing", "corpus", keep_every=(5 if ctx.quick else 3))
    ctx.explore(dict(mode="pipeline", cfgs=[mk(flags=fl, hcap=h, ccap=c) for fl in (0, 2, 4, 6) for (h, c) in ((-1, -1), (2, 1))],
                     inputs_file=f, extra=dict(depth=3 if ctx.quick else 4)), "pipelines")

    cleanup(ctx)
    ctx.nontrivial = ctx.records
    ctx.need("generated framings replayed", ctx.records, 1000)

def plan_C13(ctx):
    ctx.extra["rule"] = ("CapacityIndependent (spec/Props.tla): Obs(run with small arrays) = Truncate(Obs(run with ample arrays), capacities): "
        "verdict, offset, counts, flags, first-of-type, From/To/Call-ID/CSeq/CLen/Expires, expires summary, first/last contact equal; "
        "stored elements a prefix; More <=> dropped. Inputs: generated messages (TLC), atom strings of the list parsers; one-shot and "
        "cut at every (light: every third) position.")
    f1, n1 = gen_corpus(ctx, 2, "hdrs", "corpus", keep_every=(4 if ctx.quick else 1))
    small = [mk(flags=f, hcap=h, ccap=c) for f in (0, 1) for h in (-1, 0, 1, 2, 3) for c in (-1, 0, 1, 2)]
    ctx.explore(dict(mode="caps", cfgs=small, inputs_file=f1, light=True), "msg capacities")
    f2, n2 = gen_corpus(ctx, 3, "caps", "corpus", keep_every=(3 if ctx.quick else 1))
    ctx.explore(dict(mode="caps", cfgs=small[:20], inputs_file=f2, light=True), "msg capacities K=3")
    n = 5 if ctx.quick else 6
    ctx.explore(dict(mode="caps", cfgs=[mk("contacts", ccap=c) for c in (0, 1, 2)], atoms=ATOMS["contacts"], maxlen=n), "contact list capacities")
    ctx.explore(dict(mode="caps", cfgs=[mk("headersb", hcap=h, ccap=c) for h in (0, 1, 2) for c in (0, 1)], atoms=ATOMS["hdrna"], maxlen=4 if ctx.quick else 5), "header block capacities")
    ctx.explore(dict(mode="caps", cfgs=[mk("uriparams", flags=f, pcap=p) for f in (64, 72) for p in (0, 1, 2)] +
                     [mk("urihdrs", flags=f, pcap=p) for f in (128, 136) for p in (0, 1, 2)], atoms=ATOMS["tokparam_deep"], maxlen=6 if ctx.quick else 8), "URI list capacities")
    cleanup(ctx)
    ctx.nontrivial = sum(e["stats"].get("Successes", 0) for e in ctx.extra.get("explorations", []))
    ctx.need("successful parses compared across capacities", ctx.nontrivial, 1000)

PROBES = [B("INVITE sip:a SIP/2.0\r\nFrom: <sip:a@b>;tag=1\r\nContact: <sip:a@b>, <sip:c@d>\r\nP-Asserted-Identity: <sip:x@y>\r\nl: 0\r\n\r\n"),
          B("SIP/2.0 200 OK\r\nTo: x <sip:a@b>\r\nCSeq: 1 ACK\r\nm: *\r\nX: 1\r\nY: 2\r\nZ: 3\r\n\r\n"),
          B("REGISTER sip:r SIP/2.0\r\nCall-ID: a@b\r\nExpires: 7\r\nContact: \"x\" <sip:a@b>;expires=5;q=0.1\r\n\r\nbody")]

def plan_C12(ctx):
    ctx.extra["rule"] = ("MC_Reset.tla: TLC enumerates histories (A, stop, B) over atom strings for 18 object kinds/capacities, checks ResetLikeNew on the "
        "model and each history is replayed on one real object. ResetLikeNew (spec/Props.tla): histories Use(A, stop) . Reset|Init(same arrays) . Use(B): observations of Use(B) equal "
        "those on a newly created object with pristine arrays of the same capacities. A: generated messages / atom strings, stop: "
        "suspended at every (light: every 4th) prefix, complete, failed; B: probe inputs touching every slot, one-shot and cut in half.")
    # the history model: TLC explores every (A, stop, B) up to the bounds, checks ResetLikeNew on the transcription (KReset =
    # what the Go Reset leaves, caller arrays included) and every history is executed on ONE real object (drift)
    for atoms, cfgs, qa, ta in (("AtomsNum", "CfgsNum", (3, 2), (3, 3)), ("AtomsPar", "CfgsPar", (2, 2), (3, 2)),
                                ("AtomsNA", "CfgsNA", (2, 2), (3, 2)), ("AtomsHdr", "CfgsHdr", (2, 2), (3, 2))):
        a, b = qa if ctx.quick else ta
        ctx.tlc("MC_Reset", simple_cfg("reset_%s.cfg" % atoms, ["OffsMod = 65536", "Atoms <- " + atoms, "MaxA = %d" % a, "MaxB = %d" % b,
                                                              "Cfgs <- " + cfgs, "EmitOn = TRUE"], ["ResetLikeNew", "Emit"]), workers=8, timeout=3000, min_records=1000)
    f1, n1 = gen_corpus(ctx, 2, "hdrs", "corpus", keep_every=(6 if ctx.quick else 1))
    ctx.explore(dict(mode="reset", cfgs=[mk(), mk(hcap=1, ccap=1), mk(hcap=3, ccap=3, flags=1), mk(hcap=0, ccap=0, flags=4)], inputs_file=f1,
                     light=True, mutants=1, extra=dict(probes=PROBES)), "msg reset histories")
    hp = [B("From: <sip:a@b>;tag=1\r\nX"), B("m: <sip:a@b>, <sip:c@d>;expires=3\r\nX"), B("P-Asserted-Identity: <sip:a@b>\r\nX"), B("l: 5\r\nX"),
          B("a: b\r\nm: <sip:q@r>\r\nCSeq: 2 ACK\r\n\r\n")]
    ctx.explore(dict(mode="reset", cfgs=[mk("hdrlineb", ccap=1), mk("headersb", hcap=1, ccap=0), mk("headersb", hcap=3, ccap=2)],
                     atoms=ATOMS["hdrna"], maxlen=4 if ctx.quick else 5, extra=dict(probes=hp)), "header values reset histories")
    cp = [B("<sip:a@b>, <sip:c@d>;expires=3\r\nX"), B("\"x\" <sip:a@b>;q=0.5\r\nX"), B("*\r\nX"), B("a")]
    ctx.explore(dict(mode="reset", cfgs=[mk("contacts", ccap=c) for c in (0, 1, 2, 3)] + [mk("pais")] + [mk("nameaddr", flags=8)],
                     atoms=ATOMS["contacts"], maxlen=5 if ctx.quick else 6, extra=dict(probes=cp)), "contact list reset histories")
    pp = [B("p=1;q=2;r=3"), B("a=\"x\";b"), B("a"), B("p=1&q=2&r=3")]
    ctx.explore(dict(mode="reset", cfgs=[mk("uriparams", flags=f, pcap=p) for f in (64, 72) for p in (0, 1, 2, 4)] +
                     [mk("urihdrs", flags=f, pcap=p) for f in (128, 136) for p in (0, 1, 2, 4)] + [mk("tokparam", flags=f) for f in (0, 8, 72)],
                     atoms=ATOMS["tokparam_deep"], maxlen=5 if ctx.quick else 7, extra=dict(probes=pp)), "URI list reset histories")
    sp = [B(" 12 \r\nX"), B(" 1 ACK\r\nX"), B("a@b\r\nX"), B("9")]
    ctx.explore(dict(mode="reset", cfgs=[mk("uint"), mk("clen"), mk("cseq"), mk("callid")], atoms=ATOMS["cseq"], maxlen=5 if ctx.quick else 7,
                     extra=dict(probes=sp)), "scalar reset histories")
    flp = [B("INVITE sip:a SIP/2.0\r\n"), B("SIP/2.0 200 OK\r\n"), B("SIP/2.0 404 \n"), B("X y z\r"), B("SIP/2.0 20")]
    ctx.explore(dict(mode="reset", cfgs=[mk("fline")], atoms=ATOMS["fline_long"], maxlen=3 if ctx.quick else 4, extra=dict(probes=flp)), "first line reset histories")
    # "parsed URI": ParseURI is one-shot, the history is Use(A) . Reset . Use(B) with A a URI that fills every component (accepted, or
    # rejected late) and B every URI text TLC enumerates for MC_URI_schemes (hash sample in the quick tier); real against real
    r = vlib.run_tlc("MC_URI", "MC_URI_schemes.cfg", workers=8, timeout=1500)
    if not r["ok"]: raise Machinery("TLC failed on MC_URI_schemes:\n%s" % r["tail"])
    ctx.states += r["distinct"]; ctx.transitions += r["generated"]
    d = vlib.scratch("c12uri"); inp = os.path.join(d, "recs.out"); n = 0
    prev = [B(t) for t in ("sip:u:p@h:5071;a=1?h=v", "sip:h:5071;a=1@b@c", "sips:[::1]:65535;lr", "tel:+1:2@h;x?y")]
    with open(inp, "w") as f:
        for line in open(r["out"], errors="replace"):
            if not line.startswith('"{'): continue
            if ctx.quick and zlib.crc32(line.encode()) % 4: continue
            rec = json.loads(json.loads(line))
            if rec.get("fn") != "ParseURI": continue
            for a_ in prev:
                f.write(json.dumps(json.dumps(dict(fn="ParseURIReset", args=dict(s=rec["args"]["s"], s2=a_), res=dict(same=True), src="decl", prop="C12"))) + "\n"); n += 1
    rp = vlib.run_job(dict(mode="replay", inputs_file=inp, max_viol=200, extra=dict(drift_out="")), "c12uri")
    ctx.records += rp["extra"]["records"]; ctx.impl_traces += rp["extra"]["records"]
    ctx.tlc_runs.append(dict(module="MC_URI", cfg="MC_URI_schemes.cfg x 4 previous uses: parse, Reset, parse vs new object", states=r["distinct"], records=rp["extra"]["records"]))
    for v in rp.get("violations") or []:
        if v.get("property") == "C12": ctx.violation(v)
    shutil.rmtree(d, ignore_errors=True); shutil.rmtree(r["dir"], ignore_errors=True)
    if n < 1000: raise Machinery("vacuous: %d URI reset histories" % n)
    cleanup(ctx)
    ctx.nontrivial = sum(e["stats"].get("Suspensions", 0) for e in ctx.extra.get("explorations", []))
    ctx.need("histories abandoned while suspended", ctx.nontrivial, 1000)

def simple_cfg(name, consts, invariants, view=False):
    return (name, "SPECIFICATION Spec\n" + ("VIEW view\n" if view else "") + "CONSTANTS\n" + "\n".join("  " + c for c in consts) +
            "\nINVARIANTS " + " ".join(invariants) + "\nCHECK_DEADLOCK FALSE\n")

def plan_C16(ctx):
    ctx.extra["rule"] = ("TLC enumerates names: all 2^len letter-case variants of every table name (<= 14 letters; thorough: also the 2^19 "
        "variants of P-Asserted-Identity), every byte string of length 0..3 over a 40 byte alphabet, every one-edit neighbour "
        "(insert/delete/substitute/transpose) of every table name, every table name extended by 1..12 bytes and every proper prefix; checks on the model that the hash lookup equals membership in the "
        "literal table (AutoEqDecl, RoundTrip) and prints what the DOCUMENTED table says; each record is executed on the real "
        "GetHdrType / GetMethodNo (+ Name() and back).  The header parser's use of the classification is covered by C07.")
    parts = ["edits", "short", "cases", "ext", "rfc", "bytes2"] + ([] if ctx.quick else ["caseslong"])
    for part in parts:
        ctx.tlc("MC_Lookup", simple_cfg("lookup_%s.cfg" % part, ["OffsMod = 65536", 'Part = "%s"' % part], ["AutoEqDecl", "RoundTrip", "Emit"]),
                workers=8, min_records=1000)
    # method number -> name -> number for every SIPMethod value (incl. out of range), HdrT.String total
    ctx.explore(dict(mode="lookups", props=["C16"]), "method/hdr-type round trips", count_as_traces=False)
    ctx.nontrivial = ctx.records
    ctx.need("names classified on the real code", ctx.records, 50000)

def plan_C10(ctx):
    ctx.extra["rule"] = ("Decl from decimal strings: for every boundary digit string (neighbourhoods of 2^16 2^24 2^31 2^32 10^9 10^10 "
        "2^63 2^64 and multiples, known wrap residues, 1..40 digits, leading zeros; 209 strings) x numeric position (Expires header, "
        "Content-Length, CSeq, Contact expires, URI port; q from integer/decimal parts), TLA+ computes the value in 192 bit limb "
        "arithmetic and states: exact value, or rejected / flagged / saturated as documented; each record is executed on the real "
        "code one-shot and with a cut inside the number.  Reply status codes: all 1000 codes in the C08 generator.")
    for pos in ("expires", "clen", "cseq", "cexpires", "port", "q"):
        ctx.tlc("MC_Digits", simple_cfg("digits_%s.cfg" % pos, ["OffsMod = 65536", 'Pos = "%s"' % pos, "CutMax = %d" % (1 if ctx.quick else 40)], ["Emit", "Arith"]), workers=4, min_records=100)
    # URI port incl. digits before an '@' (password) and ports above 65535: PortExact is an invariant of MC_URI_port on the model;
    # every URI is executed on the real ParseURI; drifted and sampled real results are judged by TLC with PortExact
    for pcfg in ("MC_URI_port.cfg", "MC_URI_brk.cfg"):
        r = vlib.run_tlc("MC_URI", pcfg, workers=8, timeout=1500)
        if not r["ok"]: raise Machinery("TLC failed on %s:\n" % pcfg + r["tail"])
        ctx.states += r["distinct"]; ctx.transitions += r["generated"]
        dr = os.path.join(r["dir"], "drift.ndjson")
        rp = vlib.replay(r["out"], drift_out=dr)
        ctx.records += rp["extra"]["records"]; ctx.impl_traces += rp["extra"]["records"]; ctx.drift += rp["extra"]["drift"]
        ctx.tlc_runs.append(dict(module="MC_URI", cfg=pcfg, states=r["distinct"], records=rp["extra"]["records"], drift=rp["extra"]["drift"]))
        if rp["extra"]["drift"]: ctx.judge("Judge_URI", dr)
        audit_sample(ctx, r["out"], 499 if ctx.quick else 97)
        shutil.rmtree(r["dir"], ignore_errors=True)
    # out-of-range numeric headers inside whole messages: rejected one-shot AND under every two-call schedule
    r = vlib.run_tlc("MC_GenMsg", genmsg_cfg(1, "bigclen", "C10"), workers=8, timeout=900)
    if not r["ok"]: raise Machinery("TLC failed on MC_GenMsg bigclen:\n" + r["tail"])
    ctx.states += r["distinct"]; ctx.transitions += r["generated"]
    d = vlib.scratch("c10"); inp = os.path.join(d, "recs.out"); n = 0
    with open(inp, "w") as f:
        for line in open(r["out"], errors="replace"):
            if not line.startswith('"{'): continue
            n += 1
            rec = json.loads(json.loads(line)); L = len(rec["wire"])
            if ctx.quick and zlib.crc32(line.encode()) % 3: continue       # hash sampling: no aliasing with the enumeration order
            # (in no-more-data mode a call on a strict prefix is *told* that nothing follows: only the one-call schedule applies)
            for cut in [L] + ([] if rec["cfg"]["flags"] & 4 else list(range(20, L - 4, 1 if not ctx.quick else 2))):
                f.write(json.dumps(json.dumps(dict(rec, cuts=[L] if cut == L else [cut, L]))) + "\n")
    rp = vlib.run_job(dict(mode="replay", inputs_file=inp, max_viol=200, extra=dict(drift_out="")), "c10msg")
    ctx.records += rp["extra"]["records"]; ctx.impl_traces += rp["extra"]["records"]
    ctx.tlc_runs.append(dict(module="MC_GenMsg", cfg="bigclen K=1 x every two-call schedule", states=r["distinct"], records=rp["extra"]["records"], decl_mismatch=rp["extra"]["decl_mismatch"]))
    for v in rp.get("violations") or []:
        v["property"] = "C10"; ctx.violation(v)
    shutil.rmtree(d, ignore_errors=True); shutil.rmtree(r["dir"], ignore_errors=True)
    ctx.nontrivial = ctx.records
    ctx.need("digit strings x positions executed", ctx.records, 2000)

def witnesses(ctx, recs, module="Judge_URI"):
    """fixed witness inputs of the known findings: executed on the real code and judged on every run, so that each listed
    finding is re-confirmed (KNOWN-FINDING line) or noticed to be gone"""
    d = vlib.scratch("wit"); inp = os.path.join(d, "recs.out")
    with open(inp, "w") as f:
        for r in recs: f.write(json.dumps(json.dumps(dict(r, res={}))) + "\n")
    dr = os.path.join(d, "all.ndjson")
    vlib.run_job(dict(mode="replay", inputs_file=inp, extra=dict(drift_out=dr, dump_all=True)), "witness")
    n = ctx.judge(module, dr)
    shutil.rmtree(d, ignore_errors=True)
    return n

def uri_judge(ctx, drift_file):
    ctx.judge("Judge_URI", drift_file)

def audit_sample(ctx, tlc_out, every, module="Judge_URI"):
    """audit mode: have TLC judge a sample of ALL real results (not only drifted ones): the Decl predicates are evaluated on
    real values even where the model agrees -- this is what shows that the predicates themselves raise no false alarm."""
    d = vlib.scratch("audit"); inp = os.path.join(d, "recs.out"); k = 0
    with open(inp, "w") as f:
        for line in open(tlc_out, errors="replace"):
            if line.startswith('"{'):
                k += 1
                if zlib.crc32(line.encode()) % every == 0: f.write(line)
    dr = os.path.join(d, "all.ndjson")
    vlib.run_job(dict(mode="replay", inputs_file=inp, extra=dict(drift_out=dr, dump_all=True)), "audit")
    n = ctx.judge(module, dr)
    shutil.rmtree(d, ignore_errors=True)
    return n

def plan_C14(ctx):
    ctx.extra["rule"] = ("TLC: every byte string over ': @ ; ? & = [ ] . a 1' up to MaxLen atoms after each scheme prefix (sip: SIP: sIp: sips: "
        "SIPS: tel: ...); the Decl predicate Lossless (URIProps.tla: ordered, disjoint components, each gap exactly the required delimiter, "
        "union = the input, ';' '?' before '@' in the user, brackets kept, tel: number as user) is an invariant on the transcription "
        "(SipURI.tla); every explored input is executed on the real ParseURI (drift = model != code). Real results that differ from the "
        "model, and a sample of all real results, are judged by TLC with the same predicate (Judge_URI.tla). Known, outside the "
        "quantifier: byte 0x1a accepted as the scheme colon.")
    runs = [("MC_URI_core.cfg", 1), ("MC_URI_schemes.cfg", 1), ("MC_URI_deepuser.cfg", 1), ("MC_URI_brk.cfg", 1)]
    if not ctx.quick: runs += [("MC_URI_sip.cfg", 1), ("MC_URI_sips.cfg", 1), ("MC_URI_tel.cfg", 1), ("MC_URI_port.cfg", 1)]
    for cfg, _ in runs:
        r = vlib.run_tlc("MC_URI", cfg, workers=8, timeout=1500)
        if not r["ok"]: raise Machinery("TLC failed on MC_URI/%s:\n%s" % (cfg, r["tail"]))
        ctx.states += r["distinct"]; ctx.transitions += r["generated"]
        drift_out = os.path.join(r["dir"], "drift.ndjson")
        rp = vlib.replay(r["out"], drift_out=drift_out)
        x = rp["extra"]; ctx.records += x["records"]; ctx.impl_traces += x["records"]; ctx.drift += x["drift"]
        ctx.tlc_runs.append(dict(module="MC_URI", cfg=cfg, states=r["distinct"], records=x["records"], drift=x["drift"], tlc_wall_s=round(r["wall"], 1)))
        for s_ in (rp.get("samples") or [])[:2]:
            if len(ctx.samples) < 12: ctx.samples.append(dict(source="TLC MC_URI/%s replayed on the code" % cfg, case=s_))
        if x["drift"]:
            ctx.notes.append("drift on %d records of %s, judged by TLC: %s" % (x["drift"], cfg, (x.get("drift_samples") or [""])[0][:300]))
            ctx.judge("Judge_URI", drift_out)
            # beyond C14 (tel: URIs are only required to report the number as the user with an empty host): recorded, never a verdict
            ctx.judge("Judge_URI", drift_out, prop="X-tel", observe="a tel: URI whose components do not tile the input (URIProps!TelLossless)")
        if cfg == "MC_URI_core.cfg": audit_sample(ctx, r["out"], 97 if ctx.quick else 23)
        shutil.rmtree(r["dir"], ignore_errors=True)
    ctx.nontrivial = ctx.records
    ctx.need("URIs executed on the real parser", ctx.records, 100000)

def plan_C18(ctx):
    ctx.extra["rule"] = ("TLC: for every accepted URI over the delimiter alphabet (<= MaxLen atoms) x target offsets {0,1,300,65535-len} x spans "
        "0..len+2: RelocateOk (URIProps.tla) is an invariant on the transcription of AdjustOffs and the views; a second configuration with "
        "OffsMod = 32 explores every target offset up to the wrap boundary on the model; every (URI, offset, span) is executed on the real "
        "AdjustOffs / Short / Long / Flat / Truncate (drift); drifted and sampled real results are judged by TLC (Judge_URI.tla: "
        "RelocateReal, ViewsReal). Known finding: views of a tel: URI with a password.")
    adjcfgs = ["MC_URIAdj.cfg", "MC_URIAdj_core.cfg"]
    if not ctx.quick:   # one more atom in both alphabets
        adjcfgs += [("MC_URIAdj_len5.cfg", open(os.path.join(V, "spec", "MC_URIAdj.cfg")).read().replace("MaxLen = 4", "MaxLen = 5")),
                    ("MC_URIAdj_core_len6.cfg", open(os.path.join(V, "spec", "MC_URIAdj_core.cfg")).read().replace("MaxLen = 5", "MaxLen = 6"))]
    for adjcfg in adjcfgs:
        r = vlib.run_tlc("MC_URIAdj", adjcfg, workers=8, timeout=7200)
        if isinstance(adjcfg, tuple): adjcfg = adjcfg[0]
        if not r["ok"]: raise Machinery("TLC failed on MC_URIAdj:\n%s" % r["tail"])
        ctx.states += r["distinct"]; ctx.transitions += r["generated"]
        drift_out = os.path.join(r["dir"], "drift.ndjson")
        rp = vlib.replay(r["out"], drift_out=drift_out)
        x = rp["extra"]; ctx.records += x["records"]; ctx.impl_traces += x["records"]; ctx.drift += x["drift"]
        ctx.tlc_runs.append(dict(module="MC_URIAdj", cfg=adjcfg, states=r["distinct"], records=x["records"], drift=x["drift"], tlc_wall_s=round(r["wall"], 1)))
        if x["drift"]: ctx.judge("Judge_URI", drift_out)
        audit_sample(ctx, r["out"], 499 if ctx.quick else 97)
        shutil.rmtree(r["dir"], ignore_errors=True)
    r2 = vlib.run_tlc("MC_URIAdj", "MC_URIAdj_wrap32.cfg", workers=8, timeout=1500)
    if not r2["ok"]: raise Machinery("TLC failed on MC_URIAdj_wrap32:\n%s" % r2["tail"])
    ctx.states += r2["distinct"]; ctx.transitions += r2["generated"]
    ctx.tlc_runs.append(dict(module="MC_URIAdj", cfg="MC_URIAdj_wrap32.cfg (model only, OffsMod=32)", states=r2["distinct"], records=0, drift=0, tlc_wall_s=round(r2["wall"], 1)))
    shutil.rmtree(r2["dir"], ignore_errors=True)
    # views of every accepted URI (ParseURI records carry Short/Long/Flat/Trunc); deepuser: ';' '?' ':' inside the user
    # part before a later '@' (the back-tracking arms of ParseURI: a stale Params / Headers / Port breaks the views)
    for vcfg in ("MC_URI_schemes.cfg", "MC_URI_deepuser.cfg"):
        r3 = vlib.run_tlc("MC_URI", vcfg, workers=8, timeout=1500)
        if not r3["ok"]: raise Machinery("TLC failed on %s:\n%s" % (vcfg, r3["tail"]))
        ctx.states += r3["distinct"]; ctx.transitions += r3["generated"]
        d3 = os.path.join(r3["dir"], "drift.ndjson")
        rp3 = vlib.replay(r3["out"], drift_out=d3)
        ctx.records += rp3["extra"]["records"]; ctx.impl_traces += rp3["extra"]["records"]; ctx.drift += rp3["extra"]["drift"]
        ctx.tlc_runs.append(dict(module="MC_URI", cfg=vcfg + " (views)", states=r3["distinct"], records=rp3["extra"]["records"], drift=rp3["extra"]["drift"], tlc_wall_s=round(r3["wall"], 1)))
        if rp3["extra"]["drift"]: ctx.judge("Judge_URI", d3)
        audit_sample(ctx, r3["out"], 211 if ctx.quick else 41)
        shutil.rmtree(r3["dir"], ignore_errors=True)
    witnesses(ctx, [dict(fn="ParseURI", args=dict(s=B(t))) for t in ("tel:a:b@c", "tel:+1:x@h;p", "TEL:a:b@c?h=1")])
    for s_ in (rp.get("samples") or [])[:3]:
        if len(ctx.samples) < 12: ctx.samples.append(dict(source="TLC MC_URIAdj replayed on the code", case=s_))
    ctx.nontrivial = ctx.records
    ctx.need("relocations / views executed on the real code", ctx.records, 100000)

def plan_C09(ctx):
    ctx.extra["rule"] = ("Decl by construction (GenNameAddr.tla): values built from parts -- display name (none / token(s) / quoted with escapes and "
        "embedded , ; < >), <uri> or bare uri, 0..3 parameters (tag expires q lr other, any case; missing / empty / token / number / quoted "
        "values), LWS (none SP HT fold) around ';' '=' ',' -- together with the intended URI, V, Params, Tag, Star, LR, HasExpires/Expires, Q, "
        "Type, and for lists N, LastHVal, More, stored prefix, first/last, min/max expires; through ParseNameAddrPVal (From To Contact PAI), "
        "ParseAllContactValues (capacities 0 1 2 4), ParseAllPAIValues, ParseHeaders and ParseSIPMsg. Keys the statement does not "
        "determine (Name with LWS before '<', duplicate parameter names ...) are not compared.")
    slices = ["single", "lists", "inmsg", "listsws", "lws", "params3", "carry"]
    gen_corpus(ctx, 3 if ctx.quick else 4, "cexp", "C09")
    for sl in slices:
        ctx.tlc("MC_GenNameAddr", "MC_GenNameAddr_%s.cfg" % sl, workers=8, min_records=1000)
    if not ctx.quick:   # deep variants: three-element lists over all ten values and all separators, every triple of the 18 header lines
        for sl in ("lists", "inmsg"):
            ctx.tlc("MC_GenNameAddr", simple_cfg("gna_%s_deep.cfg" % sl, ["OffsMod = 65536", 'Part = "%s"' % sl, "Deep = TRUE"], ["Emit"]), workers=8, min_records=10000, timeout=6000)
    ctx.nontrivial = ctx.records
    ctx.need("generated name-addr values / lists executed on the real parsers", ctx.records, 50000)

STRSIG_ALPHA = dict(hexdash=("AlHexDash", 9), b64=("AlB64", 9), b64b=("AlB64b", 8), ip=("AlIP", 9), ipd=("AlIPd", 9), blocks=("AlBlocks", 11),
                    seps=("AlSeps", 9), other=("AlOther", 8), v6=("AlV6", 9))
STRSIG_CLS = dict(cls1="AlCls1", cls2="AlCls2", cls3="AlCls3")
def strsig_cfg(part, alpha=None, shorter=0):
    """configuration of MC_StrSig: part cid / br over one of the alphabets (MaxLen = the alphabet's bound - shorter), or gen / msg"""
    if part in ("gen", "msg"):
        inv = "Emit" + (" ClassInv CallIDDeclInv" if part == "gen" else ""); al, n = "AlIP", 1; name = "strsig_%s.cfg" % part
    elif part == "cls":
        al, n = STRSIG_CLS[alpha], 9 - shorter; name = "strsig_cls_%s_%d.cfg" % (alpha, n); inv = "Emit ClassInv"
    else:
        al, n = STRSIG_ALPHA[alpha]; n -= shorter + (1 if part == "br" else 0); name = "strsig_%s_%s_%d.cfg" % (part, alpha, n)
        inv = "Emit ClassInv " + ("CallIDDeclInv" if part == "cid" else "BranchDeclInv")
    return (name, "SPECIFICATION Spec\nCONSTANTS\n  OffsMod = 65536\n  Part = \"%s\"\n  Alphabet <- %s\n  MaxLen = %d\nINVARIANTS %s\nCHECK_DEADLOCK FALSE\n" % (part, al, n, inv))
def sig_judge(ctx, f): ctx.judge("Judge_Sig", f, what="the string signature does not say what the text contains (StrSig.tla: CallIDDecl / BranchDecl / IPPosDecl)")

def plan_C19(ctx):
    ctx.extra["rule"] = ("MsgSig.tla: SigHdrModel = what the property demands of the header part (ordered first occurrences of the fingerprinted "
        "headers, Contact only for INVITE, compact bit, <= 8 entries, trunc-or-same for small arrays), checked by TLC against the "
        "transcription of GetMsgSig (AutoSatisfiesDecl, DeclMeta, StringOK). MC_GenSig enumerates requests (method x permutation/subset of "
        "the 8 fingerprinted lines, long/compact x fillers x value changes x later repeats x capacities x replies x cut positions); each "
        "is executed on the real parser + GetMsgSig and compared: demanded keys, metamorphic groups (same fingerprinted content => "
        "identical full signature incl. string classes and rendering), explicit-truncated-or-equal-to-ample, well-formed rendering.")
    slices = ["perm", "fillers", "vals", "repeat", "caps8", "reply", "chunk", "probe", "viabr", "viaq", "names"] + ([] if ctx.quick else ["perm8", "perm8r", "caps"])
    for sl in slices:
        ctx.tlc("MC_GenSig", "MC_GenSig_%s.cfg" % sl, workers=8, min_records=90)
    # the string part: "the character classes of Call-ID, From-tag and first-Via branch" (StrSig.tla)
    ctx.extra["rule_strings"] = ("StrSig.tla transcribes getStrCharsSig / GetCallIDSig / GetViaBrSig; TLC checks on it that the signature is a function "
        "of the character-class sequence (ClassInv) and says what the text contains (CallIDDecl, BranchDecl: reserved-character flags, IP "
        "position, length classes); every string over 9 small alphabets (Call-ID) / 6 (branch, bare and after the cookie, with another "
        "parameter in front), structured Call-IDs and whole requests are executed on the real functions: drift, REAL results of one class "
        "group must be identical, drifted and sampled real results are judged by TLC (Judge_Sig).")
    sh = 1 if ctx.quick else 0
    ctx.tlc("MC_StrSig", strsig_cfg("gen"), judge=sig_judge, audit=("Judge_Sig", 7), min_records=1000)
    ctx.tlc("MC_StrSig", strsig_cfg("msg"), min_records=1000)
    for al in STRSIG_ALPHA:
        ctx.tlc("MC_StrSig", strsig_cfg("cid", al, sh), judge=sig_judge, audit=("Judge_Sig", 1999), min_records=10000, timeout=3000)
    for al in STRSIG_CLS:
        ctx.tlc("MC_StrSig", strsig_cfg("cls", al, sh), min_records=50000, timeout=3000)
    for al in ("hexdash", "b64", "b64b", "blocks", "seps", "other"):
        ctx.tlc("MC_StrSig", strsig_cfg("br", al, sh + (1 if ctx.quick else 0)), judge=sig_judge, audit=("Judge_Sig", 1999), min_records=5000, timeout=3000)
    ctx.nontrivial = ctx.records
    ctx.need("generated requests with signatures compared", ctx.records, 50000)

MUT_ATOMS = [B(x) for x in (" ", "\t", "\r", "\n", "\r\n", "\"", "\\", "<", ">", ";", ",", ":", "=", "0", "9", "a", "*", ";;", " ;", "; ", ";x", ";lr", ",<sip:z>")]
def py_mutants(wire, k, rnd):
    """k seeded single-edit variants of a generated message (near-misses; many still parse successfully)"""
    out = []
    for _ in range(k):
        w = list(wire); pos = rnd.randrange(1, len(w)); a = rnd.choice(MUT_ATOMS); op = rnd.randrange(5)
        if op == 0: del w[pos]
        elif op == 1: w[pos:pos] = a
        elif op == 2: w[pos:pos + 1] = a
        elif op == 3 and pos + 1 < len(w): w[pos], w[pos + 1] = w[pos + 1], w[pos]
        else:
            # insert right before a line end (dangling ';', trailing junk ...)
            ends = [i for i, b in enumerate(w) if b == 13 and i > 20]
            if ends: i = rnd.choice(ends); w[i:i] = a
        out.append(w)
    return out

def plan_C05(ctx):
    ctx.extra["rule"] = ("FieldsNested (spec/Props.tla): first-line fields inside the consumed region and in order; stored headers in message "
        "order, disjoint, name and value inside the header's own (folded) line, only WS ':' LWS between them, value trimmed; name-addr "
        "sub-fields inside the value, tag inside the parameters, CSeq number/method inside the CSeq value, typed values inside the value "
        "of the first header of their type; body from the blank line to the returned offset; raw message = [start, offset). TLC checks it "
        "on the transcription for every generated message (invariant Nested, with AutoEqDecl) and JUDGES the real results (Judge_Msg): "
        "every message is executed on the real parser one-shot and with a cut, the real observation is written out and evaluated by TLC.")
    parts = [(1, "hdrs"), (2, "hdrs"), (2, "caps"), (1, "framing")] + ([] if ctx.quick else [(3, "caps"), (2, "framing")])
    rnd = random.Random(ctx.seed)
    for K, part in parts:
        cfg = ("genmsg_%s_%d.cfg" % (part, K), "SPECIFICATION Spec\nCONSTANTS\n  OffsMod = 65536\n  K = %d\n  Part = \"%s\"\n  Prop = \"corpus\"\nINVARIANTS Emit AutoEqDecl Nested\nCHECK_DEADLOCK FALSE\n" % (K, part))
        r = vlib.run_tlc("MC_GenMsg", cfg, workers=8, timeout=1500)
        if not r["ok"]: raise Machinery("TLC failed on MC_GenMsg %s K=%d (Nested / AutoEqDecl):\n%s" % (part, K, r["tail"]))
        ctx.states += r["distinct"]; ctx.transitions += r["generated"]
        # real results, one-shot and with a cut in the middle, all judged by TLC (sampled when there are many)
        d = vlib.scratch("c05"); inp = os.path.join(d, "recs.out"); n = 0
        every = 1 if (K == 1 and part != "framing") or not ctx.quick else (5 if part != "framing" else 9)
        with open(inp, "w") as f:
            for line in open(r["out"], errors="replace"):
                if not line.startswith('"{'): continue
                n += 1
                if every > 1 and zlib.crc32(line.encode()) % every: continue
                rec = json.loads(json.loads(line))
                for cuts in ([len(rec["wire"])], [len(rec["wire"]) // 2, len(rec["wire"])], [len(rec["wire"]) - 3, len(rec["wire"])]):
                    f.write(json.dumps(json.dumps(dict(rec, cuts=cuts, src="gen"))) + "\n")
                # near-miss variants: whatever still parses successfully must satisfy the predicate as well
                for w in py_mutants(rec["wire"], 4 if part != "framing" else 1, rnd):
                    f.write(json.dumps(json.dumps(dict(rec, wire=w, cuts=[len(w)], src="gen"))) + "\n")
        dr = os.path.join(d, "all.ndjson")
        rp = vlib.run_job(dict(mode="replay", inputs_file=inp, extra=dict(drift_out=dr, dump_all=True)), "c05")
        ctx.records += rp["extra"]["records"]; ctx.impl_traces += rp["extra"]["records"]
        ctx.tlc_runs.append(dict(module="MC_GenMsg", cfg="%s K=%d Nested AutoEqDecl" % (part, K), states=r["distinct"], records=rp["extra"]["records"], tlc_wall_s=round(r["wall"], 1)))
        ctx.judge("Judge_Msg", dr)
        if len(ctx.samples) < 6:
            ctx.samples.append(dict(source="generated message, real observation judged by TLC (Judge_Msg)", case=open(dr).readline()[:600]))
        shutil.rmtree(d, ignore_errors=True); shutil.rmtree(r["dir"], ignore_errors=True)
    # "... or under any chunk schedule": the one-shot observation of every message was judged above; every chunked parse must read
    # back exactly that observation (all (p,q) pairs, full-state induction), hence satisfies the predicate too
    f1, n1 = gen_corpus(ctx, 1, "hdrs", "corpus")
    ctx.explore(dict(mode="explore", props=["C01"], cfgs=[mk(), mk(hcap=2, ccap=1), mk(flags=1, hcap=64, ccap=0)], inputs_file=f1, mutants=1), "msg K=1 chunked = one-shot",
                relabel={"C01": ("C05", "a chunked parse reads back fields that differ from the (judged) one-shot fields")})
    f2, n2 = gen_corpus(ctx, 2, "caps", "corpus", keep_every=(3 if ctx.quick else 1))
    ctx.explore(dict(mode="explore", props=["C01"], cfgs=[mk(), mk(hcap=1, ccap=0)], inputs_file=f2, light=True), "msg K=2 chunked = one-shot",
                relabel={"C01": ("C05", "a chunked parse reads back fields that differ from the (judged) one-shot fields")})
    cleanup(ctx)
    ctx.nontrivial = ctx.records
    ctx.need("real message observations judged by TLC", ctx.records, 3000)

def plan_C08(ctx):
    ctx.extra["rule"] = ("GenFLine.tla: request lines (all 14 method names, lower-cased variants, arbitrary tokens x URIs x versions), status lines "
        "(version in 4 letter-case patterns x codes incl. 000 (thorough: all 1000) x reasons: empty / one token / with SP HT inside) x CRLF / CR / "
        "LF terminators x start offsets {0,3} x one-call and two-call schedules, with the intended decomposition by construction; near-misses "
        "(double SP, HT, missing token, leading SP, < 14 bytes, non-digit / 2- / 4-digit status) with 'rejected or more'. TLC checks FLineDecl on "
        "the transcription (FLine.tla) for every line and, as a Stream instance, ResumeEqFresh/Stable/OffsSane over steered atom strings; every "
        "record is executed on the real ParseFLine.")
    ctx.tlc("MC_GenFLine", "MC_GenFLine_rep.cfg", workers=8, min_records=1000, timeout=3000)       # representative codes x 5 cut modes
    if not ctx.quick: ctx.tlc("MC_GenFLine", "MC_GenFLine_all.cfg", workers=8, min_records=1000, timeout=6000)   # all 1000 codes, one call
    ctx.tlc("MC_GenFLine", "MC_GenFLine_code000.cfg", workers=4, min_records=100)
    for c in (["rpl", "req"] if ctx.quick else ["rpl_x", "req_x", "tok_x", "bad_x"]):
        ctx.tlc("MC_FLine", "MC_FLine_%s.cfg" % c, workers=8, min_records=1000, timeout=3000)
    ctx.nontrivial = ctx.records
    ctx.need("first lines executed on the real parser", ctx.records, 10000)

def plan_C20(ctx):
    ctx.extra["rule"] = ("IPAddr.tla: IP4Prefix / ContainsIP4 transcribed; Decl: IsDottedQuad defined directly (four groups, 1-3 digits, <= 255), "
        "ContainsDecl (found <=> some substring is a dotted quad; the reported span is one and its groups are the returned bytes), PrefixDecl "
        "(accepts exactly texts starting with a group sequence, stops at the first byte that cannot extend it, end / digit / other indication). "
        "TLC enumerates structured texts (junk ++ 4-5 dot-separated groups from {1,25,56,255,256,0,0002} ++ junk: embedded valid and near-valid addresses, ~49k) and every string over {1,2,5,6,.,x} (<= 7/8), {2,.,x} (<= 10/11), {2,5,6,.} (<= 9), {0,2,.} (<= 10), checks the Decl "
        "predicates on the model and emits every (string, result); each is executed on the real functions (drift).")
    cfgs = ["gen", "b6", "b3", "b4", "bz"] if ctx.quick else ["gen", "b6x", "b3x", "b4", "bz", "b6", "b3"]
    for c in cfgs:
        r = vlib.run_tlc("MC_IP4", "MC_IP4_%s.cfg" % c, workers=8, timeout=3000) if c != "gen" else vlib.run_tlc("MC_IP4Gen", "MC_IP4Gen.cfg", workers=8, timeout=3000)
        if not r["ok"]: raise Machinery("TLC failed on MC_IP4/%s:\n%s" % (c, r["tail"]))
        ctx.states += r["distinct"]; ctx.transitions += r["generated"]
        drift_out = os.path.join(r["dir"], "drift.ndjson")
        rp = vlib.replay(r["out"], drift_out=drift_out)
        x = rp["extra"]; ctx.records += x["records"]; ctx.impl_traces += x["records"]; ctx.drift += x["drift"]
        ctx.tlc_runs.append(dict(module="MC_IP4", cfg=c, states=r["distinct"], records=x["records"], drift=x["drift"], tlc_wall_s=round(r["wall"], 1)))
        for s_ in (rp.get("samples") or [])[:2]:
            if len(ctx.samples) < 12: ctx.samples.append(dict(source="TLC MC_IP4/%s replayed on the code" % c, case=s_))
        if x["drift"]:
            ctx.notes.append("drift on %d records of MC_IP4/%s, judged by TLC" % (x["drift"], c))
            ctx.judge("Judge_IP4", drift_out)
        if c in ("b4", "bz", "gen"): audit_sample(ctx, r["out"], 997 if ctx.quick else 199, module="Judge_IP4")
        shutil.rmtree(r["dir"], ignore_errors=True)
    # IPv6 (used by the call-id signature; beyond C20, which speaks about IPv4): the transcription of IP6Prefix / ContainsIP6 against
    # the code (drift), and -- as an observation, never a verdict -- the texts whose reported span is not an RFC 4291 address
    # (IPAddr!Prefix6Sound / Contains6Sound, evaluated on the model results, which equal the real ones when the drift is 0)
    for c in (["v6a", "v6b"] if ctx.quick else ["v6a", "v6b", "v6c"]):
        ctx.tlc("MC_IP4", "MC_IP6_%s.cfg" % c, workers=8, min_records=10000, timeout=3000)
    r6 = vlib.run_tlc("MC_IP4", ("ip6_sound.cfg", open(os.path.join(V, "spec", "MC_IP6_v6a.cfg")).read().replace("INVARIANTS EmitIP6Prefix EmitContainsIP6", "INVARIANTS Rep6")), workers=8, timeout=900)
    if r6["ok"]:
        v6 = re.findall(r'<<"VIOL6", "(\w+)", (<<[^>]*>>)', open(r6["out"], errors="replace").read())
        o = ctx.extra.setdefault("observations_outside_properties", [])
        o.append(dict(what="IPv6: texts (of %d over '1 f : [ ] x', <= 6 bytes) for which IP6Prefix / ContainsIP6 report a span that is not an RFC 4291 text address: %d, e.g. %s"
                      % (r6["distinct"], len(v6), ", ".join("%s %r" % (k, bytes(int(x) for x in re.findall(r"\d+", t))) for k, t in v6[:8]))))
        shutil.rmtree(r6["dir"], ignore_errors=True)
    # "the call-id signature classifies the IP position from the search result": StrSig.tla (CallIDSig over ContainsIP4/6),
    # IPPosDecl on the model (part of CallIDDeclInv); drifted + sampled REAL results judged by TLC with IPPosDecl
    ipj = lambda c, f: c.judge("Judge_Sig", f, what="IP position flag of the call-id signature does not match any dotted quad of the text (StrSig.tla: IPPosDecl)")
    ctx.tlc("MC_StrSig", strsig_cfg("gen"), judge=ipj, audit=("Judge_Sig", 5), min_records=1000)
    for al in ("ip", "ipd"):
        ctx.tlc("MC_StrSig", strsig_cfg("cid", al, 1 if ctx.quick else 0), judge=ipj, audit=("Judge_Sig", 997), min_records=10000, timeout=3000)
    ctx.nontrivial = ctx.records
    ctx.need("strings executed on the real IPv4 functions", ctx.records, 100000)

def plan_C17(ctx):
    ctx.extra["rule"] = ("GenParams.tla: lists of 0..3 items name[=value] (missing / empty / token / quoted with escapes and embedded separators), WS / "
        "HT / folds around names, '=' and separators, empty items, ';' and '&' lists, the five endings (end of input, end of header, ',' / '?' "
        "terminator, SP + token), with the intended All / Name / Val spans, counts, URI-parameter type flags, verdict and offset by "
        "construction; a 256-byte sweep at 9 positions in 3 modes states which bytes are in the documented character set. Through "
        "ParseTokenParam (9 flag sets), ParseAllURIParams (capacities 0 1 2 8), ParseAllURIHdrs, URIParamResolve. The parsers are also "
        "transcribed (TokParam.tla, 46 model-checked configurations, drift 0).")
    slices = ["one_up", "one_uh", "one_tp", "two_up", "two_uh", "two_tp", "names_up", "names_uh", "names_tp", "names2_up", "zero_tp", "sweep", "resolve",
              "viol_zero_up", "viol_zero_uh", "viol_septerm_up", "viol_septerm_tp"]
    if not ctx.quick: slices += ["three_up", "three_uh", "three_tp", "gaps_up", "gaps_uh", "gaps_tp"]
    for sl in slices:
        ctx.tlc("MC_GenParams", "MC_GenParams_%s.cfg" % sl, workers=8, min_records=40)
    ctx.nontrivial = ctx.records
    ctx.need("generated parameter lists executed on the real parsers", ctx.records, 100000)

def plan_C15(ctx):
    ctx.extra["rule"] = ("GenURI.tla: abstract URIs (scheme, user, pass, host, port, <= 2 params of 8 names, <= 2 headers) rendered to text, with "
        "re-cased / permuted / user-case / parameter-presence variants; GU_Demand = the answer the LAWS determine (eq / ne / none). URICmp.tla "
        "transcribes URICmpShort / URIParamsLstEq / URIHdrsLstEq / URICmp / URIParseCmp / URIRawCmp; TLC checks Reflexive, Symmetric, "
        "CaseInsensitive, OrderInsensitive, FlagMonotone (all 64 flag sets in the flags64 slices), EntryPointsAgree on the model. Every pair x "
        "flags is executed on the real functions: demanded answers (decl), drift, and on the REAL results: entry points agree incl. the URIs "
        "handed back, symmetry, flag monotonicity.")
    # (slices drift_dups / drift_badlist are outside the property's domain -- duplicate names, ill-formed lists -- and not run)
    slices = ["refl", "recase", "usercase", "presence", "flags64v", "probe_emptyval", "probe_extra", "allpairs_small"] + ([] if ctx.quick else
             ["permute", "allpairs_core", "allpairs_lists", "flags64", "probe_hdrextra", "probe_hvalcase"])
    for sl in slices:
        ctx.tlc("MC_URICmp", "MC_URICmp_%s.cfg" % sl, workers=8, min_records=1000, timeout=3000)
    ctx.nontrivial = ctx.records
    ctx.need("URI pairs x flags compared on the real code", ctx.records, 100000)

PLANS = dict(C15=plan_C15, C17=plan_C17, C08=plan_C08, C20=plan_C20, C05=plan_C05, C19=plan_C19, C09=plan_C09, C14=plan_C14, C18=plan_C18, selftest=selftest, C10=plan_C10, C16=plan_C16, C01=plan_C01, C02=plan_C02, C03=plan_C03, C04=plan_C04, C06=plan_C06, C07=plan_C07, C11=plan_C11, C12=plan_C12, C13=plan_C13)
