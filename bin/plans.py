"""Per-property check plans (DESIGN §6).  A plan is a function(ctx) that runs TLC configurations, replays
their records on the real code, runs relational explorations of the real code and has TLC judge drifted
records.  Verdict rule (DESIGN §4.3): a VIOLATION comes only from observations of the real code."""
import os, json, re, time, shutil, random
import vlib
from vlib import Machinery, V

B = lambda s: [c for c in s.encode("latin-1")]

# ------------------------------------------------------------------------------------------------
class Ctx:
    def __init__(self, pid, tier, seed):
        self.pid, self.tier, self.seed = pid, tier, seed
        self.quick = tier != "thorough"
        self.states = 0; self.transitions = 0; self.records = 0; self.drift = 0
        self.impl_traces = 0; self.evaluations = 0; self.nontrivial = 0
        self.samples = []; self.violations = []; self.known = []; self.notes = []
        self.tlc_runs = []; self.minima = []; self.extra = {}
        self.assumptions = []
        with open(os.path.join(V, "known-findings.json")) as f:
            self.kf = json.load(f)

    # ---- TLC + replay of its records on the real code
    def tlc(self, mod, cfg, workers=8, timeout=1500, judge=None, min_records=1, simulate=None, depth=None, note=""):
        r = vlib.run_tlc(mod, cfg, workers=workers, timeout=timeout, simulate=simulate, depth=depth,
                         seed=(self.seed if simulate else None))
        if not r["ok"]:
            shutil.rmtree(r["dir"], ignore_errors=True) if False else None
            raise Machinery("TLC failed on %s/%s (rc=%s) -- a model-level problem is never a verdict:\n%s"
                            % (mod, cfg, r["rc"], r["tail"]))
        self.states += r["distinct"]; self.transitions += r["generated"]
        drift_out = os.path.join(r["dir"], "drift.ndjson")
        rp = vlib.replay(r["out"], drift_out=drift_out)
        x = rp["extra"]
        self.records += x["records"]; self.drift += x["drift"]; self.impl_traces += x["records"]
        if isinstance(cfg, tuple): cfg = cfg[0]
        self.tlc_runs.append(dict(module=mod, cfg=cfg, states=r["distinct"], generated=r["generated"],
                                  records=x["records"], drift=x["drift"], decl_mismatch=x["decl_mismatch"],
                                  tlc_wall_s=round(r["wall"], 1), note=note))
        if x["records"] < min_records:
            raise Machinery("vacuous: %s/%s produced %d oracle records (< %d)" % (mod, cfg, x["records"], min_records))
        for s in (rp.get("samples") or [])[:3]:
            if len(self.samples) < 12: self.samples.append(dict(source="TLC %s/%s replayed on the code" % (mod, cfg), case=s))
        for v in rp.get("violations") or []:
            if v.get("property") in ("", None): v["property"] = self.pid
            if v["property"] == self.pid: self.violation(v)
        if x["drift"]:
            self.notes.append("drift (model != code) on %d records of %s/%s, e.g. %s" % (x["drift"], mod, cfg, (x.get("drift_samples") or [""])[0][:400]))
            if judge:
                judge(self, drift_out)
        shutil.rmtree(r["dir"], ignore_errors=True)
        return r, rp

    # ---- relational exploration of the real code
    def explore(self, job, name="explore", count_as_traces=True):
        job = dict(job); job.setdefault("seed", self.seed); job.setdefault("props", [self.pid])
        r = vlib.run_job(job, name)
        if r.get("hang"):
            self.violation(dict(property="C04", what="a call does not return (watchdog)", sig="hang", detail=r["hang"], text=r["hang"], cfg={}, input=[]))
            return r
        st = r["stats"]
        self.evaluations += st.get("Calls", 0); self.nontrivial += st.get("NonTrivial", 0)
        if count_as_traces: self.impl_traces += st.get("Pairs", 0) + st.get("Inputs", 0)
        for s in (r.get("samples") or [])[:3]:
            if len(self.samples) < 12: self.samples.append(dict(source="harness " + name, case=s))
        for v in r.get("violations") or []:
            if v["property"] == self.pid: self.violation(v)
        self.extra.setdefault("explorations", []).append(dict(name=name, stats=st, wall_s=round(r.get("wall_s", 0), 1)))
        return r

    # ---- violations / known findings
    def violation(self, v):
        for k in self.kf.get("known", []):
            if k["property"] != self.pid: continue
            m = k.get("match", {})
            if "sig" in m and v.get("sig") not in m["sig"]: continue
            c = v.get("cfg") or {}
            if "kind" in m and c.get("kind") not in m["kind"]: continue
            if "flags_mask" in m and not (int(c.get("flags", 0)) & m["flags_mask"]): continue
            if "detail_re" in m and not re.search(m["detail_re"], v.get("detail", ""), re.S): continue
            if "text_re" in m and not re.search(m["text_re"], v.get("text", ""), re.S): continue
            if k["id"] not in [x["id"] for x in self.known]: self.known.append(k)
            k.setdefault("_n", 0); k["_n"] += 1
            return
        self.violations.append(v)

    def need(self, what, got, minimum):
        self.minima.append(dict(what=what, got=got, min=minimum))

    def finish(self, wall):
        for m in self.minima:
            if m["got"] < m["min"]:
                raise Machinery("vacuity guard: %s = %d < %d" % (m["what"], m["got"], m["min"]))
        os.makedirs(os.path.join(V, "evidence"), exist_ok=True)
        os.makedirs(os.path.join(V, "replays"), exist_ok=True)
        lines = []
        for k in self.known:
            lines.append("KNOWN-FINDING: property=%s %s (%d cases this run)" % (self.pid, k["desc"], k.get("_n", 0)))
        seen = {}
        for v in self.violations:
            key = (v.get("sig"), (v.get("cfg") or {}).get("kind"))
            if key in seen and seen[key] >= 3: continue
            seen[key] = seen.get(key, 0) + 1
            n = len([l for l in lines if l.startswith("VIOLATION")])
            p = os.path.join(V, "replays", "%s-%d.json" % (self.pid, n))
            with open(p, "w") as f: json.dump(v, f, indent=1)
            lines.append("VIOLATION property=%s replay=%s" % (self.pid, p))
            lines.append("  # %s: %s | %s | %s" % (v.get("what"), v.get("text", "")[:200], json.dumps(v.get("cfg")), (v.get("detail") or "").replace("\n", " / ")[:600]))
        cov = dict(states=max(self.states, 0), transitions=max(self.transitions, 0),
                   traces_validated_against_impl=self.impl_traces,
                   evaluations=self.evaluations + self.records, distinct_nontrivial=self.nontrivial,
                   samples=self.samples or [dict(note="no sample recorded")],
                   oracle_records_replayed=self.records, drift=self.drift, tlc_runs=self.tlc_runs,
                   exhaustive=True, rule=self.extra.pop("rule", ""), notes=self.notes, minima=self.minima)
        cov.update(self.extra)
        ev = dict(property_id=self.pid, tier=self.tier, seed=self.seed, level="model_checking", coverage=cov,
                  assumptions=self.assumptions, wall_s=round(wall, 1), violations=len(self.violations),
                  known_findings=[k["id"] for k in self.known])
        with open(os.path.join(V, "evidence", self.pid + ".json"), "w") as f: json.dump(ev, f, indent=1)
        for l in lines: print(l)
        print("%s tier=%s seed=%d: states=%d transitions=%d oracle_records=%d drift=%d real_calls=%d impl_traces=%d violations=%d known=%d wall=%.0fs"
              % (self.pid, self.tier, self.seed, self.states, self.transitions, self.records, self.drift,
                 self.evaluations, self.impl_traces, len(self.violations), len(self.known), wall))
        return 1 if self.violations else 0

def replay_case(ctx, path):
    with open(path) as f: v = json.load(f)
    c = v.get("cfg") or {}
    d = vlib.scratch("replay")
    inp = os.path.join(d, "in.ndjson")
    with open(inp, "w") as f: f.write(json.dumps(v.get("input", [])) + "\n")
    start = c.get("start", 0)
    text = v.get("input", [])[start:] if v.get("sig", "").split(":")[0] not in ("shift", "shift-susp", "shift-resume") else v.get("input", [])
    with open(inp, "w") as f: f.write(json.dumps(text) + "\n")
    if v.get("sig", "").startswith("shift"): c = dict(c, start=0)
    job = dict(mode="explore", props=[v["property"]], cfgs=[c], inputs_file=inp, shifts=[1, 2, 7, 255, 256, 300, 4096, 65000], workers=1)
    r = vlib.run_job(job, "replay")
    shutil.rmtree(d, ignore_errors=True)
    vs = [x for x in r.get("violations") or [] if x["property"] == v["property"]]
    for x in vs[:5]:
        print("REPRODUCED property=%s %s: %s %s\n  %s" % (x["property"], x["what"], x["text"], json.dumps(x["cfg"]), x["detail"]))
    if not vs: print("not reproduced on the current tree")
    return 1 if vs else 0

# ------------------------------------------------------------------------------------------------
# Atom sets of the relational explorations (Go side), per parser family.
SP, HT, CR, LF = [32], [9], [13], [10]
ATOMS = dict(
    num=[SP, HT, CR, LF, B("0"), B("9"), B("x")],
    cseq=[SP, HT, CR, LF, B("1"), B("A"), B("ACK")],
    fline=[SP, HT, CR, LF, B("a"), B("1"), B("SIP/2.0"), B("sIp/2.0"), B("INVITE"), B("200"), B("sip:a")],
    fline_long=[B("INVITE sip:a SIP/2.0"), B("SIP/2.0 200 OK"), B("SIP/2.0 "), B("404 "), SP, CR, LF, B("x"), B("BYE s SIP/2.0   ")],
    hdr=[SP, HT, CR, LF, B(":"), B("a"), B("x"), B("From"), B("l")],
    hdrv=[SP, CR, LF, B("a:"), B("l:"), B("CSeq:"), B("i:"), B("Expires:"), B("1"), B("ACK"), B("x")],
    hdrna=[SP, CR, LF, B("f:"), B("t:"), B("m:"), B("P-Asserted-Identity:"), B("<sip:a>"), B(","), B(";"), B("tag=1"), B("x")],
    nameaddr=[SP, CR, LF, B("a"), B("<"), B(">"), B("\""), B("\\"), B(";"), B("="), B(","), B("*"), B("tag"), B("expires"), B("q"), B("lr"), B("1"), B(".")],
    contacts=[SP, CR, LF, B("<sip:a>"), B("a"), B(","), B(";"), B("expires=7"), B("\""), B("*")],
    tokparam=[SP, HT, CR, LF, B("a"), B("="), B(";"), B("&"), B(","), B("?"), B("\""), B("\\"), B("@"), [200]],
    tokparam_deep=[SP, CR, B("a"), B("="), B(";"), B("&"), B("\"")],
    nameaddr_deep=[SP, CR, B("a"), B("<b>"), B(";"), B("="), B("\""), B(",")],
    quoted=[SP, CR, LF, B("a"), B("\""), B("\\"), [127], [1], [200]],
)
F_TOK = [0, 1, 2, 4, 8, 9, 12, 16, 32, 64, 72, 128, 136]

def cfgs_sub(start=(0,)):
    """(name, atoms key, list of cfgs, quick N, thorough N) for every exported incremental sub-parser (C02 family)"""
    fam = []
    def k(kind, **kw):
        d = dict(kind=kind, start=0, flags=0, hcap=-1, ccap=-1, pcap=-1); d.update(kw); return d
    def st(cs): return [dict(c, start=s) for c in cs for s in start]
    fam.append(("scalar", "num", st([k("uint"), k("clen"), k("expires"), k("callid")]), 6, 8))
    fam.append(("cseq", "cseq", st([k("cseq")]), 6, 8))
    fam.append(("fline", "fline", st([k("fline")]), 4, 6))
    fam.append(("fline_long", "fline_long", st([k("fline")]), 4, 6))
    fam.append(("hdrline", "hdr", st([k("hdrline"), k("hdrlineb", ccap=1), k("headers", hcap=1), k("headersb", hcap=2, ccap=1)]), 5, 7))
    fam.append(("hdrvals", "hdrv", st([k("hdrlineb", ccap=1), k("headersb", hcap=0, ccap=0), k("headersb", hcap=3, ccap=2)]), 4, 6))
    fam.append(("hdrnameaddr", "hdrna", st([k("hdrlineb", ccap=1), k("headersb", hcap=0, ccap=0), k("headersb", hcap=3, ccap=2)]), 4, 5))
    fam.append(("nameaddr", "nameaddr", st([k("nameaddr", flags=h) for h in (1, 8, 13)] + [k("onepai")]), 4, 5))
    fam.append(("nameaddr_deep", "nameaddr_deep", st([k("nameaddr", flags=h) for h in (2, 8)]), 6, 8))
    fam.append(("contacts", "contacts", st([k("contacts", ccap=c) for c in (0, 1, 2)] + [k("pais")]), 5, 6))
    fam.append(("tokparam", "tokparam", st([k("tokparam", flags=f) for f in F_TOK]), 4, 5))
    fam.append(("tokparam_deep", "tokparam_deep", st([k("tokparam", flags=f) for f in F_TOK]), 6, 8))
    fam.append(("urilists", "tokparam", st([k("uriparams", flags=f, pcap=p) for f in (64, 72) for p in (0, 1, 2)] +
                                           [k("urihdrs", flags=f, pcap=p) for f in (128, 136) for p in (0, 1, 2)]), 4, 5))
    fam.append(("urilists_deep", "tokparam_deep", st([k("uriparams", flags=f, pcap=p) for f in (64, 72) for p in (0, 1, 2)] +
                                           [k("urihdrs", flags=f, pcap=p) for f in (128, 136) for p in (0, 1, 2)]), 6, 8))
    fam.append(("skipquoted", "quoted", st([k("skipquoted")]), 6, 7))
    return fam

SHIFTS_Q = [1, 2, 7, 255, 256, 65000]
SHIFTS_T = [1, 2, 3, 7, 8, 255, 256, 257, 4095, 4096, 32767, 32768, 65000, 65400]

def explore_sub(ctx, props, start=(0,), shifts=None, fams=None):
    for name, ak, cfgs, nq, nt in cfgs_sub(start):
        if fams and name not in fams: continue
        job = dict(mode="explore", props=props, cfgs=cfgs, atoms=ATOMS[ak], maxlen=(nq if ctx.quick else nt),
                   shifts=shifts or [])
        ctx.explore(job, name)

def mc_cfg(consts, invariants, extra=""):
    return ("SPECIFICATION Spec\nVIEW view\nCONSTANTS\n" + "\n".join("  " + c for c in consts) +
            "\nINVARIANTS " + " ".join(invariants) + "\nCHECK_DEADLOCK FALSE\n" + extra)

def scalar_models(ctx, kinds=("uint", "clen", "callid", "cseq"), inv=("ResumeEqFresh", "Stable", "OffsSane")):
    n = 5 if ctx.quick else 7
    for k in kinds:
        atoms = "AtomsCSeq" if k == "cseq" else "AtomsNumHT"
        cfg = mc_cfg(["OffsMod = 65536", 'Kind = "%s"' % k, "Atoms <- " + atoms, "MaxLen = %d" % (n + (1 if k == "cseq" else 0)),
                      "Cfgs <- Cfgs03", "Junk = 34", "EmitOn = TRUE"], list(inv) + ["Emit"])
        ctx.tlc("MC_Scalar", ("MC_Scalar_%s_run.cfg" % k, cfg), workers=8)

# ------------------------------------------------------------------------------------------------
def plan_C02(ctx):
    ctx.extra["rule"] = ("TLC: every Send/Call interleaving of Stream per parser kind over all atom strings <= MaxLen "
                         "(ResumeEqFresh checked on the model, one oracle record per distinct state replayed on the code). "
                         "Code: every atom string <= N per family x configuration; fresh parse of every prefix; every "
                         "(suspended prefix p -> longer prefix q) pair resumed and compared with the fresh parse of q "
                         "(verdict, offset; values when definitive, full object state when suspended => all 2^(n-1) "
                         "schedules by induction).  non-trivial = input with >= 1 suspension and a definitive verdict.")
    scalar_models(ctx)
    explore_sub(ctx, ["C02"], start=(0, 3))
    ctx.need("inputs with a suspension and a definitive verdict", ctx.nontrivial, 1000)

def plan_C03(ctx):
    ctx.extra["rule"] = ("TLC: invariant Stable on Stream (each wire against its parent, prefix-closed). Code: every atom string "
                         "<= N: every definitive fresh result on a prefix equals the fresh result on the next longer prefix "
                         "(transitively every extension inside the enumeration, which is prefix closed over the atom set "
                         "incl. SP HT CR LF digits quotes). Exempt: input-end / no-more-data configurations, body extent "
                         "of a message without Content-Length.")
    scalar_models(ctx)
    explore_sub(ctx, ["C03"], start=(0,))
    ctx.need("inputs with a suspension and a definitive verdict", ctx.nontrivial, 1000)

def plan_C04(ctx):
    ctx.extra["rule"] = ("TLC: invariant OffsSane (no PANIC verdict, offset in range and not before the passed offset unless error). "
                         "Code: every real call made by the explorations (fresh, resumed, shifted) runs under recover + watchdog; "
                         "offsets checked; every exported PField dereferenced against the visible buffer (exact capacity).")
    scalar_models(ctx)
    explore_sub(ctx, ["C04"], start=(0, 3), shifts=[1, 65000])
    ctx.need("real calls", ctx.evaluations, 100000)

def plan_C11(ctx):
    ctx.extra["rule"] = ("Code: every atom string <= N per family, parsed at offset 0 and at offset k (junk bytes before it) for "
                         "k in the shift set: same verdict, offset and every positional field shifted by exactly k, everything "
                         "else equal (one-shot and resumed through the first suspension).")
    scalar_models(ctx, kinds=("uint",))
    explore_sub(ctx, ["C11"], start=(0,), shifts=SHIFTS_Q if ctx.quick else SHIFTS_T)
    ctx.need("shifted parses", sum(e["stats"].get("Shifts", 0) for e in ctx.extra.get("explorations", [])), 10000)

PLANS = dict(C02=plan_C02, C03=plan_C03, C04=plan_C04, C11=plan_C11)
