"""Shared plumbing for bin/check and bin/drift: build the Go harness from /repo's working tree,
run TLC in a scratch copy of spec/, run harness jobs."""
import os, subprocess, shutil, json, tempfile, re, time, sys
V = os.path.dirname(os.path.dirname(os.path.abspath(__file__)))
WORK = os.path.join(V, ".work")
# VERIF_REPO: evaluate the checks against another checkout (seeded-mutant campaigns run in scratch worktrees, in
# parallel, without touching /repo).  Default and registered use: /repo itself.
REPO = os.environ.get("VERIF_REPO", "/repo")
ALT = os.path.abspath(REPO) != "/repo"
import hashlib
BIN = os.path.join(WORK, "bin", "sipspv" + ("-" + hashlib.md5(REPO.encode()).hexdigest()[:8] if ALT else ""))
ENV = dict(os.environ, GOFLAGS="-mod=mod", GOPROXY="off", GOSUMDB="off", GOTOOLCHAIN="local",
           GOCACHE=os.environ.get("GOCACHE", os.path.join(WORK, "gocache")))
JAVA_CP = "/opt/veriftools/tla/tla2tools.jar:/opt/veriftools/tla/CommunityModules-deps.jar"

class Machinery(Exception):
    pass

_created = []

def build_harness():
    os.makedirs(os.path.dirname(BIN), exist_ok=True)
    h = os.path.join(V, "harness")
    if ALT:
        h2 = os.path.join(WORK, "harness-%s-%d" % (os.path.basename(BIN), os.getpid()))   # per process: checks may run side by side
        shutil.rmtree(h2, ignore_errors=True); shutil.copytree(h, h2); _created.append(h2)
        gm = open(os.path.join(h2, "go.mod")).read().replace("=> /repo", "=> " + os.path.abspath(REPO))
        open(os.path.join(h2, "go.mod"), "w").write(gm)
        h = h2
    shutil.copy(os.path.join(REPO, "go.sum"), os.path.join(h, "go.sum"))
    tmp = BIN + ".%d" % os.getpid()
    p = subprocess.run(["go", "build", "-tags", "verif", "-o", tmp, "."], cwd=h, env=ENV,
                       stdout=subprocess.PIPE, stderr=subprocess.STDOUT, text=True)
    if p.returncode != 0:
        raise Machinery("harness does not build against /repo's working tree:\n" + p.stdout)
    os.replace(tmp, BIN)       # atomic: concurrent checks never see a half-written binary
    return BIN

def _cleanup():
    for d in _created: shutil.rmtree(d, ignore_errors=True)
import atexit
atexit.register(_cleanup)

def scratch(prefix):
    """per-run scratch directory under .work; whatever is left of it is removed when the process exits"""
    prefix = re.sub(r"[^A-Za-z0-9_.-]+", "_", prefix)[:40]
    os.makedirs(WORK, exist_ok=True)
    d = tempfile.mkdtemp(prefix=prefix + "-", dir=WORK)
    _created.append(d)
    return d

def run_tlc(mod, cfg, workers=8, coverage=False, timeout=1800, simulate=None, depth=None, seed=None,
            extra_files=None, xss="512m", deadlock=False):
    """Run TLC on spec/<mod>.tla with config spec/<cfg> (or an absolute cfg path) in a scratch copy."""
    d = scratch("tlc-" + mod)
    for f in os.listdir(os.path.join(V, "spec")):
        if f.endswith(".tla") or f.endswith(".cfg"):
            shutil.copy(os.path.join(V, "spec", f), d)
    for src, name in (extra_files or []):
        shutil.copy(src, os.path.join(d, name))
    if isinstance(cfg, tuple):          # (name, text): a configuration generated for this run
        cfgp = os.path.join(d, cfg[0])
        with open(cfgp, "w") as f: f.write(cfg[1])
    else:
        cfgp = os.path.join(d, cfg)
    out = os.path.join(d, "tlc.out")
    cmd = ["timeout", str(timeout), "java", "-Xss" + xss, "-XX:+UseParallelGC", "-cp", JAVA_CP, "tlc2.TLC",
           "-workers", str(workers), "-metadir", os.path.join(d, "md"), "-config", cfgp]
    if coverage: cmd += ["-coverage", "1"]
    if simulate: cmd += ["-simulate", simulate]
    if depth: cmd += ["-depth", str(depth)]
    if seed is not None: cmd += ["-seed", str(seed)]
    cmd += [mod + ".tla"]
    t0 = time.time()
    with open(out, "w") as f:
        p = subprocess.run(cmd, cwd=d, stdout=f, stderr=subprocess.STDOUT)
    wall = time.time() - t0
    gen = dist = 0; ok = False; tail = []; cov0 = []
    with open(out, errors="replace") as f:
        for line in f:
            if line.startswith('"'): continue
            tail.append(line.rstrip("\n"))
            if len(tail) > 60: tail.pop(0)
            m = re.match(r"(\d+) states generated, (\d+) distinct states found", line)
            if m: gen, dist = int(m.group(1)), int(m.group(2))
            if "Model checking completed. No error has been found" in line: ok = True
            if coverage and re.search(r": 0$", line): cov0.append(line.rstrip())
    if simulate and p.returncode in (0, 124) and not any("Error" in t for t in tail): ok = True
    return dict(ok=ok and p.returncode == 0 if not simulate else ok, rc=p.returncode, generated=gen, distinct=dist,
                wall=wall, out=out, dir=d, tail="\n".join(tail[-40:]), coverage_zero=cov0)

def run_job(job, name="job"):
    """Run one harness job (dict); returns the parsed result. rc 3 = watchdog (hang)."""
    d = scratch("job-" + name)
    jp = os.path.join(d, "job.json"); op = os.path.join(d, "out.json")
    job = dict(job, out=op)
    with open(jp, "w") as f: json.dump(job, f)
    p = subprocess.run([BIN, jp], stdout=subprocess.PIPE, stderr=subprocess.STDOUT, text=True)
    if p.returncode == 3:
        shutil.rmtree(d, ignore_errors=True)
        return dict(hang=p.stdout.strip(), stats={}, violations=[], samples=[], wall_s=0, extra={})
    if p.returncode != 0:
        raise Machinery("harness job failed (rc=%d): %s" % (p.returncode, p.stdout[-2000:]))
    with open(op) as f: r = json.load(f)
    shutil.rmtree(d, ignore_errors=True)
    return r

def replay(tlc_out, drift_out=None, max_viol=2000):
    return run_job(dict(mode="replay", inputs_file=tlc_out, max_viol=max_viol, extra=dict(drift_out=drift_out or "")), "replay")
