package main

// concurrent (C04, isolation): independent parse / compare / signature / lookup calls on distinct objects and
// buffers are first executed one after another (reference results), then all at once from many goroutines,
// repeatedly; every concurrent result must equal its reference.  (What a TLA+ spec cannot decide -- data races
// under the Go memory model -- is only observed here, also with the race detector when built with -race.)

import (
	"fmt"
	"sync"
)

func init() { modes["concurrent"] = runConcurrent }

type cop struct {
	name string
	run  func() string
}

func runConcurrent(job *Job) Result {
	msgs := loadInputs(job.InputsFile)
	if len(msgs) > 400 {
		msgs = msgs[:400]
	}
	uris := []string{"sip:alice:pw@example.com:5060;transport=tcp;user=phone?subject=x&to=y", "sips:bob@h.x;maddr=1.2.3.4;ttl=3", "sip:h.x;lr",
		"SIP:Alice@EXAMPLE.com;Transport=TCP", "sip:alice@example.com;method=INVITE;foo=bar?a=b", "tel:+1-555;phone-context=x", "sip:[::1]:5061;x=y"}
	var ops []cop
	for i := range msgs {
		m := msgs[i]
		c := job.Cfgs[i%len(job.Cfgs)]
		ops = append(ops, cop{"ParseSIPMsg", func() string {
			x := NewObj(c)
			o, v := Call(x, m, 0)
			return fmt.Sprint(o, v, Obs(x, m, 0))
		}})
		ops = append(ops, cop{"GetMsgSig", func() string {
			return callFn("GetMsgSig", []byte(fmt.Sprintf(`{"s":%s,"hcap":-1,"ccap":-1,"flags":0}`, intsStr(m))))
		}})
	}
	for i := 0; i < 300; i++ {
		a, b := uris[i%len(uris)], uris[(i*3+1)%len(uris)]
		f := i % 64
		ops = append(ops, cop{"URICmp", func() string {
			return callFn("URICmp", []byte(fmt.Sprintf(`{"s":%s,"s2":%s,"flags":%d}`, intsStr([]byte(a)), intsStr([]byte(b)), f)))
		}})
		ops = append(ops, cop{"URIParamsEq", func() string {
			p1, p2 := "a=1;transport=tcp;lr;x"+fmt.Sprint(i), "lr;A=1;Transport=TCP;x"+fmt.Sprint(i)
			return callFn("URIParamsEq", []byte(fmt.Sprintf(`{"s":%s,"s2":%s}`, intsStr([]byte(p1)), intsStr([]byte(p2)))))
		}})
		ops = append(ops, cop{"ContainsIP4", func() string {
			t := fmt.Sprintf("abc-10.%d.2.3-x", i%256)
			return callFn("ContainsIP4", []byte(fmt.Sprintf(`{"s":%s,"dst":4}`, intsStr([]byte(t)))))
		}})
		hn := []string{"From", "v", "Call-ID", "X-Foo", "content-length"}[i%5]
		ops = append(ops, cop{"GetHdrType", func() string {
			return callFn("GetHdrType", []byte(fmt.Sprintf(`{"s":%s}`, intsStr([]byte(hn)))))
		}})
	}
	ref := make([]string, len(ops))
	for i, op := range ops {
		ref[i] = op.run()
	}
	var res Result
	res.Stats.Inputs = int64(len(ops))
	var mu sync.Mutex
	rounds := 6
	for r := 0; r < rounds; r++ {
		var wg sync.WaitGroup
		W := 16
		for w := 0; w < W; w++ {
			wg.Add(1)
			go func(w int) {
				defer wg.Done()
				for k := 0; k < len(ops); k++ {
					i := (k*7 + w*131 + r) % len(ops)
					got := ops[i].run()
					if got != ref[i] {
						mu.Lock()
						if len(res.Violations) < 20 {
							res.Violations = append(res.Violations, Violation{Prop: "C04", What: "result of a call differs when other independent calls run concurrently",
								Text: ops[i].name, Sig: "concurrent:" + ops[i].name, Detail: "concurrent: " + trunc(got, 300) + "\nalone:      " + trunc(ref[i], 300)})
						}
						mu.Unlock()
					}
				}
			}(w)
		}
		wg.Wait()
		res.Stats.Calls += int64(W * len(ops))
	}
	res.Samples = []string{fmt.Sprintf("%d independent operations x 16 goroutines x %d rounds", len(ops), rounds)}
	return res
}

func trunc(s string, n int) string {
	if len(s) > n {
		return s[:n]
	}
	return s
}
func intsStr(b []byte) string {
	s := "["
	for i, c := range b {
		if i > 0 {
			s += ","
		}
		s += fmt.Sprint(int(c))
	}
	return s + "]"
}
