package main

// Relational exploration engine (DESIGN §5.3): for one (configuration, input) it executes the
// REAL parser on every prefix, on every (suspended prefix -> longer prefix) pair, and on shifted
// copies, and compares real observations with real observations.  The formulas compared are the
// ones stated in spec/Stream.tla (ResumeEqFresh, Stable, OffsSane) and spec/Props.tla (ShiftInvariant).

import (
	"fmt"
	"strings"
)

type fresh struct {
	offs    int
	verdict string
	obs     string // π when definitive
	fp      string // full state when suspended
}

type Violation struct {
	Prop   string `json:"property"`
	What   string `json:"what"`
	Cfg    Cfg    `json:"cfg"`
	Input  []int  `json:"input"`
	Text   string `json:"text"`
	Cuts   []int  `json:"cuts,omitempty"`
	Detail string `json:"detail"`
	Sig    string `json:"sig"` // signature used to match known findings
}

type Stats struct {
	Inputs, Calls, Pairs, Suspensions, Definitive, Successes int64
	NonTrivial                                                int64 // inputs with >=1 suspension and a definitive verdict
	Fallbacks                                                 int64 // pair induction unavailable -> explicit schedules
	Verdicts                                                  map[string]int64
	Shifts                                                    int64
}

func (s *Stats) add(t *Stats) {
	s.Inputs += t.Inputs
	s.Calls += t.Calls
	s.Pairs += t.Pairs
	s.Suspensions += t.Suspensions
	s.Definitive += t.Definitive
	s.Successes += t.Successes
	s.NonTrivial += t.NonTrivial
	s.Fallbacks += t.Fallbacks
	s.Shifts += t.Shifts
	if s.Verdicts == nil {
		s.Verdicts = map[string]int64{}
	}
	for k, v := range t.Verdicts {
		s.Verdicts[k] += v
	}
}

func toInts(b []byte) []int {
	r := make([]int, len(b))
	for i, c := range b {
		r[i] = int(c)
	}
	return r
}

func isErrVerdict(v string) bool {
	switch v {
	case "ok", "more", "eoh", "empty", "morevalues":
		return false
	}
	return true
}

// endOfInputMode: configurations exempt from C03 (documented end-of-input modes)
func endOfInputMode(c Cfg) bool {
	switch c.Kind {
	case "msg":
		return c.Flags&4 != 0 // SIPMsgNoMoreDataF
	case "tokparam", "uriparams", "urihdrs":
		return c.Flags&8 != 0 // POptInputEndF
	}
	return false
}

type Explorer struct {
	Props      map[string]bool
	Shifts     []int
	JunkBytes  []byte
	ExtAtoms   [][]byte // single-atom extensions for the Stable check of generated inputs
	MaxViol    int
	viol       []Violation
	st         Stats
	curCase    string
	shiftBuf   map[int][]byte
	Light      bool  // not all pairs: q in {p+1, n} and a seeded sample (explicit in the evidence)
	Seed       int64
	base       int // start offset of the reference run (observations are shifted by c.Start-base)
}

func (e *Explorer) report(prop, what string, c Cfg, in []byte, cuts []int, sig, detail string) {
	if !e.Props[prop] {
		return
	}
	if len(e.viol) >= e.MaxViol {
		return
	}
	e.viol = append(e.viol, Violation{Prop: prop, What: what, Cfg: c, Input: toInts(in), Text: fmt.Sprintf("%q", in),
		Cuts: cuts, Detail: detail, Sig: sig})
}

// pick: seeded pseudo-random choice of about 3 extra q per p in light mode
func (e *Explorer) pick(p, q, n int) bool {
	h := uint64(p)*0x9E3779B97F4A7C15 ^ uint64(q)*0xC2B2AE3D27D4EB4F ^ uint64(e.Seed)*0x165667B19E3779F9
	h ^= h >> 29
	h *= 0xBF58476D1CE4E5B9
	h ^= h >> 32
	return h%uint64(n-p+1) < 3
}

// exact-capacity copy so that any access past the visible prefix is a real out-of-range
func prefixOf(buf []byte, p int) []byte { return buf[:p:p] }

// sane checks the C04 clauses on one real call and returns π of the object after it.
func (e *Explorer) sane(c Cfg, buf []byte, in int, out int, verdict string, x Obj, cuts []int, whole []byte) string {
	if verdict == "PANIC" {
		e.report("C04", "panic", c, whole, cuts, "panic:"+c.Kind, "call panicked: "+lastPanic)
		return ""
	}
	if out < 0 || out > len(buf) {
		e.report("C04", "offset outside buffer", c, whole, cuts, "offs-range:"+c.Kind,
			fmt.Sprintf("returned offset %d, buffer length %d", out, len(buf)))
	} else if !isErrVerdict(verdict) && out < in {
		e.report("C04", "offset before the offset passed in", c, whole, cuts, "offs-back:"+c.Kind,
			fmt.Sprintf("passed %d, returned %d with verdict %s", in, out, verdict))
	}
	if !e.Props["C04"] && verdict == "more" {
		return ""
	}
	obs, bad := ObsChk(x, buf, c.Start-e.base, e.Props["C04"])
	if bad != "" {
		e.report("C04", "reported field not dereferenceable", c, whole, cuts, "deref:"+c.Kind,
			fmt.Sprintf("after verdict %s (buffer length %d): %s", verdict, len(buf), bad))
	}
	return obs
}

// Input checks C01/C02 (resume == fresh), C03 (stable), C04 (sane), C11 (shift) on one input.
// text is the input WITHOUT the junk prefix; c.Start junk bytes are put in front.
func (e *Explorer) Input(c Cfg, text []byte) {
	propRes := "C02"
	if c.Kind == "msg" {
		propRes = "C01"
	}
	buf := make([]byte, 0, c.Start+len(text))
	for i := 0; i < c.Start; i++ {
		buf = append(buf, e.JunkBytes[i%len(e.JunkBytes)])
	}
	buf = append(buf, text...)
	n := len(buf)
	e.st.Inputs++
	F := make([]fresh, n+1)
	susp, defi := false, false
	for p := c.Start + 1; p <= n; p++ {
		x := NewObj(c)
		b := prefixOf(buf, p)
		o, v := Call(x, b, c.Start)
		e.st.Calls++
		e.base = c.Start
		obs := e.sane(c, b, c.Start, o, v, x, []int{p}, buf)
		F[p] = fresh{offs: o, verdict: v}
		if v == "more" {
			F[p].fp = Fingerprint(x)
			susp = true
			e.st.Suspensions++
		} else {
			F[p].obs = obs
			defi = true
			e.st.Definitive++
			if !isErrVerdict(v) {
				e.st.Successes++
			}
		}
		if p == n {
			if e.st.Verdicts == nil {
				e.st.Verdicts = map[string]int64{}
			}
			e.st.Verdicts[v]++
		}
	}
	if susp && defi {
		e.st.NonTrivial++
	}
	// ---- C03: definitive results never change when more bytes arrive (adjacent prefixes: transitive)
	if e.Props["C03"] && !endOfInputMode(c) {
		for p := c.Start + 1; p < n; p++ {
			if F[p].verdict == "more" || F[p].verdict == "PANIC" {
				continue
			}
			q := p + 1
			if !e.sameDefinitive(c, F[p], F[q]) {
				e.report("C03", "definitive verdict changed when more bytes arrived", c, buf, []int{p, q},
					"premature:"+c.Kind,
					fmt.Sprintf("prefix %d: (%s,%d) %s\nprefix %d: (%s,%d) %s", p, F[p].verdict, F[p].offs, F[p].obs,
						q, F[q].verdict, F[q].offs, F[q].obs))
				break
			}
		}
	}
	// ---- C01/C02: all suspended p, all q > p (pair induction; explicit schedules if state differs)
	if e.Props[propRes] || e.Props["C04"] {
		for p := c.Start + 1; p < n; p++ {
			if F[p].verdict != "more" {
				continue
			}
			for q := p + 1; q <= n; q++ {
				if e.Light && q != p+1 && q != n && !e.pick(p, q, n) {
					continue
				}
				x := NewObj(c)
				o1, v1 := Call(x, prefixOf(buf, p), c.Start)
				if v1 != "more" || o1 != F[p].offs {
					e.report(propRes, "parser is not deterministic", c, buf, []int{p}, "nondet:"+c.Kind,
						fmt.Sprintf("second fresh parse of prefix %d gave (%s,%d), first (%s,%d)", p, v1, o1, F[p].verdict, F[p].offs))
					break
				}
				b := prefixOf(buf, q)
				o2, v2 := Call(x, b, o1)
				e.st.Calls += 2
				e.st.Pairs++
				ob2 := e.sane(c, b, o1, o2, v2, x, []int{p, q}, buf)
				if e.Props["X-again"] && v2 == "more" && o2 < o1 {
					// beyond the listed properties (Stream!MonotoneCont): the continuation offset never moves backwards
					e.report("X-again", "the continuation offset moves backwards while more bytes are asked for", c, buf, []int{p, q}, "backwards:"+c.Kind,
						fmt.Sprintf("after %d bytes: %d, after %d bytes: %d", p, o1, q, o2))
				}
				if v2 != F[q].verdict || o2 != F[q].offs {
					e.report(propRes, "resumed call differs from fresh one-shot call (verdict/offset)", c, buf, []int{p, q},
						"resume-vo:"+c.Kind,
						fmt.Sprintf("resumed %d->%d: (%s,%d); fresh on %d bytes: (%s,%d)", p, q, v2, o2, q, F[q].verdict, F[q].offs))
					continue
				}
				if v2 == "PANIC" {
					continue
				}
				if v2 != "more" {
					if ob2 != F[q].obs {
						e.report(propRes, "resumed result differs from fresh one-shot result (values)", c, buf, []int{p, q},
							"resume-obs:"+c.Kind,
							fmt.Sprintf("verdict %s offs %d\nresumed %d->%d: %s\nfresh:   %s", v2, o2, p, q, ob2, F[q].obs))
					}
				} else if Fingerprint(x) != F[q].fp {
					// same verdict/offset but different suspended state: legal, but the induction of §5.3 is
					// not available through this point -> enumerate schedules through (p,q) explicitly
					e.st.Fallbacks++
					e.explicit(propRes, c, buf, p, q, F)
				}
			}
		}
	}
	// ---- beyond the listed properties (their schedules are strictly increasing): a call repeated on the SAME
	// prefix -- a spurious wake-up -- changes nothing: same verdict, same offset, same suspended state.  With it
	// the pair induction extends to schedules c1 <= c2 <= ... <= ck.  Reported as property "X-again".
	if e.Props["X-again"] {
		for p := c.Start + 1; p <= n; p++ {
			if F[p].verdict != "more" {
				continue
			}
			x := NewObj(c)
			b := prefixOf(buf, p)
			o1, _ := Call(x, b, c.Start)
			o2, v2 := Call(x, b, o1)
			e.st.Calls += 2
			e.st.Pairs++
			if v2 != "more" || o2 != F[p].offs {
				e.report("X-again", "a call repeated on the same prefix changes verdict or offset", c, buf, []int{p, p}, "again-vo:"+c.Kind,
					fmt.Sprintf("first call on %d bytes: (more,%d); repeated: (%s,%d)", p, o1, v2, o2))
			} else if Fingerprint(x) != F[p].fp {
				e.report("X-again", "a call repeated on the same prefix changes the suspended state", c, buf, []int{p, p}, "again-state:"+c.Kind, "")
			}
		}
	}
	// ---- C11: invariance under the start offset
	if e.Props["C11"] && c.Start == 0 {
		for _, k := range e.Shifts {
			e.shifted(c, text, F, k)
		}
	}
}

// compare two definitive fresh results for C03; the body extent of a message without
// Content-Length (neither skip-body nor CLen-required) is exempt
func (e *Explorer) sameDefinitive(c Cfg, a, b fresh) bool {
	if a.verdict == b.verdict && a.offs == b.offs && a.obs == b.obs {
		return true
	}
	if c.Kind == "msg" && c.Flags&3 == 0 && a.verdict == "ok" && b.verdict == "ok" &&
		strings.Contains(a.obs, `"CLen":{"UIVal":[0,0],"SVal":[0,0],"Empty":true`) {
		return maskBody(a.obs) == maskBody(b.obs)
	}
	return false
}

// maskBody blanks the Body and RawMsg extents in a message observation
func maskBody(s string) string {
	i := strings.LastIndex(s, `"Body":`)
	j := strings.LastIndex(s, `"Parsed":`)
	if i < 0 || j < i {
		return s
	}
	return s[:i] + s[j:]
}

// explicit: all schedules that start with cuts p,q and continue with every subset of later cuts
// (bounded), compared with the fresh results.
func (e *Explorer) explicit(prop string, c Cfg, buf []byte, p, q int, F []fresh) {
	n := len(buf)
	rest := n - q
	limit := 1 << uint(rest)
	if rest > 10 {
		limit = 1 << 10
	}
	for m := 0; m < limit; m++ {
		cuts := []int{p, q}
		for i := 0; i < rest && i < 10; i++ {
			if m&(1<<uint(i)) != 0 {
				cuts = append(cuts, q+1+i)
			}
		}
		if rest > 10 && cuts[len(cuts)-1] != n {
			cuts = append(cuts, n)
		}
		x := NewObj(c)
		offs := c.Start
		for _, cut := range cuts {
			b := prefixOf(buf, cut)
			o, v := Call(x, b, offs)
			e.st.Calls++
			if v != F[cut].verdict || o != F[cut].offs || (v != "more" && v != "PANIC" && Obs(x, b, 0) != F[cut].obs) {
				e.report(prop, "resumed call differs from fresh one-shot call (explicit schedule)", c, buf, cuts,
					"resume-sched:"+c.Kind, fmt.Sprintf("at cut %d: (%s,%d) vs fresh (%s,%d)", cut, v, o, F[cut].verdict, F[cut].offs))
				return
			}
			if v != "more" {
				break
			}
			offs = o
		}
	}
}

func (e *Explorer) shifted(c Cfg, text []byte, F []fresh, k int) {
	if k < 0 { // -1: the text ends exactly at the 65 535 limit, -2: one byte before it, ...
		k = 65535 + 1 + k - len(text)
		if k <= 0 {
			return
		}
	}
	if k+len(text) > 65535 {
		return
	}
	if e.shiftBuf == nil {
		e.shiftBuf = map[int][]byte{}
	}
	sb := e.shiftBuf[k]
	if len(sb) < k+len(text) {
		sb = make([]byte, k+len(text)+256)
		for i := 0; i < k; i++ {
			sb[i] = e.JunkBytes[(i+k)%len(e.JunkBytes)]
		}
		e.shiftBuf[k] = sb
	}
	copy(sb[k:], text)
	buf := sb[: k+len(text) : k+len(text)]
	c2 := c
	c2.Start = k
	// full text one-shot, and one resumed schedule through the first suspension (if any)
	n := len(text)
	x := NewObj(c2)
	o, v := Call(x, buf, k)
	e.st.Calls++
	e.st.Shifts++
	e.base = 0
	got := e.sane(c2, buf, k, o, v, x, []int{len(buf)}, buf)
	want := F[n]
	if v == "more" {
		got = ""
	}
	if v != want.verdict || (v != "PANIC" && o-k != want.offs) || (v != "more" && got != want.obs) {
		e.report("C11", "result depends on the start offset", c2, text, []int{k}, "shift:"+c.Kind,
			fmt.Sprintf("at offset %d: (%s,%d) %s\nat offset 0: (%s,%d) %s", k, v, o-k, got, want.verdict, want.offs, want.obs))
	}
	for p := 1; p < n; p++ {
		if F[p].verdict != "more" {
			continue
		}
		y := NewObj(c2)
		o1, v1 := Call(y, prefixOf(buf, k+p), k)
		if v1 != "more" || o1-k != F[p].offs {
			e.report("C11", "result depends on the start offset (suspension)", c2, text, []int{k, p}, "shift-susp:"+c.Kind,
				fmt.Sprintf("at offset %d prefix %d: (%s,%d); at offset 0: (%s,%d)", k, p, v1, o1-k, F[p].verdict, F[p].offs))
			break
		}
		o2, v2 := Call(y, buf, o1)
		e.st.Calls += 2
		got2 := ""
		if v2 != "more" && v2 != "PANIC" {
			got2 = Obs(y, buf, k)
		}
		if v2 != want.verdict || (v2 != "PANIC" && o2-k != want.offs) || (v2 != "more" && got2 != want.obs) {
			e.report("C11", "resumed result depends on the start offset", c2, text, []int{k, p}, "shift-resume:"+c.Kind,
				fmt.Sprintf("at offset %d resumed at %d: (%s,%d) %s\nat offset 0: (%s,%d) %s", k, p, v2, o2-k, got2, want.verdict, want.offs, want.obs))
		}
		break // one schedule through the first suspension point is enough here; all schedules are C01/C02's job
	}
}
