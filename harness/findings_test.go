package main

// Demonstrations of the genuine defects found on the pinned tree (DESIGN §8), stated as the
// behaviour the properties demand.  Each test failed on the pinned commit and passes after the
// corresponding "fix:" commit in /repo.  (go test -run Finding ./...)

import (
	"testing"

	"github.com/intuitivelabs/sipsp"
)

func noPanic(t *testing.T, name string, f func()) {
	defer func() {
		if r := recover(); r != nil {
			t.Errorf("%s panicked: %v", name, r)
		}
	}()
	f()
}

func TestFindingF1EmptyNameLookup(t *testing.T) {
	noPanic(t, "GetHdrType(empty)", func() {
		if ty := sipsp.GetHdrType([]byte{}); ty != sipsp.HdrOther {
			t.Errorf("GetHdrType(empty) = %v", ty)
		}
	})
	noPanic(t, "GetMethodNo(empty)", func() {
		if m := sipsp.GetMethodNo([]byte{}); m != sipsp.MOther {
			t.Errorf("GetMethodNo(empty) = %v", m)
		}
	})
}

func TestFindingF2CSeqWrap(t *testing.T) {
	for _, s := range []string{" 9999999999 INVITE\r\nX", " 5000000000 INVITE\r\nX", " 4294967296 INVITE\r\nX"} {
		var b sipsp.PCSeqBody
		_, e := sipsp.ParseCSeqVal([]byte(s), 0, &b)
		if e == 0 {
			t.Errorf("%q accepted with CSeqNo=%d", s, b.CSeqNo)
		}
	}
	var b sipsp.PCSeqBody
	if _, e := sipsp.ParseCSeqVal([]byte(" 4294967295 INVITE\r\nX"), 0, &b); e != 0 || b.CSeqNo != 4294967295 {
		t.Errorf("4294967295: %v %d", e, b.CSeqNo)
	}
}

func TestFindingF3ExpiresWrap(t *testing.T) {
	for _, s := range []string{" 9999999999\r\nX", " 4294967296\r\nX", " 8589934592\r\nX"} {
		var b sipsp.PUIntBody
		_, e := sipsp.ParseExpiresVal([]byte(s), 0, &b)
		if e == 0 {
			t.Errorf("%q accepted with UIVal=%d", s, b.UIVal)
		}
	}
	var b sipsp.PUIntBody
	if _, e := sipsp.ParseExpiresVal([]byte(" 4294967295\r\nX"), 0, &b); e != 0 || b.UIVal != 4294967295 {
		t.Errorf("4294967295: %v %d", e, b.UIVal)
	}
}

func contact(t *testing.T, s string) sipsp.PFromBody {
	var b sipsp.PFromBody
	_, e := sipsp.ParseOneContact([]byte(s), 0, &b)
	if e != 0 {
		t.Fatalf("%q: %v", s, e)
	}
	return b
}

func TestFindingF4ContactExpiresSaturates(t *testing.T) {
	for _, d := range []string{"18446744073709551617", "184467440737095516160", "4294967296", "99999999999999999999999"} {
		b := contact(t, "<sip:a@b>;expires="+d+"\r\nX")
		if b.Expires != 0xffffffff || !b.HasExpires {
			t.Errorf("expires=%s -> %d", d, b.Expires)
		}
	}
	b := contact(t, "<sip:a@b>;expires=0000000000000000000000005\r\nX")
	if b.Expires != 5 {
		t.Errorf("leading zeros -> %d", b.Expires)
	}
}

func TestFindingF5ContactQWrap(t *testing.T) {
	b := contact(t, "<sip:a@b>;q=18446744073709551617\r\nX")
	if b.Q != 0 || b.ParamErr == 0 {
		t.Errorf("q=2^64+1 -> Q=%d ParamErr=%v", b.Q, b.ParamErr)
	}
}

func TestFindingF6ValuelessLR(t *testing.T) {
	for _, s := range []string{"<sip:a@b>;lr\r\nX", "<sip:a@b>;lr;x=1\r\nX", "<sip:a@b>;x=1;lr\r\nX", "<sip:a@b>;LR \r\nX", "sip:a@b;lr\r\nX"} {
		if b := contact(t, s); !b.LR {
			t.Errorf("%q: LR not set", s)
		}
	}
	if b := contact(t, "<sip:a@b>;lrx\r\nX"); b.LR {
		t.Errorf("lrx sets LR")
	}
}

func TestFindingF7URIPortWrap(t *testing.T) {
	for _, s := range []string{"sip:a@b:18446744073709556676", "sip:b:18446744073709556676", "sip:a@b:18446744073709556676;p"} {
		var u sipsp.PsipURI
		if e, _ := sipsp.ParseURI([]byte(s), &u); e == 0 {
			t.Errorf("%q accepted, PortNo=%d", s, u.PortNo)
		}
	}
}

func TestFindingF8HdrValsResetPAIs(t *testing.T) {
	var pv sipsp.PHdrVals
	var h sipsp.Hdr
	buf := []byte("P-Asserted-Identity: <sip:a@b>\r\nX")
	if _, e := sipsp.ParseHdrLine(buf, 0, &h, &pv); e != 0 {
		t.Fatal(e)
	}
	pv.Reset()
	if pv.PAIs.N != 0 || pv.PAIs.HNo != 0 {
		t.Errorf("PAIs survive Reset: N=%d HNo=%d", pv.PAIs.N, pv.PAIs.HNo)
	}
}

func TestFindingF9SecondContactHdrVal(t *testing.T) {
	buf := []byte("Contact: <sip:a@b>\r\nX-Foo: bar\r\nContact: <sip:c@d>\r\n\r\n")
	var hl sipsp.HdrLst
	var pv sipsp.PHdrVals
	hl.Hdrs = make([]sipsp.Hdr, 5)
	pv.Init(make([]sipsp.PFromBody, 5))
	if _, e := sipsp.ParseHeaders(buf, 0, &hl, &pv); e != 0 {
		t.Fatal(e)
	}
	if got := string(hl.Hdrs[2].Val.Get(buf)); got != "<sip:c@d>" {
		t.Errorf("third header value = %q", got)
	}
	buf = []byte("P-Asserted-Identity: <sip:a@b>\r\nX-Foo: bar\r\nP-Asserted-Identity: <sip:c@d>\r\n\r\n")
	hl.Reset()
	pv.Reset()
	if _, e := sipsp.ParseHeaders(buf, 0, &hl, &pv); e != 0 {
		t.Fatal(e)
	}
	if got := string(hl.Hdrs[2].Val.Get(buf)); got != "<sip:c@d>" {
		t.Errorf("third header value (PAI) = %q", got)
	}
}

func TestFindingF11ResetKeepsElementInProgress(t *testing.T) {
	{
		var l sipsp.URIParamsLst
		l.Init(make([]sipsp.URIParam, 4))
		sipsp.ParseAllURIParams([]byte(`a=b;c="xy`), 0, &l, sipsp.POptTokURIParamF|sipsp.POptInputEndF)
		l.Reset()
		_, _, e := sipsp.ParseAllURIParams([]byte("p=1;q=2;r=3"), 0, &l, sipsp.POptTokURIParamF|sipsp.POptInputEndF)
		if l.N != 3 || (e != 0 && e != sipsp.ErrHdrEOH) {
			t.Errorf("URIParamsLst after Reset: N=%d err=%v", l.N, e)
		}
	}
	{
		var l sipsp.URIHdrsLst
		l.Init(make([]sipsp.URIHdr, 4))
		sipsp.ParseAllURIHdrs([]byte(`a=b&c="xy`), 0, &l, sipsp.POptTokURIHdrF|sipsp.POptInputEndF)
		l.Reset()
		_, _, e := sipsp.ParseAllURIHdrs([]byte("p=1&q=2&r=3"), 0, &l, sipsp.POptTokURIHdrF|sipsp.POptInputEndF)
		if l.N != 3 || (e != 0 && e != sipsp.ErrHdrEOH) {
			t.Errorf("URIHdrsLst after Reset: N=%d err=%v", l.N, e)
		}
	}
	noPanic(t, "contacts after reset", func() {
		var c sipsp.PContacts
		c.Init(make([]sipsp.PFromBody, 4))
		sipsp.ParseAllContactValues([]byte(`<sip:a@b>, "x" <sip:c@d>;q=0.`), 0, &c)
		c.Reset()
		_, e := sipsp.ParseAllContactValues([]byte("<sip:e@f>\r\nX"), 0, &c)
		if e != 0 || c.N != 1 {
			t.Errorf("PContacts after Reset: N=%d err=%v", c.N, e)
		}
	})
}

func TestFindingF12ToType(t *testing.T) {
	var pv sipsp.PHdrVals
	var h sipsp.Hdr
	buf := []byte("To: <sip:x@y>;tag=1\r\nX")
	if _, e := sipsp.ParseHdrLine(buf, 0, &h, &pv); e != 0 {
		t.Fatal(e)
	}
	if pv.To.Type != sipsp.HdrTo {
		t.Errorf("To.Type = %v", pv.To.Type)
	}
	// resumed
	pv.Reset()
	h.Reset()
	o, e := sipsp.ParseHdrLine(buf[:8], 0, &h, &pv)
	if e != sipsp.ErrHdrMoreBytes {
		t.Fatal(e)
	}
	if _, e = sipsp.ParseHdrLine(buf, o, &h, &pv); e != 0 || pv.To.Type != sipsp.HdrTo {
		t.Errorf("resumed To.Type = %v (%v)", pv.To.Type, e)
	}
}

func TestFindingF13URIParseCmpR2(t *testing.T) {
	var r1, r2 sipsp.PsipURI
	u1, u2 := []byte("sip:alice@example.com"), []byte("sip:bob@example.org:5080")
	sipsp.URIParseCmp(u1, u2, 0, &r1, &r2)
	var w sipsp.PsipURI
	sipsp.ParseURI(u2, &w)
	if r2 != w {
		t.Errorf("r2 = %+v, want %+v", r2, w)
	}
}

func TestFindingF15AdjustOffsShortSpan(t *testing.T) {
	for _, s := range []string{"sip:a@b", "sip:a@b:", "sip:a:b@c:5;p?h"} {
		for span := 0; span < len(s); span++ {
			var u sipsp.PsipURI
			if e, _ := sipsp.ParseURI([]byte(s), &u); e != 0 {
				t.Fatal(e)
			}
			before := u
			noPanic(t, "AdjustOffs", func() {
				if u.AdjustOffs(sipsp.PField{Offs: 10, Len: sipsp.OffsT(span)}) {
					t.Errorf("%q moved into a %d byte span", s, span)
				} else if u != before {
					t.Errorf("%q: refused but structure changed", s)
				}
			})
		}
		var u sipsp.PsipURI
		sipsp.ParseURI([]byte(s), &u)
		if !u.AdjustOffs(sipsp.PField{Offs: 10, Len: sipsp.OffsT(len(s))}) {
			t.Errorf("%q: exact span refused", s)
		}
	}
}

func TestFindingF16WSBeforeComma(t *testing.T) {
	for _, s := range []string{"<sip:a@b>;tag=abc , <sip:c@d>\r\nX", "<sip:a@b>;lr , <sip:c@d>\r\nX", "sip:a@b;q=0.5\r\n ,<sip:c@d>\r\nX", "<sip:a@b>;expires=\"1\" ,<sip:c@d>\r\nX"} {
		var c sipsp.PContacts
		c.Init(make([]sipsp.PFromBody, 4))
		_, e := sipsp.ParseAllContactValues([]byte(s), 0, &c)
		if e != 0 || c.N != 2 {
			t.Errorf("%q: err=%v N=%d", s, e, c.N)
		}
	}
}

func TestFindingF17StalePortAccumulator(t *testing.T) {
	for s, want := range map[string]uint16{"sip:[a]:1;a@a:1": 1, "sip:[::1]:5060;x@h:5070": 5070} {
		var u sipsp.PsipURI
		if e, _ := sipsp.ParseURI([]byte(s), &u); e != 0 || u.PortNo != want {
			t.Errorf("%q: err=%v PortNo=%d want %d", s, e, u.PortNo, want)
		}
	}
}
