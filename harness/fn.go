package main

// Pure (non-streaming) exported functions, callable from oracle records:
//   {"fn": name, "args": {...}, "res": {...}, "src": "auto"|"decl", "prop": "Cxx"}
// Each entry runs the REAL function and renders its complete result as canonical JSON.

import (
	"encoding/json"
	"fmt"

	"github.com/intuitivelabs/sipsp"
)

type fnArgs struct {
	S     []int `json:"s"`
	S2    []int `json:"s2"`
	Flags int   `json:"flags"`
	Offs  int   `json:"offs"`
	Len   int   `json:"len"`
	N     int   `json:"n"`
	HCap  int   `json:"hcap"`
	CCap  int   `json:"ccap"`
	Dst   int   `json:"dst"` // length of the dst slice handed to IP?Prefix / ContainsIP?
	Cut   int   `json:"cut"` // GetMsgSig: parse buf[:cut] first, then resume on the whole buffer (0 = one-shot)
}

var uriErrNames = map[sipsp.ErrorURI]string{
	sipsp.NoURIErr: "ok", sipsp.ErrURIBadChar: "badchar", sipsp.ErrURIScheme: "scheme", sipsp.ErrURIHost: "host",
	sipsp.ErrURIPort: "port", sipsp.ErrURIHeaders: "headers", sipsp.ErrURITooShort: "tooshort", sipsp.ErrURIBad: "bad",
	sipsp.ErrURIBug: "bug",
}

func uriErrName(e sipsp.ErrorURI) string {
	if s, ok := uriErrNames[e]; ok {
		return s
	}
	return fmt.Sprintf("urierr%d", e)
}

func pfJSON(o *ob, k string, f sipsp.PField) { o.pf(k, f) }

// callFn runs fn, converting a panic into {"panic":true}
func callFn(name string, raw json.RawMessage) (res string) {
	f, ok := fnTable[name]
	if !ok {
		return `{"unknown_fn":true}`
	}
	var a fnArgs
	a.HCap, a.CCap = -1, -1
	if err := json.Unmarshal(raw, &a); err != nil {
		return `{"bad_args":true}`
	}
	defer func() {
		if r := recover(); r != nil {
			lastPanic = fmt.Sprint(r)
			res = `{"panic":true}`
		}
	}()
	o := ob{b: make([]byte, 0, 256)}
	o.open('{')
	f(&a, &o)
	o.close('}')
	return string(o.b)
}

func intsJSON(o *ob, k string, b []byte) {
	o.key(k)
	o.b = append(o.b, '[')
	for i, c := range b {
		if i > 0 {
			o.b = append(o.b, ',')
		}
		o.b = append(o.b, fmt.Sprint(int(c))...)
	}
	o.b = append(o.b, ']')
}

var fnTable = map[string]func(a *fnArgs, o *ob){
	"GetHdrType": func(a *fnArgs, o *ob) { o.int("t", int(sipsp.GetHdrType(bytesOf(a.S)))) },
	"GetMethodNo": func(a *fnArgs, o *ob) {
		m := sipsp.GetMethodNo(bytesOf(a.S))
		o.int("m", int(m))
		intsJSON(o, "name", m.Name())
	},
	"MethodName": func(a *fnArgs, o *ob) {
		m := sipsp.SIPMethod(a.N)
		intsJSON(o, "name", m.Name())
		o.int("back", int(sipsp.GetMethodNo(m.Name())))
		o.str("str", m.String())
	},
	"HdrTString": func(a *fnArgs, o *ob) { o.str("str", sipsp.HdrT(a.N).String()) },
	"ParseURI": func(a *fnArgs, o *ob) {
		var u sipsp.PsipURI
		buf := bytesOf(a.S)
		e, n := sipsp.ParseURI(buf, &u)
		o.str("err", uriErrName(e))
		o.int("offs", n)
		o.key("uri")
		o.uri(&u)
		o.key("raw")
		uriRaw(o, &u)
		if e == 0 {
			o.pf("Short", u.Short())
			o.pf("Long", u.Long())
			intsJSON(o, "Flat", u.Flat(buf))
			t := u
			t.Truncate()
			o.key("Trunc")
			o.uri(&t)
		}
	},
	// ParseURIReset (C12, "parsed URI"): the object parsed s2 before (whatever the verdict), Reset(), then parses s;
	// compared with a new object parsing s (ParseURI does not clear its output: the reset has to)
	"ParseURIReset": func(a *fnArgs, o *ob) {
		var u, f sipsp.PsipURI
		sipsp.ParseURI(bytesOf(a.S2), &u)
		u.Reset()
		e1, n1 := sipsp.ParseURI(bytesOf(a.S), &u)
		e2, n2 := sipsp.ParseURI(bytesOf(a.S), &f)
		var ou, of ob
		ou.open('{'); ou.str("err", uriErrName(e1)); ou.int("offs", n1); ou.key("raw"); uriRaw(&ou, &u); ou.close('}')
		of.open('{'); of.str("err", uriErrName(e2)); of.int("offs", n2); of.key("raw"); uriRaw(&of, &f); of.close('}')
		same := string(ou.b) == string(of.b)
		o.bool("same", same)
		if !same {
			o.str("reused", string(ou.b))
			o.str("fresh", string(of.b))
		}
	},
	// AdjustOffs: parse s, move to newpos = {offs, len}
	"AdjustOffs": func(a *fnArgs, o *ob) {
		var u sipsp.PsipURI
		buf := bytesOf(a.S)
		e, _ := sipsp.ParseURI(buf, &u)
		o.str("err", uriErrName(e))
		if e != 0 {
			return
		}
		o.key("before")
		uriRaw(o, &u)
		ok := u.AdjustOffs(sipsp.PField{Offs: sipsp.OffsT(a.Offs), Len: sipsp.OffsT(a.Len)})
		o.bool("ok", ok)
		o.shift = 0
		o.key("uri")
		o.uri(&u)
		o.key("raw")
		uriRaw(o, &u)
		o.pf("Short", u.Short())
		o.pf("Long", u.Long())
	},
	"URICmp": func(a *fnArgs, o *ob) {
		var u1, u2 sipsp.PsipURI
		b1, b2 := bytesOf(a.S), bytesOf(a.S2)
		e1, _ := sipsp.ParseURI(b1, &u1)
		e2, _ := sipsp.ParseURI(b2, &u2)
		o.str("err1", uriErrName(e1))
		o.str("err2", uriErrName(e2))
		if e1 != 0 || e2 != 0 {
			return
		}
		f := sipsp.URICmpFlags(a.Flags)
		o.bool("eq", sipsp.URICmp(&u1, b1, &u2, b2, f))
		o.bool("eqshort", sipsp.URICmpShort(&u1, b1, &u2, b2, f))
		// the structures handed to URIParseCmp are RE-USED ones (as a caller's would be), not zero values
		var r1, r2 sipsp.PsipURI
		sipsp.ParseURI([]byte("sips:dirty:pw@[::1]:5061;p=1;q?h=v"), &r1)
		r2 = r1
		eq, e, which := sipsp.URIParseCmp(b1, b2, f, &r1, &r2)
		o.bool("peq", eq)
		o.str("perr", uriErrName(e))
		o.int("pwhich", which)
		o.bool("r1ok", r1 == u1)
		o.bool("r2ok", r2 == u2)
		eq, e, which = sipsp.URIRawCmp(b1, b2, f)
		o.bool("req", eq)
		o.str("rerr", uriErrName(e))
		o.int("rwhich", which)
	},
	"URIParamsEq": func(a *fnArgs, o *ob) {
		eq, e := sipsp.URIParamsEq(bytesOf(a.S), 0, bytesOf(a.S2), 0)
		o.bool("eq", eq)
		o.str("err", errName(e))
		// the same two lists inside larger buffers, at different offsets: same answer (real against real)
		b1 := append([]byte("sip:a@b;"), bytesOf(a.S)...)
		b2 := append([]byte("x;"), bytesOf(a.S2)...)
		if eq2, e2 := sipsp.URIParamsEq(b1, 8, b2, 2); eq2 != eq || e2 != e {
			o.str("shifted", fmt.Sprintf("at offsets 8 / 2: eq=%v err=%s", eq2, errName(e2)))
		}
	},
	"URIHdrsEq": func(a *fnArgs, o *ob) {
		eq, e := sipsp.URIHdrsEq(bytesOf(a.S), 0, bytesOf(a.S2), 0)
		o.bool("eq", eq)
		o.str("err", errName(e))
		b1 := append([]byte("sip:a@b?"), bytesOf(a.S)...)
		b2 := append([]byte("x?"), bytesOf(a.S2)...)
		if eq2, e2 := sipsp.URIHdrsEq(b1, 8, b2, 2); eq2 != eq || e2 != e {
			o.str("shifted", fmt.Sprintf("at offsets 8 / 2: eq=%v err=%s", eq2, errName(e2)))
		}
	},
	"URIParamResolve": func(a *fnArgs, o *ob) { o.int("t", int(sipsp.URIParamResolve(bytesOf(a.S)))) },
	"IP4Prefix": func(a *fnArgs, o *ob) {
		dst := make([]byte, a.Dst)
		ok, n, e := sipsp.IP4Prefix(bytesOf(a.S), dst)
		o.bool("ok", ok)
		o.int("n", n)
		o.str("err", errName(e))
		intsJSON(o, "ip", dst)
	},
	"ContainsIP4": func(a *fnArgs, o *ob) {
		dst := make([]byte, a.Dst)
		ok, at, l := sipsp.ContainsIP4(bytesOf(a.S), dst)
		o.bool("ok", ok)
		o.int("at", at)
		o.int("len", l)
		intsJSON(o, "ip", dst)
	},
	"IP6Prefix": func(a *fnArgs, o *ob) {
		dst := make([]byte, a.Dst)
		ok, n, e := sipsp.IP6Prefix(bytesOf(a.S), dst)
		o.bool("ok", ok)
		o.int("n", n)
		o.str("err", errName(e))
		intsJSON(o, "ip", dst)
	},
	"ContainsIP6": func(a *fnArgs, o *ob) {
		dst := make([]byte, a.Dst)
		ok, at, l := sipsp.ContainsIP6(bytesOf(a.S), dst)
		o.bool("ok", ok)
		o.int("at", at)
		o.int("len", l)
		intsJSON(o, "ip", dst)
	},
	"GetCallIDSig": func(a *fnArgs, o *ob) {
		s, l := sipsp.GetCallIDSig(bytesOf(a.S))
		o.int("sig", int(s))
		o.int("slen", int(l))
	},
	"GetViaBrSig": func(a *fnArgs, o *ob) {
		s, l := sipsp.GetViaBrSig(bytesOf(a.S))
		o.int("sig", int(s))
		o.int("len", l)
	},
	// GetMsgSig: parse message s one-shot with header capacity hcap, contact capacity ccap
	"GetMsgSig": func(a *fnArgs, o *ob) {
		var m sipsp.PSIPMsg
		buf := bytesOf(a.S)
		m.Init(nil, mkHdrs(a.HCap), mkContacts(a.CCap))
		n, e := 0, sipsp.ErrHdrMoreBytes
		if a.Cut > 0 && a.Cut < len(buf) {
			n, e = sipsp.ParseSIPMsg(buf[:a.Cut:a.Cut], 0, &m, uint8(a.Flags))
		}
		if e == sipsp.ErrHdrMoreBytes {
			n, e = sipsp.ParseSIPMsg(buf, n, &m, uint8(a.Flags))
		}
		o.str("perr", errName(e))
		o.int("poffs", n)
		if e != 0 {
			return
		}
		sig, se := sipsp.GetMsgSig(&m)
		sigJSON(o, sig, se)
	},
}

func sigJSON(o *ob, sig sipsp.MsgSig, se sipsp.ErrorHdr) {
	o.str("err", errName(se))
	o.int("Method", int(sig.Method))
	o.int("CidSLen", int(sig.CidSLen))
	o.int("CidSig", int(sig.CidSig))
	o.int("FromSig", int(sig.FromSig))
	o.int("ViaBSig", int(sig.ViaBSig))
	o.int("HdrSigLen", sig.HdrSigLen)
	o.key("HdrSig")
	o.b = append(o.b, '[')
	for i := 0; i < sig.HdrSigLen && i < len(sig.HdrSig); i++ {
		if i > 0 {
			o.b = append(o.b, ',')
		}
		o.b = append(o.b, fmt.Sprint(int(sig.HdrSig[i]))...)
	}
	o.b = append(o.b, ']')
	o.str("String", sig.String())
}

// uriRaw: the exported fields exactly as stored (the offset of an empty field included) -- read by the
// Decl predicates (spec/Judge_URI.tla), not by the drift comparison of observations
func uriRaw(o *ob, u *sipsp.PsipURI) {
	o.open('{')
	for _, f := range []struct {
		k string
		f sipsp.PField
	}{{"Scheme", u.Scheme}, {"User", u.User}, {"Pass", u.Pass}, {"Host", u.Host}, {"Port", u.Port}, {"Params", u.Params}, {"Headers", u.Headers}} {
		o.key(f.k)
		o.b = append(o.b, fmt.Sprintf("[%d,%d]", f.f.Offs, f.f.Len)...)
	}
	o.int("URIType", int(u.URIType))
	o.int("PortNo", int(u.PortNo))
	o.close('}')
}
