module verif/harness

go 1.22

require github.com/intuitivelabs/sipsp v0.0.0

require (
	github.com/intuitivelabs/bytescase v1.0.2 // indirect
	github.com/intuitivelabs/slog v0.0.2 // indirect
)

replace github.com/intuitivelabs/sipsp => /repo
