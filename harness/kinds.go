package main

// Parser kinds: one adapter per exported incremental parser.  An adapter creates a fresh
// object for a configuration, calls the REAL function, and projects the object with π (obs.go).
// No parsing logic, grammar or property predicate lives here.

import (
	"fmt"
	"reflect"
	"strconv"
	"sync"
	"unsafe"

	"github.com/intuitivelabs/sipsp"
)

type Cfg struct {
	Kind  string `json:"kind"`
	Start int    `json:"start"`
	Flags int    `json:"flags"`
	HCap  int    `json:"hcap"` // header array capacity, -1 = nil (built-in array)
	CCap  int    `json:"ccap"` // contact array capacity, -1 = nil
	PCap  int    `json:"pcap"` // URI param / URI header array capacity
}

func (c Cfg) String() string {
	return fmt.Sprintf("%s/s%d/f%d/h%d/c%d/p%d", c.Kind, c.Start, c.Flags, c.HCap, c.CCap, c.PCap)
}

type Obj interface {
	call(buf []byte, offs int) (int, sipsp.ErrorHdr)
	obs(o *ob, buf []byte)
	reset()
	raw() interface{}
}

// Call runs the real parser, turning a Go panic into the verdict "PANIC".
func Call(x Obj, buf []byte, offs int) (no int, verdict string) {
	defer func() {
		if r := recover(); r != nil {
			no, verdict = -1, "PANIC"
			lastPanic = fmt.Sprint(r)
		}
	}()
	n, e := x.call(buf, offs)
	return n, errName(e)
}

var lastPanic string

func Obs(x Obj, buf []byte, shift int) string {
	s, _ := ObsChk(x, buf, shift, false)
	return s
}

// ObsChk projects the object and (chk) tests that every reported field can be dereferenced
// against buf; bad names the first field that cannot.
func ObsChk(x Obj, buf []byte, shift int, chk bool) (obs string, bad string) {
	o := ob{b: make([]byte, 0, 256), shift: shift, chk: chk, n: len(buf)}
	func() {
		defer func() {
			if r := recover(); r != nil {
				o.b = append(o.b[:0], `"OBS-PANIC"`...)
				o.bad = fmt.Sprint("projection panicked: ", r)
			}
		}()
		x.obs(&o, buf)
	}()
	return string(o.b), o.bad
}

// ---- scalar headers
type uintObj struct {
	p    sipsp.PUIntBody
	kind string
}

func (x *uintObj) call(buf []byte, offs int) (int, sipsp.ErrorHdr) {
	switch x.kind {
	case "clen":
		return sipsp.ParseCLenVal(buf, offs, &x.p)
	case "expires":
		return sipsp.ParseExpiresVal(buf, offs, &x.p)
	}
	return sipsp.ParseUIntVal(buf, offs, &x.p)
}
func (x *uintObj) obs(o *ob, buf []byte) { o.uintBody(&x.p) }
func (x *uintObj) reset()                { x.p.Reset() }
func (x *uintObj) raw() interface{}      { return &x.p }

type callidObj struct{ p sipsp.PCallIDBody }

func (x *callidObj) call(buf []byte, offs int) (int, sipsp.ErrorHdr) {
	return sipsp.ParseCallIDVal(buf, offs, &x.p)
}
func (x *callidObj) obs(o *ob, buf []byte) { o.callID(&x.p) }
func (x *callidObj) reset()                { x.p.Reset() }
func (x *callidObj) raw() interface{}      { return &x.p }

type cseqObj struct{ p sipsp.PCSeqBody }

func (x *cseqObj) call(buf []byte, offs int) (int, sipsp.ErrorHdr) {
	return sipsp.ParseCSeqVal(buf, offs, &x.p)
}
func (x *cseqObj) obs(o *ob, buf []byte) { o.cseq(&x.p) }
func (x *cseqObj) reset()                { x.p.Reset() }
func (x *cseqObj) raw() interface{}      { return &x.p }

// ---- first line
type flineObj struct{ p sipsp.PFLine }

func (x *flineObj) call(buf []byte, offs int) (int, sipsp.ErrorHdr) {
	return sipsp.ParseFLine(buf, offs, &x.p)
}
func (x *flineObj) obs(o *ob, buf []byte) { o.fline(&x.p) }
func (x *flineObj) reset()                { x.p.Reset() }
func (x *flineObj) raw() interface{}      { return &x.p }

// ---- name-addr (From/To/Contact/PAI/Route by cfg.Flags = HdrT), one value
type nameAddrObj struct {
	p sipsp.PFromBody
	h sipsp.HdrT
	k string
}

func (x *nameAddrObj) call(buf []byte, offs int) (int, sipsp.ErrorHdr) {
	switch x.k {
	case "fromval":
		return sipsp.ParseFromVal(buf, offs, &x.p)
	case "onecontact":
		return sipsp.ParseOneContact(buf, offs, &x.p)
	case "onepai":
		return sipsp.ParseOnePAI(buf, offs, &x.p)
	}
	return sipsp.ParseNameAddrPVal(x.h, buf, offs, &x.p)
}
func (x *nameAddrObj) obs(o *ob, buf []byte) { o.from(&x.p) }
func (x *nameAddrObj) reset()                { x.p.Reset() }
func (x *nameAddrObj) raw() interface{}      { return &x.p }

// ---- contact / PAI lists
type contactsObj struct{ p sipsp.PContacts }

func (x *contactsObj) call(buf []byte, offs int) (int, sipsp.ErrorHdr) {
	return sipsp.ParseAllContactValues(buf, offs, &x.p)
}
func (x *contactsObj) obs(o *ob, buf []byte) { o.contacts(&x.p) }
func (x *contactsObj) reset()                { x.p.Reset() }
func (x *contactsObj) raw() interface{}      { return &x.p }

type paisObj struct{ p sipsp.PPAIs }

func (x *paisObj) call(buf []byte, offs int) (int, sipsp.ErrorHdr) {
	return sipsp.ParseAllPAIValues(buf, offs, &x.p)
}
func (x *paisObj) obs(o *ob, buf []byte) { o.pais(&x.p) }
func (x *paisObj) reset()                { x.p.Reset() }
func (x *paisObj) raw() interface{}      { return &x.p }

// ---- header line / header block
type hdrLineObj struct {
	h    sipsp.Hdr
	pv   sipsp.PHdrVals
	with bool
}

func (x *hdrLineObj) call(buf []byte, offs int) (int, sipsp.ErrorHdr) {
	if x.with {
		return sipsp.ParseHdrLine(buf, offs, &x.h, &x.pv)
	}
	return sipsp.ParseHdrLine(buf, offs, &x.h, nil)
}
func (x *hdrLineObj) obs(o *ob, buf []byte) {
	o.open('{')
	o.key("H")
	o.hdr(&x.h)
	if x.with {
		o.key("PV")
		o.hdrVals(&x.pv)
	}
	o.close('}')
}
func (x *hdrLineObj) reset() { x.h.Reset(); x.pv.Reset() }
func (x *hdrLineObj) raw() interface{} {
	return &struct {
		H  *sipsp.Hdr
		PV *sipsp.PHdrVals
	}{&x.h, &x.pv}
}

type headersObj struct {
	hl   sipsp.HdrLst
	pv   sipsp.PHdrVals
	with bool
}

func (x *headersObj) call(buf []byte, offs int) (int, sipsp.ErrorHdr) {
	if x.with {
		return sipsp.ParseHeaders(buf, offs, &x.hl, &x.pv)
	}
	return sipsp.ParseHeaders(buf, offs, &x.hl, nil)
}
func (x *headersObj) obs(o *ob, buf []byte) {
	o.open('{')
	o.key("HL")
	o.hdrLst(&x.hl)
	if x.with {
		o.key("PV")
		o.hdrVals(&x.pv)
	}
	o.close('}')
}
func (x *headersObj) reset() { x.hl.Reset(); x.pv.Reset() }
func (x *headersObj) raw() interface{} {
	return &struct {
		HL *sipsp.HdrLst
		PV *sipsp.PHdrVals
	}{&x.hl, &x.pv}
}

// ---- whole message
type msgObj struct {
	m          sipsp.PSIPMsg
	flags      uint8
	last       []byte
	hcap, ccap int
}

func (x *msgObj) call(buf []byte, offs int) (int, sipsp.ErrorHdr) {
	x.last = buf
	return sipsp.ParseSIPMsg(buf, offs, &x.m, x.flags)
}
func (x *msgObj) obs(o *ob, buf []byte) { o.msg(&x.m, buf) }
func (x *msgObj) reset()                { x.m.Reset() }
func (x *msgObj) raw() interface{}      { return &x.m }

// ---- token param and the URI lists
type tokParamObj struct {
	p     sipsp.PTokParam
	flags sipsp.POptFlags
}

func (x *tokParamObj) call(buf []byte, offs int) (int, sipsp.ErrorHdr) {
	return sipsp.ParseTokenParam(buf, offs, &x.p, x.flags)
}
func (x *tokParamObj) obs(o *ob, buf []byte) { o.tokParam(&x.p) }
func (x *tokParamObj) reset()                { x.p.Reset() }
func (x *tokParamObj) raw() interface{}      { return &x.p }

type uriParamsObj struct {
	l     sipsp.URIParamsLst
	flags sipsp.POptFlags
	vno   int
}

func (x *uriParamsObj) call(buf []byte, offs int) (int, sipsp.ErrorHdr) {
	n, v, e := sipsp.ParseAllURIParams(buf, offs, &x.l, x.flags)
	x.vno += v
	return n, e
}
func (x *uriParamsObj) obs(o *ob, buf []byte) { o.uriParams(&x.l) }
func (x *uriParamsObj) reset()                { x.l.Reset(); x.vno = 0 }
func (x *uriParamsObj) raw() interface{}      { return &x.l }

type uriHdrsObj struct {
	l     sipsp.URIHdrsLst
	flags sipsp.POptFlags
	vno   int
}

func (x *uriHdrsObj) call(buf []byte, offs int) (int, sipsp.ErrorHdr) {
	n, v, e := sipsp.ParseAllURIHdrs(buf, offs, &x.l, x.flags)
	x.vno += v
	return n, e
}
func (x *uriHdrsObj) obs(o *ob, buf []byte) { o.uriHdrs(&x.l) }
func (x *uriHdrsObj) reset()                { x.l.Reset(); x.vno = 0 }
func (x *uriHdrsObj) raw() interface{}      { return &x.l }

// SkipQuoted is stateless: the "object" is empty, the continuation is the offset alone.
type skipQuotedObj struct{}

func (x *skipQuotedObj) call(buf []byte, offs int) (int, sipsp.ErrorHdr) {
	return sipsp.SkipQuoted(buf, offs)
}
func (x *skipQuotedObj) obs(o *ob, buf []byte) { o.b = append(o.b, `{"dummy":0}`...) }
func (x *skipQuotedObj) reset()                {}
func (x *skipQuotedObj) raw() interface{}      { return x }

const ampleCap = 64

func mkHdrs(n int) []sipsp.Hdr {
	if n < 0 {
		return nil
	}
	return make([]sipsp.Hdr, n)
}
func mkContacts(n int) []sipsp.PFromBody {
	if n < 0 {
		return nil
	}
	return make([]sipsp.PFromBody, n)
}

// NewObj creates a new parser object of the kind, with fresh (pristine) caller-supplied arrays.
func NewObj(c Cfg) Obj {
	switch c.Kind {
	case "uint", "clen", "expires":
		return &uintObj{kind: c.Kind}
	case "callid":
		return &callidObj{}
	case "cseq":
		return &cseqObj{}
	case "fline":
		return &flineObj{}
	case "nameaddr": // Flags = header type
		return &nameAddrObj{h: sipsp.HdrT(c.Flags), k: c.Kind}
	case "fromval", "onecontact", "onepai":
		return &nameAddrObj{k: c.Kind}
	case "contacts":
		x := &contactsObj{}
		x.p.Init(mkContacts(c.CCap))
		return x
	case "pais":
		return &paisObj{}
	case "hdrline":
		return &hdrLineObj{}
	case "hdrlineb":
		x := &hdrLineObj{with: true}
		x.pv.Init(mkContacts(c.CCap))
		return x
	case "headers":
		x := &headersObj{}
		x.hl.Hdrs = mkHdrs(c.HCap)
		return x
	case "headersb":
		x := &headersObj{with: true}
		x.hl.Hdrs = mkHdrs(c.HCap)
		x.pv.Init(mkContacts(c.CCap))
		return x
	case "msg":
		x := &msgObj{flags: uint8(c.Flags), hcap: c.HCap, ccap: c.CCap}
		x.m.Init(nil, mkHdrs(c.HCap), mkContacts(c.CCap))
		return x
	case "tokparam":
		return &tokParamObj{flags: sipsp.POptFlags(c.Flags)}
	case "uriparams":
		x := &uriParamsObj{flags: sipsp.POptFlags(c.Flags)}
		x.l.Init(make([]sipsp.URIParam, max0(c.PCap)))
		return x
	case "urihdrs":
		x := &uriHdrsObj{flags: sipsp.POptFlags(c.Flags)}
		x.l.Init(make([]sipsp.URIHdr, max0(c.PCap)))
		return x
	case "skipquoted":
		return &skipQuotedObj{}
	}
	panic("unknown kind " + c.Kind)
}

func max0(n int) int {
	if n < 0 {
		return 0
	}
	return n
}

// ---- full-state fingerprint (unexported fields included), read-only.
// Used ONLY for the suspension-state induction of DESIGN §5.3 and for drift diagnostics;
// it never enters a verdict.  Pointer-free values are taken as raw memory, the rest is walked.
func Fingerprint(x Obj) string {
	b := make([]byte, 0, 256)
	b = fpWalk(b, reflect.ValueOf(x.raw()), 0)
	return string(b)
}

var ptrFree sync.Map // reflect.Type -> bool

func isPtrFree(t reflect.Type) bool {
	if v, ok := ptrFree.Load(t); ok {
		return v.(bool)
	}
	r := true
	switch t.Kind() {
	case reflect.Ptr, reflect.Interface, reflect.Slice, reflect.Map, reflect.Chan, reflect.Func, reflect.String, reflect.UnsafePointer:
		r = false
	case reflect.Struct:
		for i := 0; i < t.NumField(); i++ {
			if !isPtrFree(t.Field(i).Type) {
				r = false
				break
			}
		}
	case reflect.Array:
		r = isPtrFree(t.Elem())
	}
	ptrFree.Store(t, r)
	return r
}

func fpWalk(b []byte, v reflect.Value, depth int) []byte {
	if v.CanAddr() && isPtrFree(v.Type()) {
		sz := v.Type().Size()
		if sz == 0 {
			return b
		}
		return append(b, unsafe.Slice((*byte)(unsafe.Pointer(v.UnsafeAddr())), sz)...)
	}
	switch v.Kind() {
	case reflect.Ptr, reflect.Interface:
		if v.IsNil() {
			return append(b, 'n')
		}
		if depth > 6 {
			return append(b, 'p')
		}
		return fpWalk(b, v.Elem(), depth+1)
	case reflect.Struct:
		for i := 0; i < v.NumField(); i++ {
			b = fpWalk(b, v.Field(i), depth+1)
		}
		return b
	case reflect.Array:
		for i := 0; i < v.Len(); i++ {
			b = fpWalk(b, v.Index(i), depth+1)
		}
		return b
	case reflect.Slice:
		b = strconv.AppendInt(append(b, '#'), int64(v.Len()), 10)
		if v.Type().Elem().Kind() == reflect.Uint8 {
			return b
		}
		for i := 0; i < v.Len(); i++ {
			b = fpWalk(b, v.Index(i), depth+1)
		}
		return b
	case reflect.Bool:
		if v.Bool() {
			return append(b, 'T')
		}
		return append(b, 'F')
	case reflect.Int, reflect.Int8, reflect.Int16, reflect.Int32, reflect.Int64:
		return strconv.AppendInt(append(b, ' '), v.Int(), 10)
	case reflect.Uint, reflect.Uint8, reflect.Uint16, reflect.Uint32, reflect.Uint64, reflect.Uintptr:
		return strconv.AppendUint(append(b, ' '), v.Uint(), 10)
	}
	return append(b, '?')
}
