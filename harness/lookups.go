package main

// lookups (C16 / C04): totality of the small table functions on their whole domain.

import (
	"bytes"
	"fmt"

	"github.com/intuitivelabs/sipsp"
)

func init() { modes["lookups"] = runLookups }

func runLookups(job *Job) Result {
	var res Result
	add := func(prop, what, detail string) {
		res.Violations = append(res.Violations, Violation{Prop: prop, What: what, Detail: detail, Text: detail, Sig: "lookup"})
	}
	safe := func(name string, f func()) {
		defer func() {
			if r := recover(); r != nil {
				add("C16", name+" panicked", fmt.Sprint(r))
				add("C04", name+" panicked", fmt.Sprint(r))
			}
		}()
		f()
	}
	for m := 0; m < 256; m++ {
		safe("SIPMethod.Name", func() {
			mm := sipsp.SIPMethod(m)
			n := mm.Name()
			res.Stats.Calls++
			if m >= 1 && m < int(sipsp.MOther) {
				if back := sipsp.GetMethodNo(n); back != mm {
					add("C16", "method -> name -> method is not the identity", fmt.Sprintf("method %d name %q back %d", m, n, back))
				}
				if !bytes.Equal(bytes.ToUpper(n), n) || len(n) == 0 {
					add("C16", "method name is not an upper-case name", fmt.Sprintf("method %d name %q", m, n))
				}
			}
			_ = mm.String()
		})
	}
	for t := 0; t < 70000; t += 1 {
		safe("HdrT.String", func() { _ = sipsp.HdrT(t).String(); res.Stats.Calls++ })
		if t > 300 {
			t += 997
		}
	}
	for e := 0; e < 64; e++ {
		safe("ErrorHdr.ErrorConv", func() { _ = sipsp.ErrorHdr(e).ErrorConv(); res.Stats.Calls++ })
	}
	res.Stats.Inputs = res.Stats.Calls
	res.Samples = []string{"SIPMethod(0..255).Name()/String(), GetMethodNo(Name(m)) == m, HdrT.String(), ErrorConv"}
	return res
}
