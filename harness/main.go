package main

import (
	"bufio"
	"encoding/json"
	"fmt"
	"os"
	"runtime"
	"runtime/debug"
	"sync"
	"sync/atomic"
	"time"
)

// Job describes one exploration: which property formulas raise violations, which
// configurations, and where inputs come from (all atom strings up to MaxLen, and/or a file
// with one JSON array of byte values per line, e.g. produced by TLC from a Gen* module).
type Job struct {
	Mode       string   `json:"mode"`
	Props      []string `json:"props"`
	Cfgs       []Cfg    `json:"cfgs"`
	Atoms      [][]int  `json:"atoms"`
	MaxLen     int      `json:"maxlen"`
	InputsFile string   `json:"inputs_file"`
	Shifts     []int    `json:"shifts"`
	ExtAtoms   [][]int  `json:"ext_atoms"`
	Seed       int64    `json:"seed"`
	Out        string   `json:"out"`
	MaxViol    int      `json:"max_viol"`
	Workers    int      `json:"workers"`
	Light      bool     `json:"light"`
	Mutants    int      `json:"mutants"` // near-miss variants derived from every file input (seeded)
	Extra      map[string]interface{} `json:"extra"`
}

type Result struct {
	Stats      Stats       `json:"stats"`
	Violations []Violation `json:"violations"`
	Samples    []string    `json:"samples"`
	WallS      float64     `json:"wall_s"`
	Extra      map[string]interface{} `json:"extra,omitempty"`
}

func bytesOf(a []int) []byte {
	b := make([]byte, len(a))
	for i, v := range a {
		b[i] = byte(v)
	}
	return b
}

// watchdog: C04 "fails to return".  Every worker publishes the case it is working on; a case
// that runs longer than the limit is reported as a hang (exit 3, decoded by bin/check).
type slot struct {
	desc  atomic.Value
	since atomic.Int64
}

var slots []*slot

func watchdog(limit time.Duration) {
	for {
		time.Sleep(500 * time.Millisecond)
		now := time.Now().UnixNano()
		for _, s := range slots {
			t := s.since.Load()
			if t != 0 && time.Duration(now-t) > limit {
				d, _ := s.desc.Load().(string)
				fmt.Printf("HANG %s\n", d)
				os.Exit(3)
			}
		}
	}
}

func main() {
	if len(os.Args) < 2 {
		fmt.Fprintln(os.Stderr, "usage: sipspv <job.json>")
		os.Exit(2)
	}
	data, err := os.ReadFile(os.Args[1])
	if err != nil {
		fmt.Fprintln(os.Stderr, err)
		os.Exit(2)
	}
	var job Job
	if err := json.Unmarshal(data, &job); err != nil {
		fmt.Fprintln(os.Stderr, "bad job:", err)
		os.Exit(2)
	}
	debug.SetGCPercent(800)
	if job.Workers <= 0 {
		job.Workers = runtime.NumCPU()
	}
	if job.MaxViol <= 0 {
		job.MaxViol = 50
	}
	t0 := time.Now()
	var res Result
	switch job.Mode {
	case "explore":
		res = runExplore(&job)
	case "replay":
		res = runReplay(&job)
	default:
		if f, ok := modes[job.Mode]; ok {
			res = f(&job)
		} else {
			fmt.Fprintln(os.Stderr, "unknown mode", job.Mode)
			os.Exit(2)
		}
	}
	res.WallS = time.Since(t0).Seconds()
	out, _ := json.MarshalIndent(res, "", " ")
	if job.Out != "" {
		if err := os.WriteFile(job.Out, out, 0o644); err != nil {
			fmt.Fprintln(os.Stderr, err)
			os.Exit(2)
		}
	} else {
		os.Stdout.Write(out)
	}
}

var modes = map[string]func(*Job) Result{}

// forEachInput feeds every input of the job (atom strings, then file lines) to fn, in parallel.
func forEachInput(job *Job, mk func(w int) func(in []byte)) {
	W := job.Workers
	slots = make([]*slot, W)
	for i := range slots {
		slots[i] = &slot{}
	}
	go watchdog(20 * time.Second)
	var fileInputs [][]byte
	if job.InputsFile != "" {
		f, err := os.Open(job.InputsFile)
		if err != nil {
			fmt.Fprintln(os.Stderr, err)
			os.Exit(2)
		}
		sc := bufio.NewScanner(f)
		sc.Buffer(make([]byte, 1<<20), 1<<26)
		for sc.Scan() {
			var a []int
			if json.Unmarshal(sc.Bytes(), &a) == nil {
				fileInputs = append(fileInputs, bytesOf(a))
			}
		}
		f.Close()
	}
	atoms := make([][]byte, len(job.Atoms))
	for i, a := range job.Atoms {
		atoms[i] = bytesOf(a)
	}
	var wg sync.WaitGroup
	for w := 0; w < W; w++ {
		wg.Add(1)
		go func(w int) {
			defer wg.Done()
			fn := mk(w)
			run := func(in []byte) {
				slots[w].desc.Store(fmt.Sprintf("%q", in))
				slots[w].since.Store(time.Now().UnixNano())
				fn(in)
				slots[w].since.Store(0)
			}
			// atom strings of 1..MaxLen atoms: string number i of each length, i = w mod W
			if len(atoms) > 0 {
				A := len(atoms)
				buf := make([]byte, 0, 64)
				for L := 1; L <= job.MaxLen; L++ {
					total := 1
					for j := 0; j < L; j++ {
						total *= A
					}
					for i := w; i < total; i += W {
						buf = buf[:0]
						x := i
						for j := 0; j < L; j++ {
							buf = append(buf, atoms[x%A]...)
							x /= A
						}
						run(buf)
					}
				}
			}
			for i := w; i < len(fileInputs); i += W {
				run(fileInputs[i])
				for m := 0; m < job.Mutants; m++ {
					run(mutate(fileInputs[i], uint64(job.Seed)*1000003+uint64(i)*131+uint64(m)))
				}
			}
		}(w)
	}
	wg.Wait()
}

func runExplore(job *Job) Result {
	props := map[string]bool{}
	for _, p := range job.Props {
		props[p] = true
	}
	ext := make([][]byte, len(job.ExtAtoms))
	for i, a := range job.ExtAtoms {
		ext[i] = bytesOf(a)
	}
	exps := make([]*Explorer, job.Workers)
	var samples []string
	var smu sync.Mutex
	forEachInput(job, func(w int) func(in []byte) {
		e := &Explorer{Props: props, Shifts: job.Shifts, JunkBytes: []byte("\"<;\r\n9,x"), ExtAtoms: ext, MaxViol: job.MaxViol, Light: job.Light, Seed: job.Seed}
		exps[w] = e
		cnt := 0
		return func(in []byte) {
			for _, c := range job.Cfgs {
				e.Input(c, in)
			}
			cnt++
			if cnt%997 == 1 {
				smu.Lock()
				if len(samples) < 12 {
					samples = append(samples, fmt.Sprintf("%q", in))
				}
				smu.Unlock()
			}
		}
	})
	var res Result
	for _, e := range exps {
		if e == nil {
			continue
		}
		res.Stats.add(&e.st)
		res.Violations = append(res.Violations, e.viol...)
	}
	if len(res.Violations) > job.MaxViol {
		res.Violations = res.Violations[:job.MaxViol]
	}
	res.Samples = samples
	return res
}

var mutAtoms = [][]byte{{' '}, {'\t'}, {'\r'}, {'\n'}, {'\r', '\n'}, {'"'}, {'\\'}, {'<'}, {'>'}, {';'}, {','}, {':'}, {'='}, {'0'}, {'9'}, {'a'}, {0}, {200}, {'*'}}

// mutate: one seeded single-atom edit (delete / insert / substitute / transpose / truncate)
func mutate(in []byte, h uint64) []byte {
	rnd := func() uint64 {
		h ^= h << 13
		h ^= h >> 7
		h ^= h << 17
		return h
	}
	h = h*0x9E3779B97F4A7C15 + 1
	rnd()
	out := append([]byte(nil), in...)
	if len(out) < 2 {
		return out
	}
	pos := int(rnd() % uint64(len(out)))
	a := mutAtoms[rnd()%uint64(len(mutAtoms))]
	switch rnd() % 5 {
	case 0: // delete
		out = append(out[:pos], out[pos+1:]...)
	case 1: // insert
		out = append(out[:pos], append(append([]byte(nil), a...), out[pos:]...)...)
	case 2: // substitute
		out = append(out[:pos], append(append([]byte(nil), a...), out[pos+1:]...)...)
	case 3: // transpose
		if pos+1 < len(out) {
			out[pos], out[pos+1] = out[pos+1], out[pos]
		}
	case 4: // truncate
		out = out[:pos+1]
	}
	return out
}
