package main

// Further relational explorations of the real code:
//   caps  (C13)  small caller-supplied capacities vs an ample-capacity run of the same input
//   reset (C12)  used object + Reset/Init vs a newly created object, on every later input
// Formulas: spec/Props.tla CapacityIndependent, ResetLikeNew.

import (
	"encoding/json"
	"fmt"
	"os"
	"sync"

	"github.com/intuitivelabs/sipsp"
)

func init() {
	modes["caps"] = runCaps
	modes["reset"] = runReset
}

func capOf(c Cfg) (h, cc, p int) {
	h, cc, p = c.HCap, c.CCap, c.PCap
	if c.Kind == "msg" {
		if h < 0 {
			h = 10
		}
		if cc < 0 {
			cc = 10
		}
	}
	if c.Kind == "pais" {
		cc = 2
	}
	return
}

// obsLim: π of the object with stored-element lists cut to the given capacities
func obsLim(x Obj, buf []byte, h, c, p int) string {
	o := ob{b: make([]byte, 0, 256), lim: true, hlimit: h, climit: c, plimit: p}
	func() {
		defer func() {
			if r := recover(); r != nil {
				o.b = append(o.b[:0], `"OBS-PANIC"`...)
			}
		}()
		x.obs(&o, buf)
	}()
	return string(o.b)
}

// runCaps: job.Cfgs are the SMALL-capacity configurations; the ample reference is the same cfg with
// capacities 64.  Inputs: one-shot and (light) chunked through every suspension of the ample run.
func runCaps(job *Job) Result {
	type acc struct {
		st   Stats
		viol []Violation
	}
	accs := make([]*acc, job.Workers)
	forEachInput(job, func(w int) func(in []byte) {
		a := &acc{}
		accs[w] = a
		return func(in []byte) {
			a.st.Inputs++
			for _, c := range job.Cfgs {
				big := c
				big.HCap, big.CCap, big.PCap = ampleCap, ampleCap, ampleCap
				h, cc, p := capOf(c)
				buf := in
				n := len(buf)
				// schedules: one-shot, and every single cut (light)
				for cut := 0; cut < n; cut++ {
					if cut > 0 && job.Light && cut%3 != int(job.Seed)%3 {
						continue
					}
					run := func(cf Cfg) (int, string, Obj) {
						x := NewObj(cf)
						offs := cf.Start
						if cut > cf.Start {
							o1, v1 := Call(x, prefixOf(buf, cut), offs)
							a.st.Calls++
							if v1 != "more" {
								return o1, v1, x
							}
							offs = o1
						}
						o2, v2 := Call(x, buf, offs)
						a.st.Calls++
						return o2, v2, x
					}
					ob, vb, xb := run(big)
					os, vs, xs := run(c)
					a.st.Pairs++
					// the property quantifies over successfully parsed inputs: values are compared for those,
					// verdict and offset always
					if vb == "more" || vb == "PANIC" || isErrVerdict(vb) {
						if vb != vs || ob != os {
							if len(a.viol) < job.MaxViol {
								a.viol = append(a.viol, Violation{Prop: "C13", What: "verdict/offset depends on the capacity", Cfg: c, Input: toInts(in),
									Text: fmt.Sprintf("%q", in), Cuts: []int{cut}, Sig: "cap-vo:" + c.Kind,
									Detail: fmt.Sprintf("small capacities: (%s,%d); ample: (%s,%d)", vs, os, vb, ob)})
							}
						}
						continue
					}
					if !isErrVerdict(vb) {
						a.st.Successes++
					}
					want := obsLim(xb, buf, h, cc, p)
					got := obsLim(xs, buf, h, cc, p)
					if vb != vs || ob != os || want != got {
						if len(a.viol) < job.MaxViol {
							a.viol = append(a.viol, Violation{Prop: "C13", What: "result depends on the capacity of the caller-supplied arrays", Cfg: c,
								Input: toInts(in), Text: fmt.Sprintf("%q", in), Cuts: []int{cut}, Sig: "cap:" + c.Kind,
								Detail: fmt.Sprintf("small capacities: (%s,%d) %s\nample, cut to the same capacities: (%s,%d) %s", vs, os, got, vb, ob, want)})
						}
					}
				}
			}
		}
	})
	var res Result
	for _, a := range accs {
		if a != nil {
			res.Stats.add(&a.st)
			res.Violations = append(res.Violations, a.viol...)
		}
	}
	return res
}

// reinit: Init() with the SAME caller-supplied arrays, where the type has one
type reiniter interface{ reinit() }

func (x *msgObj) reinit() {
	x.m.Init(nil, hdrsOrNil(x.hcap, x.m.HL.Hdrs), contactsOrNil(x.ccap, x.m.PV.Contacts.Vals))
}
func hdrsOrNil(cap int, h []sipsp.Hdr) []sipsp.Hdr {
	if cap < 0 {
		return nil
	}
	return h
}
func contactsOrNil(cap int, c []sipsp.PFromBody) []sipsp.PFromBody {
	if cap < 0 {
		return nil
	}
	return c
}
func (x *hdrLineObj) reinit() {
	x.h.Reset()
	x.pv.Init(x.pv.Contacts.Vals)
}
func (x *headersObj) reinit() {
	x.hl.Reset()
	x.pv.Init(x.pv.Contacts.Vals)
}
func (x *contactsObj) reinit()  { x.p.Reset(); x.p.Init(x.p.Vals) }
func (x *uriParamsObj) reinit() { x.l.Reset(); x.l.Init(x.l.Params); x.vno = 0 }
func (x *uriHdrsObj) reinit()   { x.l.Reset(); x.l.Init(x.l.Hdrs); x.vno = 0 }
func (x *paisObj) reinit()      { x.p.Init() }

// runReset: for every input A (job inputs), every stop point (suspended at p / complete / failed), the object
// is Reset (and, in a second variant, re-Init'ed with the same arrays), then every probe B is parsed on it,
// one-shot and through a cut; compared with a new object (pristine arrays of the same capacities).
func runReset(job *Job) Result {
	var probes [][]byte
	if ps, ok := job.Extra["probes"].([]interface{}); ok {
		for _, p := range ps {
			var b []byte
			for _, v := range p.([]interface{}) {
				b = append(b, byte(v.(float64)))
			}
			probes = append(probes, b)
		}
	}
	type acc struct {
		st   Stats
		viol []Violation
	}
	accs := make([]*acc, job.Workers)
	var refMu sync.Mutex
	type refKey struct {
		c   string
		b   int
		cut int
	}
	type refVal struct {
		o   int
		v   string
		obs string
	}
	refs := map[refKey]refVal{}
	useB := func(x Obj, c Cfg, b []byte, cut int) (int, string, string) {
		offs := c.Start
		if cut > 0 {
			o1, v1 := Call(x, prefixOf(b, cut), offs)
			if v1 != "more" {
				return o1, v1, Obs(x, prefixOf(b, cut), 0)
			}
			offs = o1
		}
		o2, v2 := Call(x, b, offs)
		return o2, v2, Obs(x, b, 0)
	}
	// the probes themselves are also used as first inputs (A): complete, successful uses of every slot
	probeFile := ""
	if job.InputsFile == "" && len(probes) > 0 {
		f, _ := os.CreateTemp("", "probes-*.ndjson")
		for _, p := range probes {
			b, _ := json.Marshal(toInts(p))
			f.Write(b)
			f.WriteString("\n")
		}
		f.Close()
		probeFile = f.Name()
		job.InputsFile = probeFile
		defer os.Remove(probeFile)
	}
	forEachInput(job, func(w int) func(in []byte) {
		a := &acc{}
		accs[w] = a
		return func(in []byte) {
			a.st.Inputs++
			for _, c := range job.Cfgs {
				if c.Start != 0 {
					continue
				}
				n := len(in)
				for stop := 1; stop <= n; stop++ {
					if job.Light && stop != n && stop%4 != int(job.Seed)%4 {
						continue
					}
					for variant := 0; variant < 2; variant++ {
						for bi, b := range probes {
							cuts := []int{0, len(b) / 2}
							for _, cut := range cuts {
								x := NewObj(c)
								_, va := Call(x, prefixOf(in, stop), 0)
								a.st.Calls++
								if va == "PANIC" {
									continue
								}
								if va == "more" {
									a.st.Suspensions++
								}
								if variant == 0 {
									x.reset()
								} else if r, ok := x.(reiniter); ok {
									r.reinit()
								} else {
									continue
								}
								o, v, obs := useB(x, c, b, cut)
								a.st.Calls++
								a.st.Pairs++
								if v == "PANIC" || o > len(b) {
									if len(a.viol) < job.MaxViol {
										a.viol = append(a.viol, Violation{Prop: "C04", What: "parse on a reset object panics / returns an offset outside the buffer",
											Cfg: c, Input: toInts(in), Text: fmt.Sprintf("%q stopped at %d (%s), reset, then %q", in, stop, va, b),
											Cuts: []int{stop, cut}, Sig: "reset-sane:" + c.Kind, Detail: fmt.Sprintf("(%s,%d) %s", v, o, lastPanic)})
									}
								} else if _, bad := ObsChk(x, b, 0, true); bad != "" {
									if len(a.viol) < job.MaxViol {
										a.viol = append(a.viol, Violation{Prop: "C04", What: "field reported after a parse on a reset object cannot be dereferenced",
											Cfg: c, Input: toInts(in), Text: fmt.Sprintf("%q stopped at %d (%s), reset, then %q", in, stop, va, b),
											Cuts: []int{stop, cut}, Sig: "reset-deref:" + c.Kind, Detail: bad})
									}
								}
								k := refKey{c.String(), bi, cut}
								refMu.Lock()
								ref, ok := refs[k]
								refMu.Unlock()
								if !ok {
									y := NewObj(c)
									ro, rv, robs := useB(y, c, b, cut)
									ref = refVal{ro, rv, robs}
									refMu.Lock()
									refs[k] = ref
									refMu.Unlock()
								}
								// ... and once more: Reset again (now after B, complete or abandoned at its cut) and use the next probe
								if cut == 0 && len(probes) > 1 {
									b2 := probes[(bi+1)%len(probes)]
									if variant == 0 {
										x.reset()
									} else if r, ok := x.(reiniter); ok {
										r.reinit()
									}
									o3, v3, obs3 := useB(x, c, b2, 0)
									a.st.Calls++
									k3 := refKey{c.String(), (bi + 1) % len(probes), 0}
									refMu.Lock()
									ref3, ok3 := refs[k3]
									refMu.Unlock()
									if !ok3 {
										y := NewObj(c)
										ro, rv, robs := useB(y, c, b2, 0)
										ref3 = refVal{ro, rv, robs}
										refMu.Lock()
										refs[k3] = ref3
										refMu.Unlock()
									}
									if (o3 != ref3.o || v3 != ref3.v || (v3 != "PANIC" && obs3 != ref3.obs)) && len(a.viol) < job.MaxViol {
										a.viol = append(a.viol, Violation{Prop: "C12", What: "object used, reset, used, reset again behaves differently from a new object",
											Cfg: c, Input: toInts(in), Text: fmt.Sprintf("%q stopped at %d (%s), reset, %q, reset, %q", in, stop, va, b, b2),
											Cuts: []int{stop, cut}, Sig: "reset2:" + c.Kind,
											Detail: fmt.Sprintf("third use: (%s,%d) %s\nnew object: (%s,%d) %s", v3, o3, obs3, ref3.v, ref3.o, ref3.obs)})
									}
								}
								if o != ref.o || v != ref.v || (v != "PANIC" && obs != ref.obs) {
									if len(a.viol) < job.MaxViol {
										how := "Reset()"
										if variant == 1 {
											how = "Init() with the same arrays"
										}
										a.viol = append(a.viol, Violation{Prop: "C12", What: "object used, then " + how + ", behaves differently from a new object",
											Cfg: c, Input: toInts(in), Text: fmt.Sprintf("%q stopped at %d (%s), then %q", in, stop, va, b),
											Cuts: []int{stop, cut}, Sig: "reset:" + c.Kind,
											Detail: fmt.Sprintf("after %s: (%s,%d) %s\nnew object:  (%s,%d) %s", how, v, o, obs, ref.v, ref.o, ref.obs)})
									}
								}
							}
						}
					}
				}
			}
		}
	})
	var res Result
	for _, a := range accs {
		if a != nil {
			res.Stats.add(&a.st)
			res.Violations = append(res.Violations, a.viol...)
		}
	}
	return res
}
