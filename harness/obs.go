package main

// Observation function π (DESIGN §4.1): projects parser objects onto EXPORTED fields and
// exported predicates only — what a caller can read back — as canonical JSON text.
// Every positional value (PField offset, error offset) is emitted minus `shift`, so that
// "shifted by exactly k" (C11) is byte equality of π(obj, k) and π(obj0, 0).
// An empty PField (Len == 0) denotes the empty text; its offset is meaningless and is not observed.

import (
	"strconv"
	"unsafe"

	"github.com/intuitivelabs/sipsp"
)

var errNames = map[sipsp.ErrorHdr]string{
	sipsp.ErrHdrOk: "ok", sipsp.ErrHdrEOH: "eoh", sipsp.ErrHdrEmpty: "empty", sipsp.ErrHdrMoreBytes: "more",
	sipsp.ErrHdrMoreValues: "morevalues", sipsp.ErrHdrNoCR: "nocr", sipsp.ErrHdrBadChar: "badchar",
	sipsp.ErrHdrParams: "params", sipsp.ErrHdrBad: "bad", sipsp.ErrHdrValNotNumber: "notnumber",
	sipsp.ErrHdrValTooLong: "toolong", sipsp.ErrHdrValBad: "valbad", sipsp.ErrHdrNumTooBig: "toobig",
	sipsp.ErrHdrTrunc: "trunc", sipsp.ErrHdrNoCLen: "noclen", sipsp.ErrHdrBug: "bug", sipsp.ErrConvBug: "convbug",
	sipsp.ErrHdrTooManyVals: "toomany",
}

func errName(e sipsp.ErrorHdr) string {
	if s, ok := errNames[e]; ok {
		return s
	}
	return "err" + strconv.Itoa(int(e))
}

type ob struct {
	b     []byte
	shift int
	chk   bool   // check that every field can be dereferenced against a buffer of n bytes
	n     int
	bad   string // first field that cannot
	// capacity projection (C13): when lim is set, stored-element lists are cut to these capacities and the
	// "more" indicators are recomputed for them: Truncate(Obs(ample run), caps of the small run)
	lim                 bool
	hlimit, climit, plimit int
}

func (o *ob) cut(n, limit int) int {
	if o.lim && limit >= 0 && n > limit {
		return limit
	}
	return n
}

func (o *ob) key(k string) {
	if n := len(o.b); n > 0 && o.b[n-1] != '{' && o.b[n-1] != '[' {
		o.b = append(o.b, ',')
	}
	o.b = append(o.b, '"')
	o.b = append(o.b, k...)
	o.b = append(o.b, '"', ':')
}
func (o *ob) sep() {
	if n := len(o.b); n > 0 && o.b[n-1] != '{' && o.b[n-1] != '[' && o.b[n-1] != ':' {
		o.b = append(o.b, ',')
	}
}
func (o *ob) open(c byte)  { o.sep(); o.b = append(o.b, c) }
func (o *ob) close(c byte) { o.b = append(o.b, c) }
func (o *ob) int(k string, v int) {
	o.key(k)
	o.b = strconv.AppendInt(o.b, int64(v), 10)
}
func (o *ob) bool(k string, v bool) {
	o.key(k)
	o.b = strconv.AppendBool(o.b, v)
}
func (o *ob) str(k string, v string) {
	o.key(k)
	o.b = strconv.AppendQuote(o.b, v)
}

// u32 as two base-2^16 limbs, little endian (TLC integers are 32 bit signed)
func (o *ob) u32(k string, v uint32) {
	o.key(k)
	o.b = append(o.b, '[')
	o.b = strconv.AppendUint(o.b, uint64(v&0xffff), 10)
	o.b = append(o.b, ',')
	o.b = strconv.AppendUint(o.b, uint64(v>>16), 10)
	o.b = append(o.b, ']')
}
func (o *ob) pfv(f sipsp.PField) {
	if o.chk && o.bad == "" {
		// GetPField does buf[f.Offs : f.Offs+f.Len] in OffsT (16 bit) arithmetic
		end := f.Offs + f.Len
		if end < f.Offs || int(end) > o.n {
			o.bad = "field {Offs:" + strconv.Itoa(int(f.Offs)) + " Len:" + strconv.Itoa(int(f.Len)) + "} after " + string(o.b[max0(len(o.b)-40):])
		}
	}
	if f.Len == 0 {
		o.b = append(o.b, "[0,0]"...)
		return
	}
	o.b = append(o.b, '[')
	o.b = strconv.AppendInt(o.b, int64(int(f.Offs)-o.shift), 10)
	o.b = append(o.b, ',')
	o.b = strconv.AppendInt(o.b, int64(f.Len), 10)
	o.b = append(o.b, ']')
}
func (o *ob) pf(k string, f sipsp.PField) { o.key(k); o.pfv(f) }

func (o *ob) uintBody(p *sipsp.PUIntBody) {
	o.open('{')
	o.u32("UIVal", p.UIVal)
	o.pf("SVal", p.SVal)
	o.bool("Empty", p.Empty())
	o.bool("Parsed", p.Parsed())
	o.bool("Pending", p.Pending())
	o.close('}')
}
func (o *ob) callID(p *sipsp.PCallIDBody) {
	o.open('{')
	o.pf("CallID", p.CallID)
	o.bool("Empty", p.Empty())
	o.bool("Parsed", p.Parsed())
	o.bool("Pending", p.Pending())
	o.close('}')
}
func (o *ob) cseq(p *sipsp.PCSeqBody) {
	o.open('{')
	o.u32("CSeqNo", p.CSeqNo)
	o.int("MethodNo", int(p.MethodNo))
	o.pf("CSeq", p.CSeq)
	o.pf("Method", p.Method)
	o.pf("V", p.V)
	o.bool("Empty", p.Empty())
	o.bool("Parsed", p.Parsed())
	o.bool("Pending", p.Pending())
	o.close('}')
}
func (o *ob) fline(p *sipsp.PFLine) {
	o.open('{')
	o.int("Status", int(p.Status))
	o.int("MethodNo", int(p.MethodNo))
	o.pf("Method", p.Method)
	o.pf("URI", p.URI)
	o.pf("Version", p.Version)
	o.pf("StatusCode", p.StatusCode)
	o.pf("Reason", p.Reason)
	o.bool("Request", p.Request())
	o.bool("Empty", p.Empty())
	o.bool("Parsed", p.Parsed())
	o.bool("Pending", p.Pending())
	o.close('}')
}
func (o *ob) from(p *sipsp.PFromBody) {
	if p == nil {
		o.sep()
		o.b = append(o.b, `{"nil":true}`...)
		return
	}
	o.open('{')
	o.pf("Name", p.Name)
	o.pf("URI", p.URI)
	o.pf("Tag", p.Tag)
	o.bool("Star", p.Star)
	o.bool("LR", p.LR)
	o.bool("HasExpires", p.HasExpires)
	o.int("Type", int(p.Type))
	o.int("Q", int(p.Q))
	o.u32("Expires", p.Expires)
	o.pf("Params", p.Params)
	o.pf("V", p.V)
	o.str("ParamErr", errName(p.ParamErr))
	if p.ParamErr != 0 {
		o.int("ErrOffs", int(p.ErrOffs)-o.shift)
	} else {
		o.int("ErrOffs", int(p.ErrOffs))
	}
	o.bool("Empty", p.Empty())
	o.bool("Parsed", p.Parsed())
	o.bool("Pending", p.Pending())
	o.close('}')
}
func (o *ob) contacts(c *sipsp.PContacts) {
	o.open('{')
	o.int("N", c.N)
	o.int("HNo", c.HNo)
	o.u32("MaxExpires", c.MaxExpires)
	o.u32("MinExpires", c.MinExpires)
	o.pf("LastHVal", c.LastHVal)
	if o.lim {
		o.bool("More", c.N > o.climit)
	} else {
		o.bool("More", c.More())
	}
	o.bool("Empty", c.Empty())
	o.bool("Parsed", c.Parsed())
	o.key("Vals")
	o.b = append(o.b, '[')
	for i := 0; i < o.cut(c.VNo(), o.climit); i++ {
		o.from(&c.Vals[i])
	}
	o.b = append(o.b, ']')
	o.key("First")
	o.from(c.GetContact(0))
	o.key("Last")
	if c.N > 0 {
		o.from(c.GetContact(c.N - 1))
	} else {
		o.b = append(o.b, `{"nil":true}`...)
	}
	o.close('}')
}
func (o *ob) pais(c *sipsp.PPAIs) {
	o.open('{')
	o.int("N", c.N)
	o.int("HNo", c.HNo)
	o.pf("LastHVal", c.LastHVal)
	o.bool("More", c.More())
	o.bool("Empty", c.Empty())
	o.bool("Parsed", c.Parsed())
	o.key("Vals")
	o.b = append(o.b, '[')
	for i := 0; i < c.VNo(); i++ {
		o.from(c.GetPAI(i))
	}
	o.b = append(o.b, ']')
	o.close('}')
}
func (o *ob) hdr(h *sipsp.Hdr) {
	if h == nil {
		o.sep()
		o.b = append(o.b, `{"nil":true}`...)
		return
	}
	o.open('{')
	o.int("Type", int(h.Type))
	o.pf("Name", h.Name)
	o.pf("Val", h.Val)
	o.close('}')
}
func (o *ob) hdrLst(hl *sipsp.HdrLst) {
	o.open('{')
	o.int("PFlags", int(hl.PFlags))
	o.int("N", hl.N)
	o.key("Hdrs")
	o.b = append(o.b, '[')
	n := hl.N
	if n > len(hl.Hdrs) {
		n = len(hl.Hdrs)
	}
	n = o.cut(n, o.hlimit)
	for i := 0; i < n; i++ {
		o.hdr(&hl.Hdrs[i])
	}
	o.b = append(o.b, ']')
	o.key("First")
	o.b = append(o.b, '[')
	for t := sipsp.HdrFrom; t < sipsp.HdrOther; t++ {
		o.hdr(hl.GetHdr(t))
	}
	o.b = append(o.b, ']')
	o.close('}')
}
func (o *ob) hdrVals(pv *sipsp.PHdrVals) {
	o.open('{')
	o.key("From")
	o.from(&pv.From)
	o.key("To")
	o.from(&pv.To)
	o.key("Callid")
	o.callID(&pv.Callid)
	o.key("CSeq")
	o.cseq(&pv.CSeq)
	o.key("CLen")
	o.uintBody(&pv.CLen)
	o.key("Contacts")
	o.contacts(&pv.Contacts)
	o.key("PAIs")
	o.pais(&pv.PAIs)
	o.key("Expires")
	o.uintBody(&pv.Expires)
	mx, ok := pv.MaxExpires()
	o.u32("MaxExpires", mx)
	o.bool("MaxExpiresOk", ok)
	o.close('}')
}

// rawAt returns the position of slice s inside buf's backing array (or -1).
func rawAt(buf, s []byte) int {
	if cap(s) == 0 || cap(buf) == 0 {
		if len(s) == 0 {
			return 0
		}
		return -1
	}
	bp := uintptr(unsafe.Pointer(unsafe.SliceData(buf)))
	sp := uintptr(unsafe.Pointer(unsafe.SliceData(s)))
	if sp < bp || sp > bp+uintptr(cap(buf)) {
		return -1
	}
	return int(sp - bp)
}

func (o *ob) msg(m *sipsp.PSIPMsg, buf []byte) {
	o.open('{')
	o.key("FL")
	o.fline(&m.FL)
	o.key("PV")
	o.hdrVals(&m.PV)
	o.key("HL")
	o.hdrLst(&m.HL)
	o.pf("Body", m.Body)
	o.key("RawMsg")
	if len(m.RawMsg) == 0 {
		o.b = append(o.b, "[0,0]"...)
	} else {
		at := rawAt(buf, m.RawMsg)
		if at >= 0 {
			at -= o.shift
		}
		o.b = append(o.b, '[')
		o.b = strconv.AppendInt(o.b, int64(at), 10)
		o.b = append(o.b, ',')
		o.b = strconv.AppendInt(o.b, int64(len(m.RawMsg)), 10)
		o.b = append(o.b, ']')
	}
	o.bool("Parsed", m.Parsed())
	o.bool("Err", m.Err())
	o.bool("Request", m.Request())
	o.int("Method", int(m.Method()))
	o.close('}')
}
func (o *ob) tokParam(p *sipsp.PTokParam) {
	o.open('{')
	o.pf("All", p.All)
	o.pf("Name", p.Name)
	o.pf("Val", p.Val)
	o.bool("Empty", p.Empty())
	o.close('}')
}
func (o *ob) uriParams(l *sipsp.URIParamsLst) {
	o.open('{')
	o.int("N", l.N)
	o.int("Types", int(l.Types))
	if o.lim {
		o.bool("More", l.N > o.plimit)
	} else {
		o.bool("More", l.More())
	}
	o.bool("Empty", l.Empty())
	o.key("Params")
	o.b = append(o.b, '[')
	for i := 0; i < o.cut(l.PNo(), o.plimit); i++ {
		o.open('{')
		o.key("Param")
		o.tokParam(&l.Params[i].Param)
		o.int("T", int(l.Params[i].T))
		o.close('}')
	}
	o.b = append(o.b, ']')
	o.close('}')
}
func (o *ob) uriHdrs(l *sipsp.URIHdrsLst) {
	o.open('{')
	o.int("N", l.N)
	if o.lim {
		o.bool("More", l.N > o.plimit)
	} else {
		o.bool("More", l.More())
	}
	o.bool("Empty", l.Empty())
	o.key("Hdrs")
	o.b = append(o.b, '[')
	for i := 0; i < o.cut(l.HNo(), o.plimit); i++ {
		o.tokParam((*sipsp.PTokParam)(&l.Hdrs[i]))
	}
	o.b = append(o.b, ']')
	o.close('}')
}
func (o *ob) uri(u *sipsp.PsipURI) {
	o.open('{')
	o.int("URIType", int(u.URIType))
	o.pf("Scheme", u.Scheme)
	o.pf("User", u.User)
	o.pf("Pass", u.Pass)
	o.pf("Host", u.Host)
	o.pf("Port", u.Port)
	o.pf("Params", u.Params)
	o.pf("Headers", u.Headers)
	o.int("PortNo", int(u.PortNo))
	o.close('}')
}
