package main

// pipeline (C06): messages laid back to back in one buffer, parsed one after another from each
// returned offset with a Reset object, must give the same results as each message parsed alone
// (PipelineEqAlone, spec/Props.tla): same verdict, same length, same observation shifted by the
// message's start offset.  Only self-delimiting messages can be pipelined: a message without
// Content-Length parsed with neither skip-body nor CLen-required has, by definition, the rest of
// the buffer as body.

import (
	"bufio"
	"encoding/json"
	"fmt"
	"os"
	"sync"

	"github.com/intuitivelabs/sipsp"
)

func init() { modes["pipeline"] = runPipeline }

func loadInputs(path string) [][]byte {
	var out [][]byte
	f, err := os.Open(path)
	if err != nil {
		fmt.Fprintln(os.Stderr, err)
		os.Exit(2)
	}
	defer f.Close()
	sc := bufio.NewScanner(f)
	sc.Buffer(make([]byte, 1<<20), 1<<26)
	for sc.Scan() {
		var a []int
		if json.Unmarshal(sc.Bytes(), &a) == nil {
			out = append(out, bytesOf(a))
		}
	}
	return out
}

func runPipeline(job *Job) Result {
	msgs := loadInputs(job.InputsFile)
	depth := 3
	if d, ok := job.Extra["depth"].(float64); ok {
		depth = int(d)
	}
	var res Result
	var mu sync.Mutex
	var wg sync.WaitGroup
	W := job.Workers
	for w := 0; w < W; w++ {
		wg.Add(1)
		go func(w int) {
			defer wg.Done()
			var st Stats
			var viol []Violation
			for _, c := range job.Cfgs {
				// alone results
				type alone struct {
					ok  bool
					n   int
					v   string
					obs string
				}
				al := make([]alone, len(msgs))
				for i, m := range msgs {
					x := NewObj(c).(*msgObj)
					o, v := Call(x, m, 0)
					selfDelim := x.m.PV.CLen.Parsed() || c.Flags&3 != 0
					// a body truncated in no-more-data mode is not a complete message: it must also be
					// complete when parsed without that flag
					c2 := c
					c2.Flags &^= 4
					y := NewObj(c2).(*msgObj)
					o2, v2 := Call(y, m, 0)
					al[i] = alone{ok: v == "ok" && o == len(m) && selfDelim && v2 == "ok" && o2 == o, n: o, v: v, obs: Obs(x, m, 0)}
				}
				for i := w; i < len(msgs); i += W {
					var buf []byte
					var idx []int
					for j, k := i, 0; k < depth && j < i+4*depth; j++ {
						if al[j%len(msgs)].ok {
							idx = append(idx, j%len(msgs))
							buf = append(buf, msgs[j%len(msgs)]...)
							k++
						}
					}
					if len(idx) < 2 {
						continue
					}
					st.Inputs++
					x := NewObj(c).(*msgObj)
					offs := 0
					for k, mi := range idx {
						if k > 0 {
							x.reset()
						}
						start := offs
						// the last message of the pipeline may legitimately see "more bytes" only if alone did
						o, v := Call(x, buf, offs)
						st.Calls++
						st.Pairs++
						got := Obs(x, buf, start)
						want := al[mi]
						if v != want.v || o-start != want.n || got != want.obs {
							if len(viol) < job.MaxViol {
								viol = append(viol, Violation{Prop: "C06", What: "pipelined message parsed differently from the same message alone",
									Cfg: c, Input: toInts(buf), Text: fmt.Sprintf("%q", buf), Cuts: []int{start}, Sig: "pipeline",
									Detail: fmt.Sprintf("message %d at offset %d: (%s,%d) %s\nalone: (%s,%d) %s", k, start, v, o-start, got, want.v, want.n, want.obs)})
							}
							break
						}
						st.Successes++
						offs = o
					}
					if offs != len(buf) {
						continue
					}
					// ... followed by an INCOMPLETE message: whatever the parser answers for the truncated message alone
					// (more bytes, truncated body in no-more-data mode, an error) it must answer at the later offset too
					nxt := msgs[(idx[len(idx)-1]+1)%len(msgs)]
					for _, t := range []int{len(nxt) - 1, len(nxt) - 3, len(nxt) / 2, 15} {
						if t <= 0 || t >= len(nxt) {
							continue
						}
						part := nxt[:t]
						y := NewObj(c).(*msgObj)
						ao, av := Call(y, part, 0)
						aobs := Obs(y, part, 0)
						buf2 := append(append([]byte(nil), buf...), part...)
						x.reset()
						po, pv := Call(x, buf2, len(buf))
						st.Calls += 2
						st.Pairs++
						pobs := Obs(x, buf2, len(buf))
						if pv != av || (pv != "PANIC" && po-len(buf) != ao) || (pv != "more" && pv != "PANIC" && pobs != aobs) {
							if len(viol) < job.MaxViol {
								viol = append(viol, Violation{Prop: "C06", What: "incomplete message after pipelined messages parsed differently from the same bytes alone",
									Cfg: c, Input: toInts(buf2), Text: fmt.Sprintf("%q", buf2), Cuts: []int{len(buf)}, Sig: "pipeline-tail",
									Detail: fmt.Sprintf("at offset %d: (%s,%d) %s\nalone: (%s,%d) %s", len(buf), pv, po-len(buf), pobs, av, ao, aobs)})
							}
						}
					}
				}
			}
			mu.Lock()
			res.Stats.add(&st)
			res.Violations = append(res.Violations, viol...)
			mu.Unlock()
		}(w)
	}
	wg.Wait()
	_ = sipsp.ErrHdrOk
	if len(msgs) > 0 {
		res.Samples = append(res.Samples, fmt.Sprintf("%q ++ %q ++ ...", msgs[0], msgs[len(msgs)/2]))
	}
	return res
}
