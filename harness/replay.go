package main

// Oracle replay (DESIGN §4.2 M1/M2): every record printed by TLC — a wire, the cut schedule that
// reached a model state, and what the model says the caller sees there — is executed on the real
// code.  src = "auto": the transcription; a difference is DRIFT (model vs code), never a verdict.
// src = "decl": the intended decomposition by construction; a difference on the listed keys is a
// violation of the record's property.  Drifted real records are written out for TLC to judge.

import (
	"bufio"
	"bytes"
	"encoding/json"
	"fmt"
	"os"
	"regexp"
	"strconv"
	"strings"
)

type Rec struct {
	K    string          `json:"k"`
	Cfg  Cfg             `json:"cfg"`
	Wire []int           `json:"wire"`
	Cuts []int           `json:"cuts"`
	Offs int             `json:"offs"`
	Err  string          `json:"err"`
	Errs []string        `json:"errs"` // decl: any of these verdicts is acceptable
	Obs  json.RawMessage `json:"obs"`
	Src  string          `json:"src"`
	Prop string          `json:"prop"`
	Fn   string          `json:"fn"`
	Args json.RawMessage `json:"args"`
	Res  json.RawMessage `json:"res"`
	// C19 (GetMsgSig) records: metamorphic group, trunc-or-same alternative, rendered-string prefix
	Grp    string          `json:"grp"`
	Alt    json.RawMessage `json:"alt"`
	Same   json.RawMessage `json:"same"`
	Full   json.RawMessage `json:"full"`
	StrHdr *string         `json:"strhdr"`
	Layer  string          `json:"layer"`
	// C12 history records: steps {wire, cuts} and {reset: true} / {init: true} applied to ONE object
	Hist []struct {
		Wire  []int `json:"wire"`
		Cuts  []int `json:"cuts"`
		Reset bool  `json:"reset"`
		Init  bool  `json:"init"`
	} `json:"hist"`
}

var sigStringRe = regexp.MustCompile(`^([0-9a-f][0-9a-f]{0,8}I[0-9a-f]{6}F[0-9a-f]{4}V[0-9a-f]{4})?$`)

// sigPart: the signature proper (without the parse offset, which differs between variants of a message)
func sigPart(res string) string {
	m, _ := parseAny(res).(map[string]interface{})
	if m == nil {
		return res
	}
	delete(m, "poffs")
	b, _ := json.Marshal(m)
	return string(b)
}

func canon(raw []byte) string {
	var v interface{}
	d := json.NewDecoder(bytes.NewReader(raw))
	d.UseNumber()
	if err := d.Decode(&v); err != nil {
		return "ERR:" + err.Error()
	}
	b, _ := json.Marshal(v)
	return string(b)
}

// subset: every key present in want (recursively) has the same value in got
func subset(want, got interface{}, path string) string {
	switch w := want.(type) {
	case map[string]interface{}:
		g, ok := got.(map[string]interface{})
		if !ok {
			return path + ": not an object"
		}
		for k, wv := range w {
			if len(k) > 1 && k[0] == 'n' { // "nX": the value of X must DIFFER from this one
				if gv, ok := g[k[1:]]; ok {
					if fmt.Sprint(wv) == fmt.Sprint(gv) {
						return fmt.Sprintf("%s.%s: must not be %v", path, k[1:], wv)
					}
					continue
				}
			}
			gv, ok := g[k]
			if !ok {
				return path + "." + k + ": missing"
			}
			if d := subset(wv, gv, path+"."+k); d != "" {
				return d
			}
		}
		return ""
	case []interface{}:
		g, ok := got.([]interface{})
		if !ok || len(g) != len(w) {
			return fmt.Sprintf("%s: want %v got %v", path, want, got)
		}
		for i := range w {
			if d := subset(w[i], g[i], path+"["+strconv.Itoa(i)+"]"); d != "" {
				return d
			}
		}
		return ""
	default:
		if fmt.Sprint(want) != fmt.Sprint(got) {
			return fmt.Sprintf("%s: want %v got %v", path, want, got)
		}
		return ""
	}
}

func parseAny(s string) interface{} {
	var v interface{}
	d := json.NewDecoder(strings.NewReader(s))
	d.UseNumber()
	d.Decode(&v)
	return v
}

var grpSig = map[string]string{}
var grpArg = map[string]string{}

func runReplay(job *Job) Result {
	f, err := os.Open(job.InputsFile)
	if err != nil {
		fmt.Fprintln(os.Stderr, err)
		os.Exit(2)
	}
	defer f.Close()
	var res Result
	res.Extra = map[string]interface{}{}
	var driftOut *bufio.Writer
	if p, ok := job.Extra["drift_out"].(string); ok && p != "" {
		df, err := os.Create(p)
		if err != nil {
			fmt.Fprintln(os.Stderr, err)
			os.Exit(2)
		}
		defer df.Close()
		driftOut = bufio.NewWriter(df)
		defer driftOut.Flush()
	}
	dumpAll, _ := job.Extra["dump_all"].(bool)
	sc := bufio.NewScanner(f)
	sc.Buffer(make([]byte, 1<<20), 1<<26)
	var nrec, drift, declBad int64
	var driftSamples []string
	for sc.Scan() {
		line := sc.Text()
		if !strings.HasPrefix(line, "\"{") {
			continue
		}
		s, err := strconv.Unquote(line)
		if err != nil {
			continue
		}
		if strings.HasPrefix(s, `{"il":`) { // interleaving record (MC_Stream2): two real objects, calls in the given order
			nrec++
			if d := replayInterleaving(s, &res); d != "" {
				declBad++
				if len(res.Violations) < job.MaxViol {
					res.Violations = append(res.Violations, Violation{Prop: "C04", What: "calls on distinct objects influence one another when interleaved",
						Text: s[:200], Detail: d, Sig: "interleave"})
				}
			}
			continue
		}
		var r Rec
		if err := json.Unmarshal([]byte(s), &r); err != nil {
			fmt.Fprintln(os.Stderr, "bad record:", err, s)
			os.Exit(2)
		}
		nrec++
		if r.Fn != "" {
			args := r.Args
			if r.Fn == "GetMsgSig" && len(r.Cuts) == 2 { // chunk schedule for the message behind the signature
				var m map[string]interface{}
				json.Unmarshal(r.Args, &m)
				m["cut"] = r.Cuts[0]
				args, _ = json.Marshal(m)
			}
			got := callFn(r.Fn, args)
			res.Stats.Calls++
			if got == `{"panic":true}` && canon(r.Res) != got && len(res.Violations) < job.MaxViol {
				// C04: an exported function panicked on an input for which the model predicts a result
				res.Violations = append(res.Violations, Violation{Prop: "C04", What: "exported function panics", Text: r.Fn + string(args),
					Detail: "panic: " + lastPanic, Sig: "fn-panic:" + r.Fn})
			}
			bad := ""
			if r.Src == "decl" {
				bad = subset(parseAny(string(r.Res)), parseAny(got), "res")
			} else if canon(r.Res) != canon([]byte(got)) {
				bad = "differs"
			}
			if r.Fn == "ParseURIReset" && strings.Contains(got, `"same":false`) {
				// C12: after Reset() a parsed-URI object behaves like a new one (real against real)
				declBad++
				if len(res.Violations) < job.MaxViol {
					res.Violations = append(res.Violations, Violation{Prop: "C12", What: "a parsed-URI object used before and Reset() differs from a new one",
						Text: r.Fn + string(args), Detail: "real: " + got, Sig: "urireset"})
				}
				continue
			}
			if (r.Fn == "URIParamsEq" || r.Fn == "URIHdrsEq") && strings.Contains(got, `"shifted":`) {
				// C15 (entry points agree): the comparison of two lists must not depend on where they sit in their buffers
				declBad++
				if len(res.Violations) < job.MaxViol {
					res.Violations = append(res.Violations, Violation{Prop: "C15", What: "list comparison depends on the offsets of the lists in their buffers",
						Text: r.Fn + string(args), Detail: "real: " + got, Sig: "shift:" + r.Fn})
				}
				continue
			}
			if r.Fn == "URICmp" && bad == "" {
				bad = uriCmpLaws(r.Args, got)
				if bad != "" {
					r.Src = "decl"
					if r.Prop == "" {
						r.Prop = "C15"
					}
				}
			}
			if (r.Fn == "GetCallIDSig" || r.Fn == "GetViaBrSig") && r.Grp != "" {
				// C19, real against real: strings with the same character-class sequence get the same signature
				key := r.Fn + "|" + r.Grp
				if first, ok := grpSig[key]; !ok {
					grpSig[key] = got
					grpArg[key] = string(args)
				} else if first != got {
					declBad++
					if len(res.Violations) < job.MaxViol {
						res.Violations = append(res.Violations, Violation{Prop: "C19", What: "two strings with the same character classes get different signatures",
							Text: r.Fn + string(args), Detail: "real: " + got + "\nother string: " + grpArg[key] + "\nreal: " + first, Sig: "class:" + r.Fn})
					}
				}
			}
			if r.Fn == "GetMsgSig" && bad == "" {
				gm, _ := parseAny(got).(map[string]interface{})
				str, _ := gm["String"].(string)
				if !sigStringRe.MatchString(str) {
					bad = "text rendering not well formed: " + str
				}
				if bad == "" && r.StrHdr != nil && gm["err"] != nil {
					if (*r.StrHdr == "" && str != "") || (*r.StrHdr != "" && !strings.HasPrefix(str, *r.StrHdr+"I")) {
						bad = "rendering " + str + " does not start with " + *r.StrHdr + "I"
					}
				}
				if bad == "" && len(r.Alt) > 0 { // headers do not fit: explicit truncated indication, or the same signature
					if gm["err"] != "trunc" {
						if d := subset(parseAny(string(r.Same)), parseAny(got), "same"); d != "" {
							bad = "neither truncated nor the full-capacity signature: " + d
						} else if full := callFn(r.Fn, r.Full); sigPart(full) != sigPart(got) {
							bad = "neither truncated nor equal to the signature with an ample header array: " + sigPart(full)
						}
					}
				}
				if bad == "" && r.Grp != "" && r.Layer != "auto" {
					if first, ok := grpSig[r.Grp]; !ok {
						grpSig[r.Grp] = sigPart(got)
					} else if first != sigPart(got) {
						bad = "signature differs from another message with the same fingerprinted content: " + first
					}
				}
			}
			if r.Layer == "auto" && bad != "" {
				// the expectation comes from the transcription, not from a declarative statement: model/code drift, never a verdict
				r.Src = "auto"
			}
			if bad != "" && r.Src == "decl" {
				declBad++
				if len(res.Violations) < job.MaxViol {
					res.Violations = append(res.Violations, Violation{Prop: r.Prop, What: "real result differs from the intended result",
						Text: r.Fn + string(r.Args), Detail: bad + "\nreal: " + got, Sig: "decl:" + r.Fn})
				}
			} else if bad != "" || dumpAll {
				if bad == "" || dumpAll {
					rr, _ := json.Marshal(map[string]interface{}{"fn": r.Fn, "args": r.Args, "res": json.RawMessage(got)})
					driftOut.Write(rr)
					driftOut.WriteByte('\n')
					continue
				}
				drift++
				if len(driftSamples) < 10 {
					driftSamples = append(driftSamples, fmt.Sprintf("%s%s: model %s | code %s", r.Fn, r.Args, canon(r.Res), canon([]byte(got))))
				}
				if driftOut != nil {
					rr, _ := json.Marshal(map[string]interface{}{"fn": r.Fn, "args": r.Args, "res": json.RawMessage(got)})
					driftOut.Write(rr)
					driftOut.WriteByte('\n')
				}
			}
			if nrec%5000 == 1 && len(res.Samples) < 8 {
				res.Samples = append(res.Samples, r.Fn+string(r.Args)+" -> "+got)
			}
			continue
		}
		c := r.Cfg
		if c.Kind == "" {
			c.Kind = r.K
		}
		buf := bytesOf(r.Wire)
		x := NewObj(c)
		if len(r.Hist) > 0 { // everything but the last step: use, reset, ... ; the last step is replayed below
			for _, st := range r.Hist[:len(r.Hist)-1] {
				if st.Reset {
					x.reset()
					continue
				}
				if st.Init {
					if ri, ok := x.(reiniter); ok {
						ri.reinit()
					} else {
						x.reset()
					}
					continue
				}
				hb := bytesOf(st.Wire)
				o := c.Start
				for _, cut := range st.Cuts {
					var v string
					o, v = Call(x, prefixOf(hb, cut), o)
					res.Stats.Calls++
					if v != "more" {
						break
					}
				}
			}
		}
		offs := c.Start
		verdict := "more"
		cuts := r.Cuts
		if len(cuts) == 0 {
			cuts = []int{len(buf)}
		}
		var last []byte
		for _, cut := range cuts {
			last = prefixOf(buf, cut)
			offs, verdict = Call(x, last, offs)
			res.Stats.Calls++
			if verdict != "more" {
				break
			}
		}
		got := Obs(x, last, 0)
		if dumpAll && driftOut != nil {
			rr, _ := json.Marshal(map[string]interface{}{"k": c.Kind, "cfg": c, "wire": r.Wire, "cuts": r.Cuts,
				"offs": offs, "err": verdict, "obs": json.RawMessage(got)})
			driftOut.Write(rr)
			driftOut.WriteByte('\n')
		}
		if r.Src == "gen" { // a generated behaviour without expectations: executed, counted
			if nrec%2000 == 1 && len(res.Samples) < 8 {
				res.Samples = append(res.Samples, fmt.Sprintf("%q -> (%s,%d)", buf, verdict, offs))
			}
			continue
		}
		if r.Src == "decl" {
			okv := verdict == r.Err
			if r.Err == "ERR" && isErrVerdict(verdict) {
				okv = true
			}
			for _, e := range r.Errs {
				if e == verdict || (e == "ERR" && isErrVerdict(verdict)) {
					okv = true
				}
			}
			d := ""
			if !okv {
				d = fmt.Sprintf("verdict %s, intended %s %v", verdict, r.Err, r.Errs)
			} else if r.Offs >= 0 && offs != r.Offs && len(r.Errs) == 0 {
				d = fmt.Sprintf("offset %d, intended %d", offs, r.Offs)
			} else if len(r.Obs) > 0 && !isErrVerdict(verdict) {
				d = subset(parseAny(string(r.Obs)), parseAny(got), "obs")
			}
			if d != "" {
				declBad++
				if len(res.Violations) < job.MaxViol {
					res.Violations = append(res.Violations, Violation{Prop: r.Prop, What: "real result differs from the intended decomposition",
						Cfg: c, Input: r.Wire, Text: fmt.Sprintf("%q", buf), Cuts: r.Cuts, Detail: d + "\nreal: " + got, Sig: "decl:" + c.Kind})
				}
			}
			continue
		}
		want := canon(r.Obs)
		gotc := canon([]byte(got))
		if verdict != r.Err || (verdict != "PANIC" && offs != r.Offs) || (verdict != "PANIC" && want != gotc) {
			drift++
			if len(driftSamples) < 10 {
				driftSamples = append(driftSamples, fmt.Sprintf("%q cuts=%v cfg=%s: model (%s,%d) %s | code (%s,%d) %s",
					buf, r.Cuts, c, r.Err, r.Offs, want, verdict, offs, gotc))
			}
			if driftOut != nil {
				rr, _ := json.Marshal(map[string]interface{}{"k": c.Kind, "cfg": c, "wire": r.Wire, "cuts": r.Cuts,
					"offs": offs, "err": verdict, "obs": json.RawMessage(got)})
				driftOut.Write(rr)
				driftOut.WriteByte('\n')
			}
		}
		if nrec%5000 == 1 && len(res.Samples) < 8 {
			res.Samples = append(res.Samples, fmt.Sprintf("%q cuts=%v -> (%s,%d)", buf, r.Cuts, verdict, offs))
		}
	}
	res.Stats.Inputs = nrec
	res.Extra["records"] = nrec
	res.Extra["drift"] = drift
	res.Extra["decl_mismatch"] = declBad
	res.Extra["drift_samples"] = driftSamples
	return res
}

// uriCmpLaws (C15, relational part on REAL results): the entry points agree with separate parsing (incl. the URIs handed
// back), comparison is symmetric, and ignoring one more component can only turn "different" into "equal".
func uriCmpLaws(args json.RawMessage, got string) string {
	g, _ := parseAny(got).(map[string]interface{})
	if g == nil || g["err1"] != "ok" || g["err2"] != "ok" {
		return ""
	}
	eq, _ := g["eq"].(bool)
	if g["peq"] != g["eq"] || g["req"] != g["eq"] || g["perr"] != "ok" || g["rerr"] != "ok" || g["r1ok"] != true || g["r2ok"] != true {
		return "entry points disagree with parsing each URI separately: " + got
	}
	var a fnArgs
	json.Unmarshal(args, &a)
	sw, _ := json.Marshal(map[string]interface{}{"s": a.S2, "s2": a.S, "flags": a.Flags})
	if h, _ := parseAny(callFn("URICmp", sw)).(map[string]interface{}); h != nil && h["eq"] != g["eq"] {
		return fmt.Sprintf("not symmetric: eq(a,b)=%v eq(b,a)=%v", g["eq"], h["eq"])
	}
	if eq {
		for bit := 1; bit < 64; bit <<= 1 {
			if a.Flags&bit != 0 {
				continue
			}
			mo, _ := json.Marshal(map[string]interface{}{"s": a.S, "s2": a.S2, "flags": a.Flags | bit})
			if h, _ := parseAny(callFn("URICmp", mo)).(map[string]interface{}); h != nil && h["eq"] != true {
				return fmt.Sprintf("ignoring one more component (flag %d) turned equal into different", bit)
			}
		}
	}
	return ""
}

type ilSide struct {
	Cfg  Cfg             `json:"cfg"`
	Wire []int           `json:"wire"`
	Cuts []int           `json:"cuts"`
	Offs int             `json:"offs"`
	Err  string          `json:"err"`
	Obs  json.RawMessage `json:"obs"`
}

// replayInterleaving executes the calls of two real objects in the order TLC chose and compares each object's result
// with (a) its solo run on the real code -- the isolation property -- and reports model differences as a note only.
func replayInterleaving(s string, res *Result) string {
	var rec struct {
		IL struct {
			Order []int  `json:"order"`
			A     ilSide `json:"a"`
			B     ilSide `json:"b"`
		} `json:"il"`
	}
	if err := json.Unmarshal([]byte(s), &rec); err != nil {
		return "bad interleaving record: " + err.Error()
	}
	sides := []*ilSide{&rec.IL.A, &rec.IL.B}
	solo := func(sd *ilSide) (int, string, string) {
		x := NewObj(sd.Cfg)
		buf := bytesOf(sd.Wire)
		offs, v := sd.Cfg.Start, "more"
		var last []byte
		for _, cut := range sd.Cuts {
			last = prefixOf(buf, cut)
			offs, v = Call(x, last, offs)
			res.Stats.Calls++
			if v != "more" {
				break
			}
		}
		return offs, v, Obs(x, last, 0)
	}
	objs := []Obj{NewObj(sides[0].Cfg), NewObj(sides[1].Cfg)}
	offs := []int{sides[0].Cfg.Start, sides[1].Cfg.Start}
	verd := []string{"more", "more"}
	k := []int{0, 0}
	lasts := [][]byte{nil, nil}
	for _, w := range rec.IL.Order {
		i := w - 1
		if verd[i] != "more" || k[i] >= len(sides[i].Cuts) {
			continue
		}
		buf := bytesOf(sides[i].Wire)
		lasts[i] = prefixOf(buf, sides[i].Cuts[k[i]])
		offs[i], verd[i] = Call(objs[i], lasts[i], offs[i])
		res.Stats.Calls++
		k[i]++
	}
	for i := 0; i < 2; i++ {
		so, sv, sobs := solo(sides[i])
		got := Obs(objs[i], lasts[i], 0)
		if so != offs[i] || sv != verd[i] || sobs != got {
			return fmt.Sprintf("object %d (%s) interleaved %v: (%s,%d) %s | alone: (%s,%d) %s", i+1, sides[i].Cfg, rec.IL.Order, verd[i], offs[i], trunc(got, 300), sv, so, trunc(sobs, 300))
		}
	}
	res.Stats.Pairs++
	return ""
}
