package main

// trace (M3, DESIGN §4.2): records real executions as ndjson for spec/Trace_Stream.tla.
// One event per public call, logged at its return (sequential library => that is the linearisation
// point): arguments, returned offset, verdict, π after the call, and the PAIRED observation of a
// fresh real object on the same prefix, which is what the relational invariants read.

import (
	"bufio"
	"encoding/json"
	"fmt"
	"os"
	"strings"
)

func init() { modes["trace"] = runTrace }

type xorshift uint64

func (x *xorshift) next() uint64 {
	v := uint64(*x)
	v ^= v << 13
	v ^= v >> 7
	v ^= v << 17
	*x = xorshift(v)
	return v
}

func runTrace(job *Job) Result {
	inputs := loadInputs(job.InputsFile)
	out, _ := job.Extra["trace_out"].(string)
	f, err := os.Create(out)
	if err != nil {
		fmt.Fprintln(os.Stderr, err)
		os.Exit(2)
	}
	defer f.Close()
	w := bufio.NewWriter(f)
	defer w.Flush()
	maxEv := 3000
	if m, ok := job.Extra["max_events"].(float64); ok {
		maxEv = int(m)
	}
	corrupt := -1 // binding demonstration: corrupt the logged offset of the n-th call event
	if c, ok := job.Extra["corrupt_call"].(float64); ok {
		corrupt = int(c)
	}
	rng := xorshift(uint64(job.Seed)*2654435761 + 88172645463325252)
	var res Result
	emit := func(v map[string]interface{}) {
		b, _ := json.Marshal(v)
		w.Write(b)
		w.WriteByte('\n')
		res.Stats.Inputs++
	}
	ncall := 0
	for i := 0; int(res.Stats.Inputs) < maxEv && i < 4*len(inputs); i++ {
		in := inputs[int(rng.next()%uint64(len(inputs)))]
		c := job.Cfgs[int(rng.next()%uint64(len(job.Cfgs)))]
		if c.Start > 0 {
			pre := make([]byte, c.Start)
			for j := range pre {
				pre[j] = "\"<;\r\n9,x"[j%8]
			}
			in = append(pre, in...)
		}
		if len(in) <= c.Start {
			continue
		}
		x := NewObj(c)
		emit(map[string]interface{}{"ev": "new", "cfg": c})
		res.Stats.Pairs++ // traces
		// random schedule: 1..6 cuts
		k := 1 + int(rng.next()%6)
		cuts := map[int]bool{len(in): true}
		for j := 0; j < k; j++ {
			cuts[c.Start+1+int(rng.next()%uint64(len(in)-c.Start))] = true
		}
		offs, sent := c.Start, 0
		for p := c.Start + 1; p <= len(in); p++ {
			if !cuts[p] {
				continue
			}
			emit(map[string]interface{}{"ev": "send", "bytes": toInts(in[sent:p])})
			sent = p
			b := prefixOf(in, p)
			o, v := Call(x, b, offs)
			y := NewObj(c)
			fo, fv := Call(y, b, c.Start)
			res.Stats.Calls += 2
			ev := map[string]interface{}{"ev": "call", "in": offs, "out": o, "err": v, "obs": json.RawMessage(Obs(x, b, 0)),
				"fresh": map[string]interface{}{"out": fo, "err": fv, "obs": json.RawMessage(Obs(y, b, 0))}}
			if corrupt >= 0 && ncall >= corrupt && v != "more" && v != "PANIC" {
				// binding demonstration: the SAME wrong value in the real and in the paired fresh observation, so
				// that only conformance with the model (not a relational formula) can notice it
				a, b2 := Obs(x, b, 0), Obs(y, b, 0)
				if a == b2 && strings.Contains(a, "true") {
					a = strings.Replace(a, "true", "false", 1)
					ev["obs"] = json.RawMessage(a)
					ev["fresh"].(map[string]interface{})["obs"] = json.RawMessage(a)
					corrupt = -1
				}
			}
			ncall++
			emit(ev)
			if v != "more" {
				break
			}
			offs = o
		}
	}
	res.Samples = []string{fmt.Sprintf("%d events, %d traces, %d call events", res.Stats.Inputs, res.Stats.Pairs, ncall)}
	res.Extra = map[string]interface{}{"events": res.Stats.Inputs, "traces": res.Stats.Pairs, "calls": ncall}
	return res
}
