------------------------------- MODULE BigNat -------------------------------
(***************************************************************************)
(* TLC integers are 32 bit signed.  uint32 / uint64 / Go int accumulators   *)
(* are little-endian sequences of base 2^16 limbs.                          *)
(***************************************************************************)
EXTENDS Integers, Sequences

LB == 65536

NatLimbs(k, v) == SubSeq([j \in 1..k |-> IF j = 1 THEN v ELSE 0], 1, k)   \* small v (< 65536) as k limbs (a real tuple)
Zero(k) == NatLimbs(k, 0)

\* (a*10 + d) mod 2^(16k), a has k limbs
RECURSIVE MA10(_, _, _, _)
MA10(a, j, carry, acc) ==
    IF j > Len(a) THEN acc
    ELSE LET t == a[j] * 10 + carry IN MA10(a, j + 1, t \div LB, Append(acc, t % LB))
MulAdd10(a, d) == MA10(a, 1, d, <<>>)
\* the overflow out of the top limb of a*10+d (0 when it fits)
RECURSIVE MA10c(_, _, _)
MA10c(a, j, carry) == IF j > Len(a) THEN carry ELSE MA10c(a, j + 1, (a[j] * 10 + carry) \div LB)
MulAdd10Carry(a, d) == MA10c(a, 1, d)

\* a*m + c for small m, c (m*65535 + c < 2^31), wrapping at Len(a) limbs
RECURSIVE MAS(_, _, _, _, _)
MAS(a, m, j, carry, acc) ==
    IF j > Len(a) THEN acc
    ELSE LET t == a[j] * m + carry IN MAS(a, m, j + 1, t \div LB, Append(acc, t % LB))
MulAddSmall(a, m, c) == MAS(a, m, 1, c, <<>>)

RECURSIVE CmpFrom(_, _, _)
CmpFrom(a, b, j) == IF j = 0 THEN 0
                    ELSE IF a[j] < b[j] THEN -1 ELSE IF a[j] > b[j] THEN 1 ELSE CmpFrom(a, b, j - 1)
Cmp(a, b)  == CmpFrom(a, b, Len(a))              \* same number of limbs
Less(a, b) == Cmp(a, b) < 0
LessEq(a, b) == Cmp(a, b) <= 0

\* truncate / extend to k limbs (Go integer conversion between unsigned widths)
Resize(a, k) == SubSeq([j \in 1..k |-> IF j <= Len(a) THEN a[j] ELSE 0], 1, k)
IsSmall(a)   == \A j \in 2..Len(a) : a[j] = 0     \* value < 65536
Small(a)     == a[1]

\* value of a decimal digit string (sequence of bytes 48..57), in k limbs, wrapping
RECURSIVE DecFrom(_, _, _)
DecFrom(ds, j, acc) == IF j > Len(ds) THEN acc ELSE DecFrom(ds, j + 1, MulAdd10(acc, ds[j] - 48))
DecValue(ds, k) == DecFrom(ds, 1, Zero(k))
\* does the decimal string fit in k limbs without wrapping?
RECURSIVE DecFitsFrom(_, _, _)
DecFitsFrom(ds, j, acc) == IF j > Len(ds) THEN TRUE
                           ELSE IF MulAdd10Carry(acc, ds[j] - 48) # 0 THEN FALSE
                           ELSE DecFitsFrom(ds, j + 1, MulAdd10(acc, ds[j] - 48))
DecFits(ds, k) == DecFitsFrom(ds, 1, Zero(k))

U32Max == <<65535, 65535>>
=============================================================================
