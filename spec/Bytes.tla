------------------------------- MODULE Bytes -------------------------------
(***************************************************************************)
(* Byte values and byte classes, exactly the ranges the Go code tests.      *)
(* Buffers are sequences of integers 0..255; B(buf,i) is Go's buf[i].       *)
(* OffsMod is the modulus of the 16 bit OffsT type (65536 when the spec is  *)
(* bound to the code, small in the scaled wrap-around configuration).       *)
(***************************************************************************)
EXTENDS Integers, Sequences

CONSTANT OffsMod

B(buf, i) == buf[i + 1]

HT == 9      LF == 10     CR == 13     SP == 32
DQUOTE == 34 PCT == 37    AMP == 38    SQUOTE == 39
LPAREN == 40 RPAREN == 41 STAR == 42   PLUS == 43   COMMA == 44
DASH == 45   DOT == 46    SLASH == 47  COLON == 58  SEMI == 59
LT == 60     EQ == 61     GT == 62     QM == 63     AT == 64
LBRACK == 91 BSLASH == 92 RBRACK == 93 USCORE == 95 TILDE == 126
BANG == 33   DOLLAR == 36 DEL == 127   PIPE == 124

IsWS(c)     == c = SP \/ c = HT
IsCRLFc(c)  == c = CR \/ c = LF
IsLWSc(c)   == IsWS(c) \/ IsCRLFc(c)
IsDigit(c)  == c >= 48 /\ c <= 57
IsUpper(c)  == c >= 65 /\ c <= 90
IsLower(c)  == c >= 97 /\ c <= 122
IsAlpha(c)  == IsUpper(c) \/ IsLower(c)
ToLower(c)  == IF IsUpper(c) THEN c + 32 ELSE c      \* bytescase.ByteToLower

\* bytescase.CmpEq: equal length and equal modulo ASCII letter case
RECURSIVE CmpEqFrom(_, _, _)
CmpEqFrom(a, b, k) == IF k > Len(a) THEN TRUE
                      ELSE IF ToLower(a[k]) # ToLower(b[k]) THEN FALSE
                      ELSE CmpEqFrom(a, b, k + 1)
CmpEq(a, b) == Len(a) = Len(b) /\ CmpEqFrom(a, b, 1)

\* Go slice buf[s:e] (0-based, e exclusive)
Slice(buf, s, e) == SubSeq(buf, s + 1, e)

\* ASCII text of a TLA+ string is not available in TLC; names are given as tuples.
Trunc(x) == ((x % OffsMod) + OffsMod) % OffsMod
=============================================================================
