------------------------------- MODULE FLine -------------------------------
(***************************************************************************)
(* parse_fline.go: ParseFLine (request / status line), PFLine.              *)
(* One operator per switch arm (the arms fall through into each other, so   *)
(* each arm's operator ends by calling the next arm's operator), same state *)
(* names, same order of side effects.                                       *)
(* Object state = the exported fields + the unexported `state`.             *)
(*   FLine_Parse(buf, offs, st)     = [st, offs, err]   raw (message parser) *)
(*   FLine_Call(buf, offs, st, cfg) = the same with a Go panic -> "PANIC"   *)
(* Declarative predicates for property C08 are at the end (FLineDecl).      *)
(***************************************************************************)
EXTENDS ScalarHdrs            \* Ret, Panicify; Lookup (GetMethodNo), Lex, PFieldM, Bytes

\* PFLine {Status uint16; MethodNo; Method, URI, Version, StatusCode, Reason PField; state uint8}
FLine_New(cfg) == [state |-> "flInit", status |-> 0, mno |-> MUndef, method |-> PF0, uri |-> PF0,
                   version |-> PF0, scode |-> PF0, reason |-> PF0]
FLine_Reset(st) == FLine_New(<<>>)                                  \* *fl = PFLine{}
FLine_Obs(st) == [Status |-> st.status, MethodNo |-> st.mno, Method |-> PFObs(st.method), URI |-> PFObs(st.uri),
                  Version |-> PFObs(st.version), StatusCode |-> PFObs(st.scode), Reason |-> PFObs(st.reason),
                  Request |-> PFEmpty(st.scode),                   \* Request() is StatusCode.Empty() (was Status == 0 before the 000 fix)
                  Empty |-> st.state = "flInit", Parsed |-> st.state = "flFIN",
                  Pending |-> st.state \notin {"flInit", "flFIN"}]
FLine_Panicked(st) == IsPanicF(st.method) \/ IsPanicF(st.uri) \/ IsPanicF(st.version) \/ IsPanicF(st.scode)
                      \/ IsPanicF(st.reason) \/ st.mno = LK_PANIC

----------------------------------------------------------------------------
\* bytescase.Prefix(prefix, s) (int, bool)            bytescase@v1.0.2/bytescase.go
\* the mask m is computed from the byte of s only: 0x20 if it is an ASCII letter, else 0;
\* the test is  v|m != prefix[i]|m.
BC_Mask(v) == IF IsAlpha(v) THEN 32 ELSE 0
BC_Or(x, m) == IF m = 32 /\ (x \div 32) % 2 = 0 THEN x + 32 ELSE x
RECURSIVE BC_PrefixFrom(_, _, _)
BC_PrefixFrom(p, s, k) ==                                          \* for i, v := range s  (k = i)
  IF k >= Len(s) THEN [n |-> Len(s), m |-> TRUE]                   \* prefix fully matched s
  ELSE IF k >= Len(p) THEN [n |-> k, m |-> TRUE]
  ELSE LET v == B(s, k)  m == BC_Mask(v) IN
         IF BC_Or(v, m) # BC_Or(B(p, k), m) THEN [n |-> k, m |-> FALSE]
         ELSE BC_PrefixFrom(p, s, k + 1)
BC_Prefix(p, s) == IF Len(p) > Len(s) THEN [n |-> 0, m |-> FALSE] ELSE BC_PrefixFrom(p, s, 0)

SipVer   == SubSeq(KW_SIP_2_0, 1, 7)      \* var sipVer   = []byte("SIP/2.0")
SipVerSP == KW_SIP_2_0                    \* var sipVerSP = []byte("SIP/2.0 ")

----------------------------------------------------------------------------
\* endOk:
FL_EndOk(st, i) == Ret([st EXCEPT !.state = "flFIN"], i, OK)

\* case flCRLF:
FL_CRLF(buf, i, st) ==
  LET r == SkipCRLF(buf, i) IN
    IF r.e # OK THEN Ret(st, r.o, r.e)                             \* return end, err (could be moreBytes)
    ELSE FL_EndOk(st, r.o)

\* case flReqVer:
FL_ReqVer(buf, i0, st) ==
  LET i == SkipToken(buf, i0) IN
    IF i >= Len(buf) THEN Ret(st, i, MORE)                         \* moreBytes
    ELSE IF B(buf, i) # CR /\ B(buf, i) # LF THEN Ret(st, i, BADCHAR)      \* ' ' or '\t' at the end
    ELSE LET st1 == [st EXCEPT !.version = PFExtend(st.version, i)] IN
           IF PFEmpty(st1.version) THEN Ret(st1, i, BADCHAR)       \* errEmptyTok
           ELSE FL_CRLF(buf, i, [st1 EXCEPT !.state = "flCRLF"])   \* fallthrough

\* case flReqURI:
FL_ReqURI(buf, i0, st) ==
  LET i == SkipToken(buf, i0) IN
    IF i >= Len(buf) THEN Ret(st, i, MORE)
    ELSE IF B(buf, i) # SP THEN Ret(st, i, BADCHAR)                \* '\t', CR or LF
    ELSE LET st1 == [st EXCEPT !.uri = PFExtend(st.uri, i)] IN
           IF PFEmpty(st1.uri) THEN Ret(st1, i, BADCHAR)           \* errEmptyTok
           ELSE FL_ReqVer(buf, i + 1, [st1 EXCEPT !.state = "flReqVer", !.version = PFSet(i + 1, i + 1)])

\* case flReqMethod:
FL_ReqMethod(buf, i0, st) ==
  LET i == SkipToken(buf, i0) IN
    IF i >= Len(buf) THEN Ret(st, i, MORE)
    ELSE IF B(buf, i) # SP THEN Ret(st, i, BADCHAR)
    ELSE LET st1 == [st EXCEPT !.method = PFExtend(st.method, i)] IN
           IF PFEmpty(st1.method) THEN Ret(st1, i, BADCHAR)        \* errEmptyTok
           ELSE LET m == IF PFGetOk(buf, st1.method) THEN GetMethodNo(PFGet(buf, st1.method)) ELSE LK_PANIC IN
             FL_ReqURI(buf, i + 1, [st1 EXCEPT !.mno = m, !.state = "flReqURI", !.uri = PFSet(i + 1, i + 1)])

\* case flRplReason:   (the same statements are inlined at the end of the reply branch of flInit)
FL_RplReason(buf, i0, st) ==
  LET r == SkipLine(buf, i0) IN
    IF r.e # OK THEN Ret(st, r.o, r.e)                             \* return i, err (could be moreBytes)
    ELSE FL_EndOk([st EXCEPT !.reason = PFExtend(st.reason, r.o - r.crl)], r.o)

\* case flInit:
FL_Init(buf, i, st) ==
  IF Len(buf) - i < Len(SipVerSP) + 3 + 3 THEN Ret(st, i, MORE)    \* message too small: 14 bytes needed
  ELSE LET p == BC_Prefix(SipVerSP, Slice(buf, i, Len(buf))) IN
    IF p.m THEN                                                    \* a reply; p.n points after the space
      LET st1 == [st EXCEPT !.version = PFSet(i, i + p.n - 1), !.state = "flRplStatus"]
          j   == i + p.n IN
        IF B(buf, j + 3) # SP
           \/ ~(IsDigit(B(buf, j)) /\ IsDigit(B(buf, j + 1)) /\ IsDigit(B(buf, j + 2)))
        THEN Ret(st1, j, BADCHAR)                                  \* NOTE: the state stays flRplStatus
        ELSE LET v   == ((B(buf, j) - 48) * 100 + (B(buf, j + 1) - 48) * 10 + (B(buf, j + 2) - 48)) % 65536
                 st2 == [st1 EXCEPT !.scode = PFSet(j, j + 3), !.status = v,
                                    !.reason = PFSet(j + 4, j + 4), !.state = "flRplReason"] IN
               FL_RplReason(buf, j + 4, st2)
    ELSE FL_ReqMethod(buf, i, [st EXCEPT !.state = "flReqMethod", !.method = PFSet(i, i)])    \* fallthrough

\* NOTE: flRplStatus (left behind by the bad-status return) and flFIN have no arm in the switch:
\* control reaches endOk, i.e. the call returns (offs, ErrHdrOk) and the state becomes flFIN.
FLine_Parse(buf, offs, st) ==
  CASE st.state = "flInit"      -> FL_Init(buf, offs, st)
    [] st.state = "flReqMethod" -> FL_ReqMethod(buf, offs, st)
    [] st.state = "flReqURI"    -> FL_ReqURI(buf, offs, st)
    [] st.state = "flReqVer"    -> FL_ReqVer(buf, offs, st)
    [] st.state = "flCRLF"      -> FL_CRLF(buf, offs, st)
    [] st.state = "flRplReason" -> FL_RplReason(buf, offs, st)
    [] OTHER                    -> FL_EndOk(st, offs)

FLine_Call(buf, offs, st, cfg) == LET r == FLine_Parse(buf, offs, st) IN Panicify(r, FLine_Panicked(r.st))

\* the result as a caller sees it: r = [err, offs, obs]
FLine_Res(c) == [err |-> c.err, offs |-> c.offs, obs |-> FLine_Obs(c.st)]

----------------------------------------------------------------------------
(***************************************************************************)
(* C08, declaratively (from the statement, not from the automaton).         *)
(* r = [err, offs, obs] is what the caller got for buf parsed from `start`. *)
(* When r is a success, the line (text between start and the first CR/LF)   *)
(* must be of one of the two forms and the reported fields must be exactly  *)
(* its decomposition.                                                       *)
(***************************************************************************)
RECURSIVE FLD_EOL(_, _)
FLD_EOL(buf, i) == IF i < Len(buf) /\ ~IsCRLFc(B(buf, i)) THEN FLD_EOL(buf, i + 1) ELSE i
FLD_Line(buf, start) == Slice(buf, start, FLD_EOL(buf, start))
\* length of the terminator at e: CRLF, lone CR, lone LF
FLD_TermLen(buf, e) == IF B(buf, e) = CR /\ e + 1 < Len(buf) /\ B(buf, e + 1) = LF THEN 2 ELSE 1

FLD_IsTok(t) == Len(t) > 0 /\ \A k \in 1..Len(t) : ~IsLWSc(t[k])
\* method SP uri SP version: a, b = positions (1-based) of the two single spaces
FLD_ReqSplit(l) == {ab \in (1..Len(l)) \X (1..Len(l)) :
                      /\ ab[1] < ab[2] /\ l[ab[1]] = SP /\ l[ab[2]] = SP
                      /\ FLD_IsTok(SubSeq(l, 1, ab[1] - 1))
                      /\ FLD_IsTok(SubSeq(l, ab[1] + 1, ab[2] - 1))
                      /\ FLD_IsTok(SubSeq(l, ab[2] + 1, Len(l)))}
FLD_IsReq(l) == FLD_ReqSplit(l) # {}
\* SIP/2.0 (any letter case) SP ddd SP reason
FLD_IsRpl(l) == /\ Len(l) >= 12 /\ CmpEq(SubSeq(l, 1, 7), SipVer) /\ l[8] = SP
                /\ IsDigit(l[9]) /\ IsDigit(l[10]) /\ IsDigit(l[11]) /\ l[12] = SP
FLD_Code(l) == (l[9] - 48) * 100 + (l[10] - 48) * 10 + (l[11] - 48)

FLD_Success(r) == r.err = OK

\* tokens / status / reason / offset: everything except the request-vs-reply flag of a reply
FLineDeclCore(buf, start, r) ==
  FLD_Success(r) =>
    LET e == FLD_EOL(buf, start)  l == Slice(buf, start, e) IN
      /\ e < Len(buf)                                              \* there is a line terminator
      /\ r.offs = e + FLD_TermLen(buf, e)
      /\ IF FLD_IsRpl(l)
           THEN /\ r.obs.Status = FLD_Code(l)
                /\ r.obs.Reason = PFObs([o |-> start + 12, l |-> Len(l) - 12])
           ELSE /\ FLD_IsReq(l)                                    \* otherwise: rejected, never mis-split
                /\ LET ab == CHOOSE x \in FLD_ReqSplit(l) : TRUE IN
                     /\ r.obs.Request
                     /\ r.obs.Method  = <<start, ab[1] - 1>>
                     /\ r.obs.URI     = <<start + ab[1], ab[2] - ab[1] - 1>>
                     /\ r.obs.Version = <<start + ab[2], Len(l) - ab[2]>>
                     /\ r.obs.MethodNo = GetMethodNoDecl(SubSeq(l, 1, ab[1] - 1))
\* "is reported as a reply"
FLineDeclKind(buf, start, r) ==
  FLD_Success(r) => (FLD_IsRpl(FLD_Line(buf, start)) => ~r.obs.Request)

FLineDecl(buf, start, r) == FLineDeclCore(buf, start, r) /\ FLineDeclKind(buf, start, r)

\* not demanded by the statement, but part of "the decomposition": the remaining spans
FLineDeclExtra(buf, start, r) ==
  FLD_Success(r) =>
    LET l == FLD_Line(buf, start) IN
      /\ r.obs.Parsed /\ ~r.obs.Empty /\ ~r.obs.Pending
      /\ IF FLD_IsRpl(l)
           THEN /\ r.obs.Version = <<start, 7>> /\ r.obs.StatusCode = <<start + 8, 3>>
                /\ r.obs.Method = <<0, 0>> /\ r.obs.URI = <<0, 0>> /\ r.obs.MethodNo = MUndef
           ELSE /\ r.obs.Status = 0 /\ r.obs.StatusCode = <<0, 0>> /\ r.obs.Reason = <<0, 0>>
=============================================================================
