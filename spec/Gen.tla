-------------------------------- MODULE Gen --------------------------------
(***************************************************************************)
(* Generators with ghost "intended decomposition" (DESIGN §3.1 Decl layer). *)
(* Text and its intended reading are produced TOGETHER, by concatenation of *)
(* parts whose role is known by construction -- nothing here parses.        *)
(*   GenHdrLine : one header line  name ws ":" ws value ws terminator       *)
(*   GenMsg     : first line, header lines, blank line, body                *)
(*   Framing    : what C06 says the parser must answer for a body           *)
(* The literal parts come from Texts.tla; the header type is decided by the *)
(* documented name table (Lookup!GetHdrTypeDecl), not by the hash lookup.   *)
(***************************************************************************)
EXTENDS Lookup, Texts, BigNat

Span(o, l) == IF l = 0 THEN <<0, 0>> ELSE <<o, l>>      \* same convention as PFObs

\* one header line and its intended reading, offsets relative to the line start
GenHdrLine(name, ws1, ws2, val, ws3, term) ==
  [txt  |-> name \o ws1 \o <<COLON>> \o ws2 \o val \o ws3 \o term,
   name |-> <<0, Len(name)>>,
   val  |-> Span(Len(name) + Len(ws1) + 1 + Len(ws2), Len(val)),
   type |-> GetHdrTypeDecl(name), term |-> term]

ShiftSpan(s, k) == IF s[2] = 0 THEN s ELSE <<s[1] + k, s[2]>>

\* decimal text of a small natural (Content-Length values)
RECURSIVE DecText(_)
DecText(n) == IF n < 10 THEN <<48 + n>> ELSE DecText(n \div 10) \o <<48 + (n % 10)>>

\* C06 Framing: verdict / returned offset / body for body start bs, declared length clen (-1 = no
\* Content-Length header), avail bytes after the blank line, and the three flags
SkipBodyF == 1  CLenReqF == 2  NoMoreDataF == 4
HasF(flags, f) == (flags \div f) % 2 = 1
Framing(flags, clen, bs, avail) ==
  IF HasF(flags, SkipBodyF) THEN
       IF HasF(flags, CLenReqF) /\ clen < 0 THEN [err |-> NOCLEN, offs |-> bs, body |-> <<0, 0>>]
       ELSE [err |-> OK, offs |-> bs, body |-> <<0, 0>>]
  ELSE IF clen >= 0 THEN
       IF avail >= clen THEN [err |-> OK, offs |-> bs + clen, body |-> Span(bs, clen)]
       ELSE IF HasF(flags, NoMoreDataF) THEN [err |-> OK, offs |-> bs + avail, body |-> Span(bs, avail)]
       ELSE [err |-> MORE, offs |-> bs, body |-> <<0, 0>>]
  ELSE IF HasF(flags, CLenReqF) THEN [err |-> OK, offs |-> bs, body |-> <<0, 0>>]
  ELSE [err |-> OK, offs |-> bs + avail, body |-> Span(bs, avail)]

\* header list summary intended by C07: count, type flags, first header of each known type
RECURSIVE TypeFlags(_, _, _)
TypeFlags(hs, k, seen) == IF k > Len(hs) THEN seen ELSE TypeFlags(hs, k + 1, seen \cup {hs[k].type})
RECURSIVE Pow2(_)
Pow2(n) == IF n = 0 THEN 1 ELSE 2 * Pow2(n - 1)
RECURSIVE SumFlags(_, _)
SumFlags(S, t) == IF t > HdrOther THEN 0 ELSE (IF t \in S THEN Pow2(t) ELSE 0) + SumFlags(S, t + 1)
FirstOfType(hs, t) == IF \E k \in 1..Len(hs) : hs[k].type = t
                      THEN LET k == CHOOSE k \in 1..Len(hs) : hs[k].type = t /\ \A j \in 1..(k - 1) : hs[j].type # t
                           IN [Type |-> t, Name |-> hs[k].name, Val |-> hs[k].val]
                      ELSE [Type |-> 0, Name |-> <<0, 0>>, Val |-> <<0, 0>>]

\* lay header lines out one after another starting at offset o: absolute spans
RECURSIVE Layout(_, _, _, _)
Layout(lines, k, o, acc) ==
  IF k > Len(lines) THEN acc
  ELSE LET h == lines[k] IN
       Layout(lines, k + 1, o + Len(h.txt),
              Append(acc, [type |-> h.type, name |-> ShiftSpan(h.name, o), val |-> ShiftSpan(h.val, o)]))
RECURSIVE CatTxt(_, _)
CatTxt(lines, k) == IF k > Len(lines) THEN <<>> ELSE lines[k].txt \o CatTxt(lines, k + 1)

\* A whole message.  fl: first line text (without terminator), flterm its terminator, lines: header lines,
\* blank: the blank line, body: body bytes, clen: declared Content-Length (-1 none; the generator puts the
\* matching header into `lines` itself), start: junk bytes before the message.
GenMsg(start, junk, fl, flterm, lines, blank, body, clen, flags, hcap) ==
  LET pre   == SubSeq([j \in 1..start |-> junk], 1, start)
      hoff  == start + Len(fl) + Len(flterm)
      hs    == Layout(lines, 1, hoff, <<>>)
      htxt  == CatTxt(lines, 1)
      bs    == hoff + Len(htxt) + Len(blank)
      fr    == Framing(flags, clen, bs, Len(body))
      cap   == IF hcap < 0 THEN 10 ELSE hcap
      nst   == IF Len(hs) < cap THEN Len(hs) ELSE cap
  IN [wire |-> pre \o fl \o flterm \o htxt \o blank \o body,
      err  |-> fr.err, offs |-> fr.offs,
      obs  |-> [HL |-> [N |-> Len(hs), PFlags |-> SumFlags(TypeFlags(hs, 1, {}), 0),
                        Hdrs |-> SubSeq([k \in 1..nst |-> [Type |-> hs[k].type, Name |-> hs[k].name, Val |-> hs[k].val]], 1, nst),
                        First |-> SubSeq([t \in 1..13 |-> FirstOfType(hs, t)], 1, 13)],
                Body |-> fr.body,
                RawMsg |-> IF fr.err \in {OK, NOCLEN} THEN Span(start, fr.offs - start) ELSE <<0, 0>>,
                Parsed |-> fr.err = OK],
      nhdr |-> Len(hs), flags |-> flags, hcap |-> hcap]
=============================================================================
