------------------------------ MODULE GenFLine ------------------------------
(***************************************************************************)
(* Generator for property C08: first lines WITH their intended              *)
(* decomposition (ghost), built from components -- nothing here looks at    *)
(* the automaton of ParseFLine.                                             *)
(*   request : method SP uri SP version          term  follow                *)
(*   reply   : SIP/2.0 (4 letter-case patterns) SP ddd SP reason  term follow *)
(*   near    : near-miss lines (double SP, HT, missing token, ...)           *)
(*   ambig   : request lines whose method token is SIP/2.0 (any case)        *)
(* A case is a record of small integers g = [kind, a, b, c, t, s, cut]:      *)
(*   req:  a = method index, b = URI index, c = version index                *)
(*   rpl:  a = version pattern index, b = status code, c = reason index      *)
(*   near: a = index in NearLines          ambig: a = method index, b, c as req *)
(*   t = terminator index, s = start offset, cut = 0 one call, 1 two calls   *)
(* The text is junk^s line term follow, where follow pads the text to the   *)
(* 14 bytes ParseFLine wants to see before it starts (at least one byte, so *)
(* that a lone CR is definitive).                                           *)
(***************************************************************************)
EXTENDS FLine

LowerOf(m) == SubSeq([k \in 1..Len(m) |-> ToLower(m[k])], 1, Len(m))
RECURSIVE GCat(_)
GCat(ss) == IF Len(ss) = 0 THEN <<>> ELSE Head(ss) \o GCat(Tail(ss))
sp == <<SP>>   ht == <<HT>>

\* ---- components
tINVITE == MethodNames[2]
tURI    == <<115,105,112,58,97,64,98>>                         \* "sip:a@b"
tVER    == <<83,73,80,47,50,46,48>>                            \* "SIP/2.0"
tOK     == <<79,75>>                                           \* "OK"
t200    == <<50,48,48>>

\* methods 1..14 = the table names (intended number = index), 15..28 = the same in lower case
\* (case-sensitive => other), 29.. = arbitrary tokens (=> other)
OtherMethods == << <<70,79,79>>,                 \* "FOO"
                   <<73,78,86,73,84,69,88>>,     \* "INVITEX"
                   <<73,78,86,73,84>>,           \* "INVIT"
                   <<73>>,                       \* "I"
                   <<73,110,118,105,116,101>>,   \* "Invite"
                   <<65,67,75,50>>,              \* "ACK2"
                   <<115,105,112,58,120>>,       \* "sip:x"
                   <<83,73,80,47,51,46,48>>,     \* "SIP/3.0"
                   \* a known name with 4 / 8 / 1 more bytes, a truncated known name (bucket = first byte + length mod 4)
                   <<73,78,86,73,84,69,45,101,120,116>>,          \* "INVITE-ext"
                   <<66,89,69,66,89,69,33>>,                      \* "BYEBYE!"
                   <<65,67,75,49,50,51,52,53,54,55,56>>,          \* "ACK12345678"
                   <<82,69,71,73,83,84,69,82,83>>,                \* "REGISTERS"
                   <<67,65,78,67,69>>,                            \* "CANCE"
                   <<78,79,84,73,70,89,49,50,51,52>>,             \* "NOTIFY1234"
                   <<83,73,80,47,50,46,48,45,69,88,84>>,          \* "SIP/2.0-EXT"  (starts like the version, but no space after it)
                   <<115,105,112,47,50,46,48,120>>,               \* "sip/2.0x"
                   \* a known name with another first byte (same letter in lower case; another byte with the same low bits)
                   <<105,78,86,73,84,69>>, <<81,78,86,73,84,69>>, <<97,67,75>>, <<74,89,69>>,   \* "iNVITE" "QNVITE" "aCK" "JYE"
                   \* method tokens longer than the 14 bytes the parser waits for before it looks at the line
                   <<80,82,69,45,65,85,84,72,79,82,73,90,69,68,45,73,78,86,73,84,69>>,        \* "PRE-AUTHORIZED-INVITE"
                   <<76,79,78,71,45,77,69,84,72,79,68,45,78,65,77,69,45,88,45,65,67,75>> >>   \* "LONG-METHOD-NAME-X-ACK"
GenMethods == MethodNames \o SubSeq([k \in 1..Len(MethodNames) |-> LowerOf(MethodNames[k])], 1, Len(MethodNames))
                          \o OtherMethods
IntendedMethodNo(a) == IF a <= Len(MethodNames) THEN a ELSE MOther

GenURIs == << tURI, <<42>>,                      \* "sip:a@b", "*"
              <<115,105,112,58,97,108,105,99,101,64,101,120,97,109,112,108,101,46,99,111,109,59,116,114,97,110,115,
                112,111,114,116,61,117,100,112>>,             \* "sip:alice@example.com;transport=udp"
              <<97>> >>                          \* "a"
GenVersions == << tVER, <<115,105,112,47,50,46,48>>, <<88>>, <<83,73,80,47,50,46,48,48>> >>   \* SIP/2.0 sip/2.0 X SIP/2.00

RplVersions == << tVER, <<115,105,112,47,50,46,48>>, <<83,105,112,47,50,46,48>>, <<115,73,80,47,50,46,48>> >>
                                                 \* SIP/2.0 sip/2.0 Sip/2.0 sIP/2.0
GenReasons == << <<>>, tOK, <<78,111,116,32,70,111,117,110,100>>,      \* "", "OK", "Not Found"
                 <<78,111,116,9,70,111,117,110,100>>, <<32,79,75>> >>   \* "Not\tFound", " OK"
Digits3(n) == <<48 + (n \div 100), 48 + ((n \div 10) % 10), 48 + (n % 10)>>

GenTerms == << <<CR, LF>>, <<CR>>, <<LF>> >>

\* method tokens that are the SIP version in some letter case
AmbigMethods == RplVersions

\* ---- near misses (lines without terminator)
tACKab == <<65,67,75,32,97,32,98>>                             \* "ACK a b": well-formed, but the text stays below 14 bytes
NearLines == <<
  GCat(<<tINVITE, sp, sp, tURI, sp, tVER>>),                   \*  1 double SP
  GCat(<<tINVITE, sp, tURI, sp, sp, tVER>>),                   \*  2
  GCat(<<tINVITE, ht, tURI, sp, tVER>>),                       \*  3 HT instead of SP
  GCat(<<tINVITE, sp, tURI, ht, tVER>>),                       \*  4
  GCat(<<tINVITE, sp, tURI, <<45>>, tVER>>),                   \*  5 missing token (two tokens)
  GCat(<<tINVITE, tURI, tVER>>),                               \*  6 one token
  GCat(<<sp, tINVITE, sp, tURI, sp, tVER>>),                   \*  7 leading SP
  GCat(<<ht, tINVITE, sp, tURI, sp, tVER>>),                   \*  8 leading HT
  GCat(<<tINVITE, sp, tURI, sp, tVER, sp>>),                   \*  9 trailing SP
  GCat(<<tINVITE, sp, tURI, sp, tVER, ht>>),                   \* 10 trailing HT
  GCat(<<tINVITE, sp, tURI, sp, tVER, sp, <<120>>>>),          \* 11 four tokens
  tACKab,                                                      \* 12 short text (NearShort: no padding)
  GCat(<<tVER, sp, sp, t200, sp, tOK>>),                       \* 13 double SP before the code
  GCat(<<tVER, ht, t200, sp, tOK>>),                           \* 14 HT instead of SP
  GCat(<<tVER, sp, t200, ht, tOK>>),                           \* 15
  GCat(<<tVER, sp, <<50,120,48>>, sp, tOK>>),                  \* 16 non-digit status "2x0"
  GCat(<<tVER, sp, <<120,48,48>>, sp, tOK>>),                  \* 17 "x00"
  GCat(<<tVER, sp, <<50,48,120>>, sp, tOK>>),                  \* 18 "20x"
  GCat(<<tVER, sp, <<45,50,48>>, sp, tOK>>),                   \* 19 "-20"
  GCat(<<tVER, sp, <<50,48>>, sp, tOK>>),                      \* 20 2-digit status
  GCat(<<tVER, sp, <<50,48,48,48>>, sp, tOK>>),                \* 21 4-digit status
  GCat(<<sp, tVER, sp, t200, sp, tOK>>),                       \* 22 leading SP
  GCat(<<tVER, sp, t200>>),                                    \* 23 no SP / reason after the code
  GCat(<<tVER, t200, sp, tOK>>),                               \* 24 no SP after the version
  GCat(<<tVER, sp, <<50>>, sp, tOK>>) >>                       \* 25 1-digit status
NearShort == {12}

\* ---- the cases
ReqCases(starts, cuts) == [kind : {"req"}, a : 1..Len(GenMethods), b : 1..Len(GenURIs), c : 1..Len(GenVersions),
                           t : 1..3, s : starts, cut : cuts]
RplCases(codes, starts, cuts) == [kind : {"rpl"}, a : 1..Len(RplVersions), b : codes, c : 1..Len(GenReasons),
                                  t : 1..3, s : starts, cut : cuts]
NearCases(starts, cuts) == [kind : {"near"}, a : 1..Len(NearLines), b : {0}, c : {0}, t : 1..3, s : starts, cut : cuts]
AmbigCases(starts, cuts) == [kind : {"ambig"}, a : 1..Len(AmbigMethods), b : 1..Len(GenURIs), c : 1..Len(GenVersions),
                             t : 1..3, s : starts, cut : cuts]

\* ---- text and intended result of a case
GLine(g) == CASE g.kind = "req"   -> GCat(<<GenMethods[g.a], sp, GenURIs[g.b], sp, GenVersions[g.c]>>)
              [] g.kind = "ambig" -> GCat(<<AmbigMethods[g.a], sp, GenURIs[g.b], sp, GenVersions[g.c]>>)
              [] g.kind = "rpl"   -> GCat(<<RplVersions[g.a], sp, Digits3(g.b), sp, GenReasons[g.c]>>)
              [] g.kind = "near"  -> NearLines[g.a]
GPad(g, n) == LET k == IF g.kind = "near" /\ g.a \in NearShort THEN 1
                       ELSE IF n >= 13 THEN 1 ELSE 14 - n IN
                SubSeq([j \in 1..k |-> 86], 1, k)                       \* 'V' ...
GJunk(k, junk) == SubSeq([j \in 1..k |-> junk], 1, k)
GText(g, junk) == LET lt == GLine(g) \o GenTerms[g.t] IN GJunk(g.s, junk) \o lt \o GPad(g, Len(lt))

GWellFormed(g) == g.kind \in {"req", "rpl", "ambig"}
GOffs(g) == g.s + Len(GLine(g)) + Len(GenTerms[g.t])                   \* just after the line terminator
GSpan(o, l) == IF l = 0 THEN <<0, 0>> ELSE <<o, l>>                    \* an empty field has no offset
GObs(g) ==
  CASE g.kind = "req" ->
         LET m == GenMethods[g.a]  u == GenURIs[g.b]  v == GenVersions[g.c] IN
           [Request |-> TRUE, MethodNo |-> IntendedMethodNo(g.a), Method |-> GSpan(g.s, Len(m)),
            URI |-> GSpan(g.s + Len(m) + 1, Len(u)), Version |-> GSpan(g.s + Len(m) + 1 + Len(u) + 1, Len(v))]
    [] g.kind = "ambig" ->
         LET m == AmbigMethods[g.a]  u == GenURIs[g.b]  v == GenVersions[g.c] IN
           [Request |-> TRUE, MethodNo |-> MOther, Method |-> GSpan(g.s, Len(m)),
            URI |-> GSpan(g.s + Len(m) + 1, Len(u)), Version |-> GSpan(g.s + Len(m) + 1 + Len(u) + 1, Len(v))]
    [] g.kind = "rpl" ->
           [Request |-> FALSE, Status |-> g.b, Reason |-> GSpan(g.s + 12, Len(GenReasons[g.c]))]

\* verdicts acceptable for a near miss: any rejection, or "more bytes" -- never a success
GRejections == <<MORE, NOCR, BADCHAR, PARAMS, BAD, NOTNUMBER, TOOLONG, VALBAD, TOOBIG, TRUNC, NOCLEN, TOOMANY>>

\* cut points of the calls: one call on the whole text, or a first call in the middle of what
\* follows the first 14 bytes
\* (cut modes 2, 3, 4: right after the 15th byte, at the end of the first token, one byte before it -- when that
\* is beyond the 14 bytes the parser waits for)
GTok1(g) == IF g.kind = "req" THEN Len(GenMethods[g.a]) ELSE 7
GCuts(g, n) == LET mid == g.s + 14 + ((n - g.s - 14) \div 2)
                   c   == CASE g.cut = 1 -> mid [] g.cut = 2 -> g.s + 15 [] g.cut = 3 -> g.s + GTok1(g)
                            [] g.cut = 4 -> g.s + GTok1(g) - 1 [] OTHER -> n
               IN IF g.cut # 0 /\ n - g.s > 15 /\ c < n /\ c >= g.s + 14 THEN <<c, n>> ELSE <<n>>
=============================================================================
