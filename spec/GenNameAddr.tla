---------------------------- MODULE GenNameAddr ----------------------------
(***************************************************************************)
(* C09 generator: name-addr values (From / To / Contact / P-Asserted-       *)
(* Identity) and comma separated lists of them, produced TOGETHER with the  *)
(* intended decomposition ("ghost").  Nothing here parses: a value is the   *)
(* concatenation of parts whose role is known by construction               *)
(*                                                                         *)
(*   value  = head { param }                                                *)
(*   head   = [display [ws]] "<" uri ">"   |   uri (bare)   |   "*"          *)
(*   param  = ws ";" ws name [ ws "=" ws val ]                               *)
(*   list   = value { ws "," ws value }                                      *)
(*                                                                         *)
(* and every span of the ghost is the sum of the lengths of the parts in    *)
(* front of it.  The roles of the literal parameter names (tag / expires /  *)
(* q / lr / other) and the numeric meaning of the literal values are given  *)
(* by the pool tables below, not found out by looking at the text.          *)
(*                                                                         *)
(* Conventions that the property statement leaves open, made explicit       *)
(* (PField spans are <<offset, length>>, <<0, 0>> for the empty text):      *)
(*  - Name  : the display name as written, INCLUDING the quotes of a quoted *)
(*            display name (D_q -> "Bob" with quotes, D_qempty -> the two    *)
(*            quotes).  The code documents "Name ... might contain extra     *)
(*            trailing whitespace": white space between the display name    *)
(*            and "<" is neither clearly part of the name nor clearly not,   *)
(*            so the ghost marks Name as determined (nameDet) only when the  *)
(*            name is directly followed by "<" (or there is no name).        *)
(*  - URI   : the text between "<" and ">" (without the brackets); of a bare *)
(*            URI the text up to the first ";" / white space / end: what     *)
(*            follows a bare URI are HEADER parameters; of "*" the star.     *)
(*  - Params: from the first byte of the first parameter NAME to the end of  *)
(*            the last parameter (end of its value; of the name when it has  *)
(*            no "="; just after "=" for an empty value), bare URI included. *)
(*  - V     : the whole value, first byte of the head to the end of the last *)
(*            parameter; surrounding white space and the "," excluded.       *)
(*  - Tag   : the value of the (single) parameter named tag in any letter    *)
(*            case, as written -- a quoted value includes its quotes; empty  *)
(*            when there is no tag parameter or it has no / an empty value.  *)
(*  - HasExpires / Expires: a parameter named expires (any case) whose value *)
(*            is a digit string; the value saturates at 2^32-1.  No expires  *)
(*            parameter: HasExpires = FALSE (Expires not stated).  An        *)
(*            expires parameter without a numeric value: neither stated.     *)
(*  - Q     : q (any case) with a valid qvalue, times 1000; else not stated. *)
(*  - LR    : some parameter is named lr (any case), with or without value.  *)
(*  - Star  : the value is "*".      - Type: the header kind asked for.      *)
(*  - a field whose parameter name occurs more than once is not stated.     *)
(***************************************************************************)
EXTENDS Gen, FiniteSets, TLC

NAE0 == [z \in {} |-> 0]                                  \* the record without keys
NAOpt(k, det, v) == IF det THEN (k :> v) ELSE NAE0        \* a key that is stated only when determined

\* ---- literal pools (lazy: indexed with CASE)
\* LWS: none, SP, HT, CRLF SP (fold), SP HT, CRLF HT, SP CRLF SP
NAWs(i) == CASE i = 0 -> WS0 [] i = 1 -> WS1 [] i = 2 -> WSH [] i = 3 -> WSF [] i = 4 -> WS2 [] i = 5 -> WSFH [] i = 6 -> WSSF

\* display names: none, token, several tokens, quoted, quoted with escapes and , ; < > inside, empty quotes, quoted with a fold
NADisp(i) == CASE i = 0 -> D_none [] i = 1 -> D_tok [] i = 2 -> D_toks [] i = 3 -> D_q [] i = 4 -> D_qesc [] i = 5 -> D_qempty
               [] i = 6 -> D_qfold
               \* a token followed by a quoted string (with escapes), two quoted strings: the value starts at the FIRST of them
               [] i = 7 -> D_tokq [] i = 8 -> D_qq
NNADisp == 8
\* URI texts free of the delimiters; 5, 6 and 7 (";" "?" "," inside, URI parameters named like the header parameters)
\* only inside angle brackets
NAUri(i) == CASE i = 1 -> U_sip [] i = 2 -> U_sips [] i = 3 -> U_tel [] i = 4 -> U_x [] i = 5 -> U_params [] i = 6 -> U_comma
              [] i = 7 -> U_inner

\* parameter names and their role
NAPName(i) ==
  CASE i = 1 -> [t |-> P_tag, r |-> "tag"]          [] i = 2 -> [t |-> P_TAG, r |-> "tag"]
    [] i = 3 -> [t |-> P_expires, r |-> "expires"]  [] i = 4 -> [t |-> P_EXPIRES, r |-> "expires"]
    [] i = 5 -> [t |-> P_q, r |-> "q"]              [] i = 6 -> [t |-> P_Q, r |-> "q"]
    [] i = 7 -> [t |-> P_lr, r |-> "lr"]            [] i = 8 -> [t |-> P_LR, r |-> "lr"]
    [] i = 9 -> [t |-> P_other, r |-> "other"]      [] i = 10 -> [t |-> P_tagx, r |-> "other"]
    [] i = 11 -> [t |-> P_ta, r |-> "other"]
    \* more letter cases and near misses (a name that is a prefix / an extension of a known one is just another parameter)
    [] i = 12 -> [t |-> P_tAG, r |-> "tag"]         [] i = 13 -> [t |-> P_Expires, r |-> "expires"]
    [] i = 14 -> [t |-> P_Lr, r |-> "lr"]           [] i = 15 -> [t |-> P_expire, r |-> "other"]
    [] i = 16 -> [t |-> P_expiress, r |-> "other"]  [] i = 17 -> [t |-> P_qq, r |-> "other"]
    [] i = 18 -> [t |-> P_l, r |-> "other"]         [] i = 19 -> [t |-> P_lrx, r |-> "other"]
    \* other names of 1, 8, 10 and 13 characters (longer than every known name)
    [] i = 20 -> [t |-> P_x, r |-> "other"]         [] i = 21 -> [t |-> P_received, r |-> "other"]
    [] i = 22 -> [t |-> P_xlifetime, r |-> "other"] [] i = 23 -> [t |-> P_instance, r |-> "other"]
NNAPName == 23

\* parameter values: eq = an "=" is written; num = the text is a digit string (an expires value);
\* q = the qvalue times 1000, -1 when the text is not a valid qvalue ("0" ["." 0*3DIGIT] / "1" ["." 0*3("0")])
NAPV(eq, t, num, q) == [eq |-> eq, t |-> t, num |-> num, q |-> q]
NAPVal(i) ==
  CASE i = 1 -> NAPV(FALSE, <<>>, FALSE, -1)            \* missing: ";name"
    [] i = 2 -> NAPV(TRUE, <<>>, FALSE, -1)             \* empty after "="
    [] i = 3 -> NAPV(TRUE, PV_tok, FALSE, -1)
    [] i = 4 -> NAPV(TRUE, PV_num, TRUE, -1)
    [] i = 5 -> NAPV(TRUE, PV_quoted, FALSE, -1)
    [] i = 6 -> NAPV(TRUE, PV_qesc, FALSE, -1)
    [] i = 7 -> NAPV(TRUE, PV_q5, FALSE, 500)
    [] i = 8 -> NAPV(TRUE, PV_0, TRUE, 0)
    [] i = 9 -> NAPV(TRUE, PV_q1, TRUE, 1000)
    [] i = 10 -> NAPV(TRUE, PV_q1000, FALSE, 1000)
    [] i = 11 -> NAPV(TRUE, PV_big, TRUE, -1)           \* 2^32
    [] i = 12 -> NAPV(TRUE, PV_max, TRUE, -1)           \* 2^32-1
    [] i = 13 -> NAPV(TRUE, PV_huge, TRUE, -1)          \* 23 digits, above 2^64
    [] i = 14 -> NAPV(TRUE, PV_60, TRUE, -1)
    [] i = 15 -> NAPV(TRUE, PV_q025, FALSE, 250)
    [] i = 16 -> NAPV(TRUE, PV_q0000, FALSE, 0)
    [] i = 17 -> NAPV(TRUE, PV_q1dot, FALSE, 1000)      \* "1."
    [] i = 18 -> NAPV(TRUE, PV_q0005, FALSE, 5)
    [] i = 19 -> NAPV(TRUE, PV_q0999, FALSE, 999)
    [] i = 20 -> NAPV(TRUE, PV_qfold, FALSE, -1)        \* quoted value with a fold inside
NNAPVal == 20

\* uint32 of a digit string, saturated at 2^32-1 (limbs <<lo, hi>>)
NASat32(ds) == IF DecFits(ds, 2) THEN DecValue(ds, 2) ELSE U32Max

\* ---- one parameter: pc = <<name index, value index, ws before ";", ws after ";", ws before "=", ws after "=">>
\* offsets relative to the first byte of the parameter text (the white space before ";")
\* NOTE: an empty value is written directly after "=" (the white space choice after "=" does not apply: it could not be
\* told from the white space in front of the next ";" / "," / line end)
NAParam(pc) ==
  LET nm   == NAPName(pc[1])
      pv   == NAPVal(pc[2])
      e2   == IF Len(pv.t) = 0 THEN WS0 ELSE NAWs(pc[6])
      pre  == NAWs(pc[3]) \o <<SEMI>> \o NAWs(pc[4])
      no   == Len(pre)
      vo   == no + Len(nm.t) + Len(NAWs(pc[5])) + 1 + Len(e2)
  IN [txt  |-> pre \o nm.t \o (IF pv.eq THEN NAWs(pc[5]) \o <<EQ>> \o e2 \o pv.t ELSE <<>>),
      role |-> nm.r, no |-> no,
      val  |-> IF pv.eq THEN Span(vo, Len(pv.t)) ELSE <<0, 0>>,
      end  |-> IF pv.eq THEN vo + Len(pv.t) ELSE no + Len(nm.t),
      num  |-> pv.num, q |-> pv.q, vt |-> pv.t]

\* ---- the head: hc = <<kind, display index, ws index between display and "<", uri index>>; kind 0 = <uri>, 1 = bare, 2 = "*"
NAHead(hc) ==
  CASE hc[1] = 0 -> LET d == NADisp(hc[2])  w == NAWs(hc[3])  u == NAUri(hc[4]) IN
                      [txt |-> d \o w \o <<LT>> \o u \o <<GT>>, Name |-> Span(0, Len(d)), nameDet |-> Len(w) = 0,
                       URI |-> Span(Len(d) + Len(w) + 1, Len(u)), Star |-> FALSE]
    [] hc[1] = 1 -> LET u == NAUri(hc[4]) IN
                      [txt |-> u, Name |-> <<0, 0>>, nameDet |-> TRUE, URI |-> Span(0, Len(u)), Star |-> FALSE]
    [] hc[1] = 2 -> [txt |-> <<STAR>>, Name |-> <<0, 0>>, nameDet |-> TRUE, URI |-> <<0, 1>>, Star |-> TRUE]

\* lay parameters out one after another from offset o: positions relative to the value start
RECURSIVE NAPlace(_, _, _, _)
NAPlace(ps, k, o, acc) ==
  IF k > Len(ps) THEN acc
  ELSE LET p == ps[k] IN
       NAPlace(ps, k + 1, o + Len(p.txt),
               Append(acc, [role |-> p.role, no |-> o + p.no, end |-> o + p.end, val |-> ShiftSpan(p.val, o),
                            num |-> p.num, q |-> p.q, vt |-> p.vt]))
RECURSIVE NACat(_, _)
NACat(ps, k) == IF k > Len(ps) THEN <<>> ELSE ps[k].txt \o NACat(ps, k + 1)

\* ---- one value and its ghost (spans relative to the first byte of the value)
NAValue(hd, ps) ==
  LET aps    == NAPlace(ps, 1, Len(hd.txt), <<>>)
      n      == Len(aps)
      end    == IF n = 0 THEN Len(hd.txt) ELSE aps[n].end
      idx(r) == {k \in 1..n : aps[k].role = r}
      the(r) == aps[CHOOSE k \in idx(r) : TRUE]
      tagI   == idx("tag")  expI == idx("expires")  qI == idx("q")
      expSt  == IF expI = {} THEN "absent"
                ELSE IF Cardinality(expI) = 1 /\ the("expires").num THEN "num" ELSE "undet"
  IN [txt |-> hd.txt \o NACat(ps, 1), np |-> n,
      Name |-> hd.Name, nameDet |-> hd.nameDet, URI |-> hd.URI, Star |-> hd.Star,
      Params |-> IF n = 0 THEN <<0, 0>> ELSE Span(aps[1].no, end - aps[1].no),
      V |-> Span(0, end),
      Tag |-> IF tagI = {} THEN <<0, 0>> ELSE the("tag").val, tagDet |-> Cardinality(tagI) <= 1,
      LR |-> idx("lr") # {},
      expSt |-> expSt, Expires |-> IF expSt = "num" THEN NASat32(the("expires").vt) ELSE <<0, 0>>,
      qDet |-> Cardinality(qI) = 1 /\ the("q").q >= 0, Q |-> IF Cardinality(qI) = 1 THEN the("q").q ELSE -1]

\* what the caller must observe for a value of header kind h that starts at offset o (keys of harness/obs.go `from`)
NAObs(g, h, o) ==
  [URI |-> ShiftSpan(g.URI, o), V |-> ShiftSpan(g.V, o), Params |-> ShiftSpan(g.Params, o),
   Star |-> g.Star, LR |-> g.LR, Type |-> h]
  @@ NAOpt("Name", g.nameDet, ShiftSpan(g.Name, o))
  @@ NAOpt("Tag", g.tagDet, ShiftSpan(g.Tag, o))
  @@ NAOpt("HasExpires", g.expSt # "undet", g.expSt = "num")
  @@ NAOpt("Expires", g.expSt = "num", g.Expires)
  @@ NAOpt("Q", g.qDet, g.Q)

\* ---- lists: vals = value ghosts, seps[k] = <<ws before, ws after>> the k-th comma (Len(seps) = Len(vals) - 1)
RECURSIVE NAListTxt(_, _, _)
NAListTxt(vals, seps, k) ==
  IF k > Len(vals) THEN <<>>
  ELSE vals[k].txt \o (IF k < Len(vals) THEN NAWs(seps[k][1]) \o <<COMMA>> \o NAWs(seps[k][2]) ELSE <<>>) \o NAListTxt(vals, seps, k + 1)
RECURSIVE NAListStarts(_, _, _, _, _)
NAListStarts(vals, seps, k, o, acc) ==
  IF k > Len(vals) THEN acc
  ELSE NAListStarts(vals, seps, k + 1,
                    o + Len(vals[k].txt) + (IF k < Len(vals) THEN Len(NAWs(seps[k][1])) + 1 + Len(NAWs(seps[k][2])) ELSE 0),
                    Append(acc, o))
\* the list text, the start of every value and the span "first value start .. last value end", all from offset o
NAList(vals, seps, o) ==
  LET st == NAListStarts(vals, seps, 1, o, <<>>)  n == Len(vals) IN
    [txt |-> NAListTxt(vals, seps, 1), starts |-> st, n |-> n,
     hval |-> Span(st[1], st[n] + Len(vals[n].txt) - st[1])]

\* expires summary over ALL values (limbs).  A value without expires parameter counts as 0 for the maximum only when some
\* other value has one (the maximum is then the same whichever way "no expires" is read); the minimum is stated only
\* when every value has a numeric expires.
NAExpAllNum(gs)  == \A k \in 1..Len(gs) : gs[k].expSt = "num"
NAExpMaxDet(gs)  == (\A k \in 1..Len(gs) : gs[k].expSt # "undet") /\ (\E k \in 1..Len(gs) : gs[k].expSt = "num")
RECURSIVE NAExpMax(_, _, _)
NAExpMax(gs, k, m) == IF k > Len(gs) THEN m
                      ELSE NAExpMax(gs, k + 1, IF gs[k].expSt = "num" /\ Less(m, gs[k].Expires) THEN gs[k].Expires ELSE m)
RECURSIVE NAExpMin(_, _, _)
NAExpMin(gs, k, m) == IF k > Len(gs) THEN m
                      ELSE NAExpMin(gs, k + 1, IF Less(gs[k].Expires, m) THEN gs[k].Expires ELSE m)

NAMin(a, b) == IF a < b THEN a ELSE b
\* PContacts (harness/obs.go `contacts`): gs / os = ghosts / observations of ALL values in message order,
\* cap = length of the caller's array, hno = number of Contact headers (-1: value level call, not stated),
\* lastHVal = the value span of the last Contact header
NAContactsObs(gs, os, cap, hno, lastHVal) ==
  LET n == Len(gs) IN
  [N |-> n, LastHVal |-> lastHVal, More |-> n > cap,
   Vals |-> SubSeq(os, 1, NAMin(n, cap)), First |-> os[1], Last |-> os[n]]
  @@ NAOpt("HNo", hno >= 0, hno)
  @@ NAOpt("MaxExpires", NAExpMaxDet(gs), NAExpMax(gs, 1, <<0, 0>>))
  @@ NAOpt("MinExpires", NAExpAllNum(gs), NAExpMin(gs, 1, U32Max))
\* PPAIs (harness/obs.go `pais`): the array holds 2 values
NAPAIsObs(gs, os, hno, lastHVal) ==
  LET n == Len(gs) IN
  [N |-> n, LastHVal |-> lastHVal, More |-> n > 2, Vals |-> SubSeq(os, 1, NAMin(n, 2))]
  @@ NAOpt("HNo", hno >= 0, hno)
=============================================================================
