------------------------------ MODULE GenParams ------------------------------
(***************************************************************************)
(* C17 generator: separator-delimited parameter lists  name [ = value ]    *)
(* together with their INTENDED decomposition (ghost).  Text and ghost are  *)
(* produced by concatenating parts whose role is known by construction --   *)
(* nothing here parses.                                                     *)
(*                                                                          *)
(*   item  =  w0 name wa [ "=" wb [ value wc ] ]                            *)
(*   list  =  sep^g0 item1 sep sep^g1 item2 ... itemN sep^gN  ending        *)
(*                                                                          *)
(* Conventions the property leaves open, taken from the doc comments of     *)
(* ParseTokenParam / PTokParam (parse_params.go) and relied upon here:      *)
(*  V1 Name = the name bytes, Val = the value bytes, both without the       *)
(*     surrounding white space; a QUOTED value INCLUDES both quote          *)
(*     characters (the implementation sets Val at the opening quote and     *)
(*     extends it to the byte after the closing one; the doc is silent).    *)
(*  V2 All = from the first name byte to the last value byte; for a         *)
(*     parameter without value All = Name.  For an EMPTY value ("a=") the   *)
(*     end of All is not determined by anything when white space surrounds  *)
(*     the "=": All is then left out of the record (allDet = FALSE).  With  *)
(*     no white space All = name and "=".                                   *)
(*  V3 an empty or missing value is reported as the empty field <<0,0>>.    *)
(*  V4 verdict/offset at the end of the list:                               *)
(*       terminator byte (',' or '?')  -> "ok",  offset OF the terminator   *)
(*       white space + token (POptTokSpTermF) -> "ok", offset of the white  *)
(*            space byte that precedes the token (generated: exactly one)   *)
(*       end of header (CRLF + non-WS; a lone CR or LF counts as a line     *)
(*            end as everywhere in this framework) -> "eoh", offset of the  *)
(*            first byte after the line end                                 *)
(*       end of input with POptInputEndF -> "eoh", offset = len(buf)        *)
(*     one ParseTokenParam call on a list with a further parameter ->       *)
(*       "morevalues", offset of the first NAME byte of the next parameter. *)
(*  V5 separator: '&' with POptParamAmpSepF / POptTokURIHdrF, else ';';     *)
(*     terminator: '?' with POptTokQmTermF / POptTokURIParamF, else ','     *)
(*     with POptTokCommaTermF, else none.                                   *)
(*  V6 list wrappers: N = number of (non-empty) parameters, stored = the    *)
(*     first min(N, capacity), More = N > capacity, Types = OR over ALL N.  *)
(***************************************************************************)
EXTENDS Lex, Texts

Span(o, l) == IF l = 0 THEN <<0, 0>> ELSE <<o, l>>            \* same convention as PFObs

\* white space choices: none, SP, HT, fold
WSx(w) == CASE w = 0 -> <<>> [] w = 1 -> <<SP>> [] w = 2 -> <<HT>> [] w = 3 -> <<CR, LF, SP>>

\* value kinds
VMissing == 0   \* name
VEmpty   == 1   \* name =
VToken   == 2   \* name = token
VQuoted  == 3   \* name = "quoted"
VQEsc    == 4   \* name = "quoted with \" \\ and embedded separators / terminators"
VMarks   == 5   \* name = token made of every documented mark
HasVal(vk) == vk >= 2

\* an item: all parts are byte tuples; T = the URI parameter type flag that goes with the name
Item(w0, name, T, wa, vk, wb, val, wc) ==
  [w0 |-> w0, name |-> name, T |-> T, wa |-> wa, vk |-> vk, wb |-> wb, val |-> val, wc |-> wc]

ItemTxt(it) ==
  it.w0 \o it.name \o it.wa \o
  (IF it.vk = VMissing THEN <<>>
   ELSE <<EQ>> \o it.wb \o (IF it.vk = VEmpty THEN <<>> ELSE it.val \o it.wc))

\* the intended reading of an item laid out at absolute offset o
ItemGhost(it, o) ==
  LET nameO == o + Len(it.w0)
      nameE == nameO + Len(it.name)
      eqO   == nameE + Len(it.wa)
      valO  == eqO + 1 + Len(it.wb)
      valE  == valO + Len(it.val)
      allE  == CASE it.vk = VMissing -> nameE [] it.vk = VEmpty -> eqO + 1 [] OTHER -> valE
  IN [Name |-> <<nameO, Len(it.name)>>,
      Val  |-> IF HasVal(it.vk) THEN Span(valO, Len(it.val)) ELSE <<0, 0>>,
      All  |-> <<nameO, allE - nameO>>,
      allDet |-> it.vk # VEmpty \/ (Len(it.wa) = 0 /\ Len(it.wb) = 0),
      T |-> it.T, name |-> it.name, val |-> IF HasVal(it.vk) THEN it.val ELSE <<>>]

\* empty list items: g extra separators (3: two, with a blank between them -- an empty item made of white space)
Extra(sepc, g) == CASE g = 0 -> <<>> [] g = 1 -> <<sepc>> [] g = 2 -> <<sepc, sepc>> [] g = 3 -> <<sepc, SP, sepc>>

RECURSIVE Lay(_, _, _, _, _, _)
Lay(sepc, items, gaps, k, txt, acc) ==
  IF k > Len(items) THEN [txt |-> txt \o Extra(sepc, gaps[k]), ps |-> acc]
  ELSE LET pre == txt \o (IF k > 1 THEN <<sepc>> ELSE <<>>) \o Extra(sepc, gaps[k])
       IN Lay(sepc, items, gaps, k + 1, pre \o ItemTxt(items[k]), Append(acc, ItemGhost(items[k], Len(pre))))

\* endings: text after the list, intended verdict, offset = end of the list + adv
EndInput       == [txt |-> <<>>, err |-> EOH, adv |-> 0]                 \* with POptInputEndF
EndEOH         == [txt |-> CRLF \o <<88>>, err |-> EOH, adv |-> 2]       \* CRLF X
EndLone(c, more) == [txt |-> <<c>> \o more, err |-> EOH, adv |-> 1]      \* lone CR / LF + non-WS (or end of input)
EndTerm(c, more) == [txt |-> <<c>> \o more, err |-> OK, adv |-> 0]       \* ',' or '?' and more text
EndSp(w, tok)  == [txt |-> <<w>> \o tok, err |-> OK, adv |-> 0]          \* one blank and a token, POptTokSpTermF

\* a whole list: items (sequence of Item), gaps (Len(items)+1 naturals), ending
GenList(sepc, items, gaps, ending) ==
  LET lay == Lay(sepc, items, gaps, 1, <<>>, <<>>) IN
    [wire |-> lay.txt \o ending.txt, n |-> Len(items), ps |-> lay.ps,
     err |-> ending.err, offs |-> Len(lay.txt) + ending.adv, bodyLen |-> Len(lay.txt)]

\* ---- flags (parse_utils.go)
CommaTermF == 1  QmTermF == 2  SpTermF == 4  InputEndF == 8  SemiSepF == 16  AmpSepF == 32  URIParamF == 64  URIHdrF == 128
HasF(flags, f) == (flags \div f) % 2 = 1
SepOf(flags)  == IF HasF(flags, AmpSepF) \/ HasF(flags, URIHdrF) THEN AMP ELSE SEMI
TermOf(flags) == IF HasF(flags, QmTermF) \/ HasF(flags, URIParamF) THEN QM
                 ELSE IF HasF(flags, CommaTermF) THEN COMMA ELSE 0
ModeOf(flags) == IF HasF(flags, URIParamF) THEN "up" ELSE IF HasF(flags, URIHdrF) THEN "uh" ELSE "pl"

\* the documented name / value character set (the property's list, NOT the code's table)
Marks == {DASH, USCORE, DOT, BANG, TILDE, STAR, SQUOTE, LPAREN, RPAREN}
DocTok(mode, x) == \/ IsAlpha(x) \/ IsDigit(x) \/ x \in Marks \/ x = PCT
                   \/ x \in {LBRACK, RBRACK, SLASH, COLON, PLUS, DOLLAR}
                   \/ (mode = "up" /\ x = AMP)
                   \/ (mode # "up" /\ x = QM)

\* ---- what the caller must observe (keys of harness/obs.go)
ParamObs(p) == IF p.allDet THEN [All |-> p.All, Name |-> p.Name, Val |-> p.Val, Empty |-> FALSE]
               ELSE [Name |-> p.Name, Val |-> p.Val, Empty |-> FALSE]
ParamObsAll(p) == [All |-> p.All, Name |-> p.Name, Val |-> p.Val, Empty |-> FALSE]
NoParamObs  == [All |-> <<0, 0>>, Name |-> <<0, 0>>, Val |-> <<0, 0>>, Empty |-> TRUE]

TypesOf(ps) == LET S == {ps[k].T : k \in 1..Len(ps)}
                   b(v) == IF v \in S THEN v ELSE 0
               IN b(1) + b(2) + b(4) + b(8) + b(16) + b(32) + b(64)
Stored(n, cap) == IF n < cap THEN n ELSE cap

URIParamsObs(L, cap) ==
  LET ns == Stored(L.n, cap) IN
  [N |-> L.n, Types |-> TypesOf(L.ps), More |-> L.n > cap, Empty |-> L.n = 0,
   Params |-> SubSeq([k \in 1..ns |-> [Param |-> ParamObs(L.ps[k]), T |-> L.ps[k].T]], 1, ns)]
URIHdrsObs(L, cap) ==
  LET ns == Stored(L.n, cap) IN
  [N |-> L.n, More |-> L.n > cap, Empty |-> L.n = 0,
   Hdrs |-> SubSeq([k \in 1..ns |-> ParamObs(L.ps[k])], 1, ns)]

\* ---- sanity of the generator itself: every ghost span reads back the part it was built from
GhostSane(L) ==
  /\ L.offs <= Len(L.wire)
  /\ \A k \in 1..L.n : LET p == L.ps[k] IN
       /\ Slice(L.wire, p.Name[1], p.Name[1] + p.Name[2]) = p.name
       /\ Slice(L.wire, p.Val[1], p.Val[1] + p.Val[2]) = p.val
       /\ p.All[1] = p.Name[1] /\ p.All[1] + p.All[2] <= L.bodyLen
       /\ (p.Val[2] > 0 => p.All[1] + p.All[2] = p.Val[1] + p.Val[2])
       /\ (k > 1 => L.ps[k - 1].All[1] + L.ps[k - 1].All[2] < p.Name[1])
=============================================================================
