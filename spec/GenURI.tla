------------------------------- MODULE GenURI -------------------------------
(***************************************************************************)
(* Generator of URIs and URI PAIRS with the comparison result DEMANDED BY   *)
(* THE LAWS of property C15 (DESIGN §3.1 Decl layer).  Nothing here parses: *)
(* an abstract URI is a record of components, its text is produced by       *)
(* concatenation (GU_Render), and the demanded comparison result of a pair  *)
(* is computed from the two RECORDS, never from the texts.                  *)
(*                                                                          *)
(*   abstract URI  [scheme, user, pass, host, port, params, hdrs]           *)
(*     params / hdrs : sequences of items [n, v, e]  (name, value, e = the  *)
(*     "=" is written).  Regular spelling: a parameter writes "=" iff its   *)
(*     value is not empty; a header always writes "=".  The two irregular   *)
(*     spellings (";foo=" and "?s") exist for probing only and put the URI  *)
(*     outside the domain of the laws (GU_WellFormed is false).             *)
(*   GU_Render(u)   scheme ":" [user [":" pass] "@"] host [":" port]        *)
(*                  {";" name ["=" value]} ["?" name "=" value {"&" ...}]   *)
(*   GU_ReCase      flips letter case of the components C15 declares case   *)
(*                  insensitive: scheme, host, parameter names, parameter   *)
(*                  values, header names.  (User, password: case SENSITIVE  *)
(*                  by the property text.  Header VALUES: not mentioned by  *)
(*                  the property, so not covered; bit 32 flips them for     *)
(*                  probing and makes the result undetermined.)             *)
(*   GU_Permute     reorders parameters and headers.                        *)
(*   GU_Demand(u, v, flags) \in {"eq", "ne", "none"}: what the laws demand. *)
(***************************************************************************)
EXTENDS Bytes, Texts

\* value tables, addressed by index (cfg files hold index sets)
GU_Schemes == <<GU_sip, GU_sips>>
GU_Users   == <<GU_e, GU_al, GU_Al>>
GU_Passes  == <<GU_e, GU_pw, GU_Pw>>
GU_Hosts   == <<GU_hx, GU_Hx, GU_gy, GU_v6, GU_v4>>            \* (4: an IPv6 reference with hex letters, 5: an IPv4 address)
GU_Ports   == <<GU_e, GU_5060, GU_5070>>
GU_PNames  == <<GU_transport, GU_user, GU_ttl, GU_method, GU_maddr, GU_lr, GU_foo, GU_bar>>
GU_Vals    == <<GU_e, GU_a, GU_A, GU_b>>
GU_HNames  == <<GU_s, GU_S, GU_t>>
\* value index 5: the irregular spelling of the empty value (parameter "name=", header "name")
\* value index 6: a value that is not a token ("a,b"): the list does not parse            (both: drift / probing only)
GU_IRREG   == 5
GU_BADV    == 6
GU_ValOf(k) == IF k = GU_IRREG THEN <<>> ELSE IF k = GU_BADV THEN GU_acb ELSE GU_Vals[k]
\* "user, ttl, method, maddr parameters must be present in both or neither"
GU_Critical == {GU_user, GU_ttl, GU_method, GU_maddr}

GU_Map(t, Op(_)) == SubSeq([i \in 1..Len(t) |-> Op(t[i])], 1, Len(t))
GU_Lower(t)      == GU_Map(t, ToLower)
GU_Range(s)      == {s[i] : i \in 1..Len(s)}

GU_MkParam(x) == [n |-> GU_PNames[x[1]], v |-> GU_ValOf(x[2]), e |-> IF x[2] = GU_IRREG THEN TRUE ELSE GU_ValOf(x[2]) # <<>>]
GU_MkHdr(x)   == [n |-> GU_HNames[x[1]], v |-> GU_ValOf(x[2]), e |-> x[2] # GU_IRREG]
\* x = <<scheme, user, pass, host, port, params, hdrs>>: indices; params / hdrs: sequences of <<name, value>> indices
GU_Mk(x) == [scheme |-> GU_Schemes[x[1]], user |-> GU_Users[x[2]], pass |-> GU_Passes[x[3]],
             host |-> GU_Hosts[x[4]], port |-> GU_Ports[x[5]],
             params |-> SubSeq([i \in 1..Len(x[6]) |-> GU_MkParam(x[6][i])], 1, Len(x[6])),
             hdrs   |-> SubSeq([i \in 1..Len(x[7]) |-> GU_MkHdr(x[7][i])], 1, Len(x[7]))]

----------------------------------------------------------------------------
\* the text
GU_Item(it) == it.n \o (IF it.e THEN <<EQ>> \o it.v ELSE <<>>)
RECURSIVE GU_Join(_, _, _)
GU_Join(items, k, sep) ==
  IF k > Len(items) THEN <<>>
  ELSE (IF k > 1 THEN <<sep>> ELSE <<>>) \o GU_Item(items[k]) \o GU_Join(items, k + 1, sep)
GU_ParamsText(u) == GU_Join(u.params, 1, SEMI)          \* what the parser calls Params (without the leading ';')
GU_HdrsText(u)   == GU_Join(u.hdrs, 1, AMP)             \* what the parser calls Headers (without the leading '?')
GU_Render(u) ==
  u.scheme \o <<COLON>>
  \o (IF u.user # <<>> THEN u.user \o (IF u.pass # <<>> THEN <<COLON>> \o u.pass ELSE <<>>) \o <<AT>> ELSE <<>>)
  \o u.host
  \o (IF u.port # <<>> THEN <<COLON>> \o u.port ELSE <<>>)
  \o (IF Len(u.params) > 0 THEN <<SEMI>> \o GU_ParamsText(u) ELSE <<>>)
  \o (IF Len(u.hdrs) > 0 THEN <<QM>> \o GU_HdrsText(u) ELSE <<>>)

\* the domain of C15: lists well formed (regular spelling, token values) and free of duplicate names (names are
\* case insensitive)
GU_NoDup(items)  == \A i, j \in 1..Len(items) : i # j => GU_Lower(items[i].n) # GU_Lower(items[j].n)
GU_TokVal(v)     == GU_Lower(v) \in {GU_e, GU_a, GU_b}
GU_WellFormed(u) == /\ (u.user = <<>> => u.pass = <<>>)
                    /\ GU_NoDup(u.params) /\ GU_NoDup(u.hdrs)
                    /\ \A i \in 1..Len(u.params) : u.params[i].e = (u.params[i].v # <<>>) /\ GU_TokVal(u.params[i].v)
                    /\ \A i \in 1..Len(u.hdrs) : u.hdrs[i].e /\ GU_TokVal(u.hdrs[i].v)

----------------------------------------------------------------------------
\* variants
GU_Flip(c) == IF IsUpper(c) THEN c + 32 ELSE IF IsLower(c) THEN c - 32 ELSE c
\* mode 0: every letter; mode 1: the letters at odd positions only (mixed case)
GU_FlipText(t, mode) == SubSeq([i \in 1..Len(t) |-> IF mode = 0 \/ i % 2 = 1 THEN GU_Flip(t[i]) ELSE t[i]], 1, Len(t))
GU_Bit(mask, b) == (mask \div b) % 2 = 1
RC_SCHEME == 1  RC_HOST == 2  RC_PNAMES == 4  RC_PVALS == 8  RC_HNAMES == 16
RC_HVALS == 32                                   \* NOT covered by C15: probing only
RC_LAWMASK == 31
GU_ReCaseItems(items, fn, fv, mode) ==
  SubSeq([i \in 1..Len(items) |-> [items[i] EXCEPT !.n = IF fn THEN GU_FlipText(@, mode) ELSE @,
                                                   !.v = IF fv THEN GU_FlipText(@, mode) ELSE @]], 1, Len(items))
GU_ReCase(u, mask, mode) ==
  [u EXCEPT !.scheme = IF GU_Bit(mask, RC_SCHEME) THEN GU_FlipText(@, mode) ELSE @,
            !.host   = IF GU_Bit(mask, RC_HOST) THEN GU_FlipText(@, mode) ELSE @,
            !.params = GU_ReCaseItems(@, GU_Bit(mask, RC_PNAMES), GU_Bit(mask, RC_PVALS), mode),
            !.hdrs   = GU_ReCaseItems(@, GU_Bit(mask, RC_HNAMES), GU_Bit(mask, RC_HVALS), mode)]

\* pp / ph: permutations of 1..Len(u.params) / 1..Len(u.hdrs)
GU_Perms(n) == {p \in [1..n -> 1..n] : \A i, j \in 1..n : i # j => p[i] # p[j]}
GU_PermSeq(s, p) == SubSeq([i \in 1..Len(s) |-> s[p[i]]], 1, Len(s))
GU_Permute(u, pp, ph) == [u EXCEPT !.params = GU_PermSeq(@, pp), !.hdrs = GU_PermSeq(@, ph)]
GU_Rev(s) == SubSeq([i \in 1..Len(s) |-> s[Len(s) + 1 - i]], 1, Len(s))
GU_Reverse(u) == [u EXCEPT !.params = GU_Rev(@), !.hdrs = GU_Rev(@)]

\* the other spelling of user / password ("al" <-> "Al", "pw" <-> "Pw"): first letter flipped.  which: 1 user, 2 pass, 3 both
GU_Flip1(t) == IF t = <<>> THEN t ELSE <<GU_Flip(t[1])>> \o SubSeq(t, 2, Len(t))
GU_OtherCase(u, which) == [u EXCEPT !.user = IF which \in {1, 3} THEN GU_Flip1(@) ELSE @,
                                    !.pass = IF which \in {2, 3} THEN GU_Flip1(@) ELSE @]
\* one more item at position pos (0 = in front)
GU_Insert(s, pos, it) == SubSeq(s, 1, pos) \o <<it>> \o SubSeq(s, pos + 1, Len(s))
GU_AddParam(u, pos, x) == [u EXCEPT !.params = GU_Insert(@, pos, GU_MkParam(x))]
GU_AddHdr(u, pos, x)   == [u EXCEPT !.hdrs = GU_Insert(@, pos, GU_MkHdr(x))]

----------------------------------------------------------------------------
\* What the laws of C15 demand for a pair.
\* GU_Norm: the URI modulo everything the property declares irrelevant (letter case of scheme, host, parameter names
\* and values, header names; order of parameters and of headers).  User, password, header values and the spelling
\* of an empty value are kept as they are.
GU_Norm(u) == [scheme |-> GU_Lower(u.scheme), user |-> u.user, pass |-> u.pass, host |-> GU_Lower(u.host), port |-> u.port,
               params |-> {[n |-> GU_Lower(p.n), v |-> GU_Lower(p.v), e |-> p.e] : p \in GU_Range(u.params)},
               hdrs   |-> {[n |-> GU_Lower(h.n), v |-> h.v, e |-> h.e] : h \in GU_Range(u.hdrs)}]
\* reflexive + case insensitive + order insensitive: v is u re-cased / permuted
GU_Same(u, v) == GU_Norm(u) = GU_Norm(v)
GU_PNameSet(u) == {GU_Lower(p.n) : p \in GU_Range(u.params)}
GU_PresenceDiffers(u, v) == \E n \in GU_Critical : (n \in GU_PNameSet(u)) # (n \in GU_PNameSet(v))
GU_NoUP(u) == [u EXCEPT !.user = <<>>, !.pass = <<>>]
\* v is u (modulo the irrelevant) except for the letter case of user and / or password
GU_UPCaseOnly(u, v) == /\ GU_Same(GU_NoUP(u), GU_NoUP(v))
                       /\ CmpEq(u.user, v.user) /\ CmpEq(u.pass, v.pass)
                       /\ (u.user # v.user \/ u.pass # v.pass)

SK_PORT == 1  SK_SCHEME == 2  SK_USER == 4  SK_PASS == 8  SK_PARAMS == 16  SK_HEADERS == 32     \* URICmpFlags
\* "eq":   the laws demand `equal`     (under every flag set: reflexivity holds for all 64)
\* "ne":   the laws demand `different`
\* "none": the laws do not determine the answer
\* Symmetric by construction.
GU_Demand(u, v, flags) ==
  IF ~GU_WellFormed(u) \/ ~GU_WellFormed(v) THEN "none"               \* outside the domain of the laws
  ELSE IF GU_Same(u, v) THEN "eq"
  ELSE IF GU_PresenceDiffers(u, v) /\ ~GU_Bit(flags, SK_PARAMS) THEN "ne"
  ELSE IF GU_UPCaseOnly(u, v) /\ (  (u.user # v.user /\ ~GU_Bit(flags, SK_USER))
                                 \/ (u.pass # v.pass /\ ~GU_Bit(flags, SK_PASS))) THEN "ne"
  ELSE "none"

\* F subset of G as flag sets
GU_FlagsSub(F, G) == \A b \in {1, 2, 4, 8, 16, 32} : GU_Bit(F, b) => GU_Bit(G, b)
=============================================================================
