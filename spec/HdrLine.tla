------------------------------ MODULE HdrLine ------------------------------
(***************************************************************************)
(* parse_headers.go: Hdr, HdrLst (PFlags, N, Hdrs, h, hdr), SetHdr/GetHdr,   *)
(* PHdrVals (+Reset/Init/MaxExpires), ParseHdrLine (generic name/value       *)
(* tokenisation + dispatch to the value parsers), ParseHeaders.              *)
(* One CASE arm per Go switch arm, same state names.                         *)
(*   Hdr     = [type, name, val, state]                                      *)
(*   HdrLst  = [pflags (set of types), n, hdrs (caller array), h (13 first-  *)
(*              of-type slots), hdr (scratch)]                               *)
(*   PHdrVals= [from, to, callid, cseq, clen, contacts, pais, expires]       *)
(* hb = NilHB models a nil PHBodies interface.                                *)
(***************************************************************************)
EXTENDS ValLists, FLine

H_Zero == [type |-> HdrNone, name |-> PF0, val |-> PF0, state |-> "hInit"]
Hdr_Obs(h) == [Type |-> h.type, Name |-> PFObs(h.name), Val |-> PFObs(h.val)]
Hdr_Panicked(h) == IsPanicF(h.name) \/ IsPanicF(h.val) \/ h.type = LK_PANIC

----------------------------------------------------------------------------
\* PHdrVals
PV_New(cfg) == [from |-> NA_Zero, to |-> NA_Zero, callid |-> CallID_New(cfg), cseq |-> CSeq_New(cfg),
                clen |-> UInt_New(cfg), contacts |-> Contacts_New(cfg), pais |-> PAIs_New(cfg),
                expires |-> UInt_New(cfg)]
\* func (hv *PHdrVals) Reset()
PV_Reset(pv) == [from |-> NA_Zero, to |-> NA_Zero, callid |-> CallID_New(<<>>), cseq |-> CSeq_New(<<>>),
                 clen |-> UInt_New(<<>>), contacts |-> Contacts_Reset(pv.contacts), pais |-> PAIs_Reset(pv.pais),
                 expires |-> UInt_New(<<>>)]
\* func (hv *PHdrVals) MaxExpires() (uint32, bool)
PV_MaxExpires(pv) ==
  LET m1 == IF Contacts_Parsed(pv.contacts) THEN pv.contacts.maxexp ELSE Zero(2)
      m2 == IF pv.expires.state = "clFIN" /\ Less(m1, pv.expires.val) THEN pv.expires.val ELSE m1
  IN [max |-> m2, ok |-> Contacts_Parsed(pv.contacts) \/ pv.expires.state = "clFIN"]
PV_Obs(pv) == [From |-> NameAddr_Obs(pv.from), To |-> NameAddr_Obs(pv.to), Callid |-> CallID_Obs(pv.callid),
               CSeq |-> CSeq_Obs(pv.cseq), CLen |-> UInt_Obs(pv.clen), Contacts |-> Contacts_Obs(pv.contacts),
               PAIs |-> PAIs_Obs(pv.pais), Expires |-> UInt_Obs(pv.expires),
               MaxExpires |-> PV_MaxExpires(pv).max, MaxExpiresOk |-> PV_MaxExpires(pv).ok]
PV_Panicked(pv) == NameAddr_Panicked(pv.from) \/ NameAddr_Panicked(pv.to) \/ CallID_Panicked(pv.callid)
                   \/ CSeq_Panicked(pv.cseq) \/ UInt_Panicked(pv.clen) \/ UInt_Panicked(pv.expires)
                   \/ Contacts_Panicked(pv.contacts) \/ PAIs_Panicked(pv.pais)

----------------------------------------------------------------------------
HRet(h, hb, o, e) == [h |-> h, hb |-> hb, offs |-> o, err |-> e]
NilHB == [nil |-> TRUE]
IsNil(hb) == "nil" \in DOMAIN hb          \* (a record cannot be compared with a string in TLC)

\* "continue <kind> parsing" arms and the dispatch of parseBody share this: run the value parser `which`
\* on the header's value, fix up h.Val on success.  fin: set h.state = hFIN on success.
HL_Value(which, buf, o, h, hb) ==
  CASE which = "hFrom" ->
         LET r == NameAddr_Parse(HdrFrom, buf, o, hb.from) IN
           HRet(IF r.err = OK THEN [h EXCEPT !.val = r.st.v] ELSE h, [hb EXCEPT !.from = r.st], r.offs, r.err)
    [] which = "hTo" ->
         LET r == NameAddr_Parse(HdrTo, buf, o, hb.to) IN
           HRet(IF r.err = OK THEN [h EXCEPT !.val = r.st.v] ELSE h, [hb EXCEPT !.to = r.st], r.offs, r.err)
    [] which = "hCallID" ->
         LET r == CallID_CallRaw(buf, o, hb.callid) IN
           HRet(IF r.err = OK THEN [h EXCEPT !.val = r.st.callid] ELSE h, [hb EXCEPT !.callid = r.st], r.offs, r.err)
    [] which = "hCSeq" ->
         LET r == CSeq_CallRaw(buf, o, hb.cseq) IN
           HRet(IF r.err = OK THEN [h EXCEPT !.val = r.st.v] ELSE h, [hb EXCEPT !.cseq = r.st], r.offs, r.err)
    [] which = "hCLen" ->
         LET r == CLen_CallRaw(buf, o, hb.clen) IN
           HRet(IF r.err = OK THEN [h EXCEPT !.val = r.st.sval] ELSE h, [hb EXCEPT !.clen = r.st], r.offs, r.err)
    [] which = "hExpires" ->
         LET r == UInt_CallRaw(buf, o, hb.expires) IN
           HRet(IF r.err = OK THEN [h EXCEPT !.val = r.st.sval] ELSE h, [hb EXCEPT !.expires = r.st], r.offs, r.err)
    [] which = "hContact" ->
         LET r == Contacts_Parse(buf, o, hb.contacts) IN
           HRet(IF r.err = OK THEN [h EXCEPT !.val = r.st.lasthval] ELSE h, [hb EXCEPT !.contacts = r.st], r.offs, r.err)
    [] which = "hPAI" ->
         LET r == PAIs_Parse(buf, o, hb.pais) IN
           HRet(IF r.err = OK THEN [h EXCEPT !.val = r.st.lasthval] ELSE h, [hb EXCEPT !.pais = r.st], r.offs, r.err)

\* the closure parseBody(buf, o, h, hb): returns (n, err) and may change h.state / h.Val / the bodies
HL_ParseBody(buf, o, h, hb) ==
  IF IsNil(hb) THEN HRet(h, hb, o, OK)
  ELSE CASE h.type = HdrFrom    /\ ~NA_Parsed(hb.from)          -> HL_Value("hFrom", buf, o, [h EXCEPT !.state = "hFrom"], hb)
         [] h.type = HdrTo      /\ ~NA_Parsed(hb.to)            -> HL_Value("hTo", buf, o, [h EXCEPT !.state = "hTo"], hb)
         [] h.type = HdrCallID  /\ hb.callid.state # "ciFIN"    -> HL_Value("hCallID", buf, o, [h EXCEPT !.state = "hCallID"], hb)
         [] h.type = HdrCSeq    /\ hb.cseq.state # "csFIN"      -> HL_Value("hCSeq", buf, o, [h EXCEPT !.state = "hCSeq"], hb)
         [] h.type = HdrCLen    /\ hb.clen.state # "clFIN"      -> HL_Value("hCLen", buf, o, [h EXCEPT !.state = "hCLen"], hb)
         [] h.type = HdrExpires /\ hb.expires.state # "clFIN"   -> HL_Value("hExpires", buf, o, [h EXCEPT !.state = "hExpires"], hb)
         [] h.type = HdrContact ->
              \* if h.state != hContact { contacts.HNo++; contacts.LastHVal.Reset() }  (new Contact header)
              LET hb1 == IF h.state # "hContact"
                         THEN [hb EXCEPT !.contacts.hno = hb.contacts.hno + 1, !.contacts.lasthval = PF0] ELSE hb
              IN HL_Value("hContact", buf, o, [h EXCEPT !.state = "hContact"], hb1)
         [] h.type = HdrPAI ->
              LET hb1 == IF h.state # "hPAI"
                         THEN [hb EXCEPT !.pais.hno = hb.pais.hno + 1, !.pais.lasthval = PF0] ELSE hb
              IN HL_Value("hPAI", buf, o, [h EXCEPT !.state = "hPAI"], hb1)
         [] OTHER -> HRet(h, hb, o, OK)

SpecificStates == {"hFrom", "hTo", "hCallID", "hCSeq", "hCLen", "hContact", "hExpires", "hPAI"}

RECURSIVE HL_Run(_, _, _, _)
\* after the ':' : h.Type known, i already past the ':' -- shared by the hName and hNameEnd arms
HL_AfterColon(buf, i, h, hb) ==
  LET r == HL_ParseBody(buf, i, h, hb) IN
    IF r.h.state # "hBodyStart"
      THEN HRet(IF r.err = OK THEN [r.h EXCEPT !.state = "hFIN"] ELSE r.h, r.hb, r.offs, r.err)
      ELSE HL_Run(buf, i, r.h, r.hb)

HL_EndOfHdr(h, hb, i, crl) == HRet([h EXCEPT !.state = "hFIN"], hb, i + crl, OK)

HL_NameArm(buf, i0, h, hb) ==                                   \* case hName:
  LET i == SkipTokenDelim(buf, i0, COLON) IN
    IF i >= Len(buf) THEN HRet(h, hb, i, MORE)
    ELSE IF IsWS(B(buf, i)) THEN
           LET h1 == [h EXCEPT !.state = "hNameEnd", !.name = PFExtend(h.name, i)] IN
             IF PFEmpty(h1.name) THEN HRet(h1, hb, i, BADCHAR) ELSE HL_Run(buf, i + 1, h1, hb)
    ELSE IF B(buf, i) = COLON THEN
           LET h1 == [h EXCEPT !.state = "hBodyStart", !.name = PFExtend(h.name, i)] IN
             IF PFEmpty(h1.name) THEN HRet(h1, hb, i, BADCHAR)
             ELSE HL_AfterColon(buf, i + 1, [h1 EXCEPT !.type = GetHdrType(PFGet(buf, h1.name))], hb)
    ELSE HRet(h, hb, i, BADCHAR)

HL_ValEndArm(buf, i0, h, hb) ==                                 \* case hValEnd:
  LET r == SkipLWS(buf, i0, FALSE) IN
    CASE r.e = OK  -> HL_Run(buf, r.o + 1, [h EXCEPT !.state = "hVal"], hb)
      [] r.e = EOH -> HL_EndOfHdr(h, hb, r.o, r.crl)
      [] OTHER     -> HRet(h, hb, r.o, r.e)

HL_Run(buf, i, h, hb) ==
  IF i >= Len(buf) THEN HRet(h, hb, i, MORE)                                    \* moreBytes:
  ELSE
  CASE h.state = "hInit" ->
         IF B(buf, i) = CR THEN
              IF Len(buf) - i < 2 THEN HRet(h, hb, i, MORE)
              ELSE IF B(buf, i + 1) = LF THEN HRet([h EXCEPT !.state = "hFIN"], hb, i + 2, EMPTY)
              ELSE HRet([h EXCEPT !.state = "hFIN"], hb, i + 1, EMPTY)
         ELSE IF B(buf, i) = LF THEN HRet([h EXCEPT !.state = "hFIN"], hb, i + 1, EMPTY)
         ELSE HL_NameArm(buf, i, [h EXCEPT !.state = "hName", !.name = PFSet(i, i)], hb)       \* fallthrough
    [] h.state = "hName" -> HL_NameArm(buf, i, h, hb)
    [] h.state = "hNameEnd" ->
         LET j == SkipWS(buf, i) IN
           IF j >= Len(buf) THEN HRet(h, hb, j, MORE)
           ELSE IF B(buf, j) = COLON
             THEN HL_AfterColon(buf, j + 1, [h EXCEPT !.state = "hBodyStart", !.type = GetHdrType(PFGet(buf, h.name))], hb)
           ELSE HRet(h, hb, j, BADCHAR)
    [] h.state = "hBodyStart" ->
         LET r == SkipLWS(buf, i, FALSE) IN
           CASE r.e = OK  -> HL_Run(buf, r.o + 1, [h EXCEPT !.state = "hVal", !.val = PFSet(r.o, r.o)], hb)
             [] r.e = EOH -> HL_EndOfHdr(h, hb, r.o, r.crl)                      \* empty value
             [] OTHER     -> HRet(h, hb, r.o, r.e)
    [] h.state = "hVal" ->
         LET j == SkipToken(buf, i) IN
           IF j >= Len(buf) THEN HRet(h, hb, j, MORE)
           ELSE HL_ValEndArm(buf, j, [h EXCEPT !.val = PFExtend(h.val, j), !.state = "hValEnd"], hb)   \* fallthrough
    [] h.state = "hValEnd" -> HL_ValEndArm(buf, i, h, hb)
    [] h.state \in SpecificStates ->                                             \* continue <kind> parsing
         \* NOTE: with hb == nil the Go code would dereference a nil interface here (panic); unreachable unless
         \* the caller changes hb between calls -- not modelled.
         LET r == HL_Value(h.state, buf, i, h, hb) IN
           HRet(IF r.err = OK THEN [r.h EXCEPT !.state = "hFIN"] ELSE r.h, r.hb, r.offs, r.err)
    [] OTHER -> HRet(h, hb, i, BUG)                                              \* hFIN: unexpected state

\* func ParseHdrLine(buf []byte, offs int, h *Hdr, hb PHBodies) (int, ErrorHdr)                -- raw
HdrLine_Parse(buf, offs, h, hb) == HL_Run(buf, offs, h, hb)

----------------------------------------------------------------------------
\* HdrLst
HLst_Array(n) == SubSeq([j \in 1..n |-> H_Zero], 1, n)
HLst_New(cap) == [pflags |-> {}, n |-> 0, hdrs |-> HLst_Array(cap), h |-> HLst_Array(13), hdr |-> H_Zero]
\* func (hl *HdrLst) Reset(): every element of Hdrs is reset, everything else zero
HLst_Reset(hl) == HLst_New(Len(hl.hdrs))
\* func (hl *HdrLst) SetHdr(newhdr *Hdr) bool
HLst_SetHdr(hl, nh) == LET k == nh.type - 1 IN
  IF k >= 0 /\ k < 13 /\ hl.h[k + 1].type = HdrNone THEN [hl EXCEPT !.h[k + 1] = nh] ELSE hl
RECURSIVE FlagsVal(_, _)
FlagsVal(S, t) == IF t > HdrOther THEN 0 ELSE (IF t \in S THEN 2 ^ t ELSE 0) + FlagsVal(S, t + 1)
HLst_Stored(hl) == IF hl.n > Len(hl.hdrs) THEN Len(hl.hdrs) ELSE hl.n
HLst_Obs(hl) == [PFlags |-> FlagsVal(hl.pflags, 0), N |-> hl.n,
                 Hdrs |-> SubSeq([j \in 1..HLst_Stored(hl) |-> Hdr_Obs(hl.hdrs[j])], 1, HLst_Stored(hl)),
                 First |-> SubSeq([t \in 1..13 |-> Hdr_Obs(hl.h[t])], 1, 13)]
HLst_Panicked(hl) == Hdr_Panicked(hl.hdr) \/ \E j \in 1..Len(hl.hdrs) : Hdr_Panicked(hl.hdrs[j])

HsRet(hl, hb, o, e) == [hl |-> hl, hb |-> hb, offs |-> o, err |-> e]
\* func ParseHeaders(buf []byte, offs int, hl *HdrLst, hb PHBodies) (int, ErrorHdr)            -- raw
RECURSIVE Headers_Loop(_, _, _, _)
Headers_Loop(buf, i, hl, hb) ==
  IF i >= Len(buf) THEN HsRet(hl, hb, i, MORE)
  ELSE LET scratch == ~(hl.n < Len(hl.hdrs))
           h  == IF scratch THEN hl.hdr ELSE hl.hdrs[hl.n + 1]
           r  == HdrLine_Parse(buf, i, h, hb)
           hl1 == IF scratch THEN [hl EXCEPT !.hdr = r.h] ELSE [hl EXCEPT !.hdrs[hl.n + 1] = r.h]
       IN IF Hdr_Panicked(r.h) \/ (~IsNil(r.hb) /\ PV_Panicked(r.hb)) THEN HsRet(hl1, r.hb, r.offs, PANIC)
          ELSE CASE r.err = OK ->
                      LET hl2 == HLst_SetHdr([hl1 EXCEPT !.pflags = hl1.pflags \cup {r.h.type}], r.h)
                          hl3 == IF scratch THEN [hl2 EXCEPT !.hdr = H_Zero] ELSE hl2
                      IN Headers_Loop(buf, r.offs, [hl3 EXCEPT !.n = hl3.n + 1], r.hb)
                 [] r.err = EMPTY -> IF hl1.n > 0 THEN HsRet(hl1, r.hb, r.offs, OK) ELSE HsRet(hl1, r.hb, r.offs, EMPTY)
                 [] OTHER -> HsRet(hl1, r.hb, r.offs, r.err)
Headers_Parse(buf, offs, hl, hb) == Headers_Loop(buf, offs, hl, hb)

----------------------------------------------------------------------------
\* Stream kinds: "hdrline" (hb nil), "hdrlineb", "headers" (hb nil), "headersb"
CapOr(c, d) == IF c < 0 THEN d ELSE c
HdrLineK_New(cfg)  == [h |-> H_Zero, pv |-> IF cfg.kind = "hdrlineb" THEN PV_New(cfg) ELSE NilHB]
HdrLineK_Call(buf, offs, st, cfg) ==
  LET r == HdrLine_Parse(buf, offs, st.h, st.pv)
      p == Hdr_Panicked(r.h) \/ (~IsNil(r.hb) /\ PV_Panicked(r.hb))
  IN [st |-> [h |-> r.h, pv |-> r.hb], offs |-> r.offs, err |-> IF p THEN PANIC ELSE r.err]
HdrLineK_Obs(st) == IF IsNil(st.pv) THEN [H |-> Hdr_Obs(st.h)] ELSE [H |-> Hdr_Obs(st.h), PV |-> PV_Obs(st.pv)]
HdrLineK_Reset(st) == [h |-> H_Zero, pv |-> IF IsNil(st.pv) THEN NilHB ELSE PV_Reset(st.pv)]

HeadersK_New(cfg)  == [hl |-> HLst_New(CapOr(cfg.hcap, 0)), pv |-> IF cfg.kind = "headersb" THEN PV_New(cfg) ELSE NilHB]
HeadersK_Call(buf, offs, st, cfg) ==
  LET r == Headers_Parse(buf, offs, st.hl, st.pv)
      p == r.err = PANIC \/ HLst_Panicked(r.hl) \/ (~IsNil(r.hb) /\ PV_Panicked(r.hb))
  IN [st |-> [hl |-> r.hl, pv |-> r.hb], offs |-> r.offs, err |-> IF p THEN PANIC ELSE r.err]
HeadersK_Obs(st) == IF IsNil(st.pv) THEN [HL |-> HLst_Obs(st.hl)] ELSE [HL |-> HLst_Obs(st.hl), PV |-> PV_Obs(st.pv)]
HeadersK_Reset(st) == [hl |-> HLst_Reset(st.hl), pv |-> IF IsNil(st.pv) THEN NilHB ELSE PV_Reset(st.pv)]
=============================================================================
