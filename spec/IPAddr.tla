------------------------------- MODULE IPAddr -------------------------------
(***************************************************************************)
(* ip_prefix.go: IP4Prefix, ContainsIP4 (pure functions).                   *)
(*   IP4_Prefix(s)   = [ok, n, err, ip]    IP4_Contains(s) = [ok, at, len, ip] *)
(* ip = the contents of the caller's dst slice after the call (dst is a     *)
(* fresh zeroed slice of DstLen bytes: it is written only when an address   *)
(* is reported, otherwise it stays all zero).                               *)
(* Declarative predicates for property C20 are at the end.                  *)
(***************************************************************************)
EXTENDS Lex, FiniteSets

DstLen == 4                                  \* len(dst) used by the harness (args.dst)

ZeroDst(dl) == SubSeq([k \in 1..dl |-> 0], 1, dl)
\* if len(dst) > 0 { copy(dst, ip[:]) }  -- copies min(len(dst), 4) bytes into the zeroed dst
CopyDst(ip, dl) == SubSeq([k \in 1..dl |-> IF k <= 4 THEN ip[k] ELSE 0], 1, dl)

P4(ok, n, e, ip) == [ok |-> ok, n |-> n, err |-> e, ip |-> ip]

\* func IP4Prefix(buf, dst) (bool, int, ErrorHdr): the loop `for ; o < len(buf); o++`
\* locals: ip [4]byte (1-based tuple here), pos, digits
RECURSIVE IP4_Run(_, _, _, _, _, _)
IP4_Run(buf, o, ip, pos, digits, dl) ==
  IF o >= Len(buf) THEN
    IF pos < 3 \/ digits = 0 THEN P4(FALSE, o, MORE, ZeroDst(dl))        \* too few dots / last part empty: truncated
    ELSE P4(TRUE, o, OK, CopyDst(ip, dl))
  ELSE LET c == B(buf, o) IN
    IF c <= 57 /\ c >= 48 THEN
      LET d1 == digits + 1 IN                                            \* digits++
        IF d1 > 3 \/ ip[pos + 1] * 10 + (c - 48) > 255 THEN              \* too many digits or out of range
          IF pos < 3 THEN P4(FALSE, o, BAD, ZeroDst(dl))                 \* too few dots
          ELSE P4(TRUE, o, MOREVALUES, CopyDst(ip, dl))                  \* ip followed by a number
        ELSE IP4_Run(buf, o + 1, [ip EXCEPT ![pos + 1] = (ip[pos + 1] * 10 + c - 48) % 256], pos, d1, dl)
    ELSE IF c = DOT THEN
      IF digits = 0 THEN P4(FALSE, o, BAD, ZeroDst(dl))                  \* "1.2.3.." or "1.2..3.4"
      ELSE IF pos + 1 > 3 THEN P4(TRUE, o, BADCHAR, CopyDst(ip, dl))     \* too many dots: ip, then a bad char
      ELSE IP4_Run(buf, o + 1, [ip EXCEPT ![pos + 2] = 0], pos + 1, 0, dl)
    ELSE                                                                 \* unknown char
      IF pos < 3 \/ digits = 0 THEN P4(FALSE, o, BAD, ZeroDst(dl))
      ELSE P4(TRUE, o, BADCHAR, CopyDst(ip, dl))

IP4_PrefixDst(s, dl) == IP4_Run(s, 0, <<0, 0, 0, 0>>, 0, 0, dl)
IP4_Prefix(s) == IP4_PrefixDst(s, DstLen)

\* bytes.IndexByte(buf[i:], c) + i, or -1
RECURSIVE IndexByteFrom(_, _, _)
IndexByteFrom(buf, i, c) == IF i >= Len(buf) THEN -1 ELSE IF B(buf, i) = c THEN i ELSE IndexByteFrom(buf, i + 1, c)

C4(ok, at, l, ip) == [ok |-> ok, at |-> at, len |-> l, ip |-> ip]

\* func ContainsIP4(buf, dst) (bool, int, int)
\* inner loop: for o := offs; o < dOffs; o++ { ok, nxt, _ := IP4Prefix(buf[o:], dst); if ok {return true, o, nxt} }
RECURSIVE IP4C_Try(_, _, _, _)
IP4C_Try(buf, o, dOffs, dl) ==
  IF o >= dOffs THEN C4(FALSE, 0, 0, ZeroDst(dl))
  ELSE LET r == IP4_PrefixDst(Slice(buf, o, Len(buf)), dl) IN
         IF r.ok THEN C4(TRUE, o, r.n, r.ip) ELSE IP4C_Try(buf, o + 1, dOffs, dl)
\* outer loop: for i := 0; i < len(buf); { ... i = dOffs + 1 }
RECURSIVE IP4C_Outer(_, _, _)
IP4C_Outer(buf, i, dl) ==
  IF i >= Len(buf) THEN C4(FALSE, 0, 0, ZeroDst(dl))
  ELSE LET dOffs == IndexByteFrom(buf, i, DOT) IN
    IF dOffs = -1 THEN C4(FALSE, 0, 0, ZeroDst(dl))                      \* break: no ip
    ELSE LET offs == IF dOffs >= 3 THEN dOffs - 3 ELSE i                 \* NOTE: dOffs-3 may be before i
             t    == IP4C_Try(buf, offs, dOffs, dl) IN
           IF t.ok THEN t ELSE IP4C_Outer(buf, dOffs + 1, dl)

IP4_ContainsDst(s, dl) == IP4C_Outer(s, 0, dl)
IP4_Contains(s) == IP4_ContainsDst(s, DstLen)

\* exactly the result records of harness/fn.go
IP4Prefix_Res(s)   == IP4_Prefix(s)          \* [ok, n, err, ip]
ContainsIP4_Res(s) == IP4_Contains(s)        \* [ok, at, len, ip]

----------------------------------------------------------------------------
(***************************************************************************)
(* IP6Prefix / ContainsIP6 (growth; no declarative property).               *)
(* NOTE: IP6Prefix writes dst BEFORE the final bracket checks that can turn *)
(* the result into false ("[::1x"), so a rejected text can leave an address *)
(* in dst; ContainsIP6 hands the same dst to every attempt.  The dst        *)
(* contents are therefore threaded through: IP6_PrefixD(s, dst) = result    *)
(* with ip = dst afterwards.                                                *)
(***************************************************************************)
Dst6Len == 16
\* hexDigToI: >= 0 iff c < 128 and c is a hex digit
HexVal(c) == IF c >= 48 /\ c <= 57 THEN c - 48
             ELSE IF c >= 65 /\ c <= 70 THEN c - 65 + 10
             ELSE IF c >= 97 /\ c <= 102 THEN c - 97 + 10 ELSE -1
Zero8 == <<0, 0, 0, 0, 0, 0, 0, 0>>
\* locals of IP6Prefix: a1, a2 = addrBuf1/2, two = (addr == &addrBuf2), i, i1, colons, fc = foundColon,
\* digits, bs/be = bracketSt/End, err
IP6_Locals(bs) == [a1 |-> Zero8, a2 |-> Zero8, two |-> FALSE, i |-> 0, i1 |-> 0, colons |-> 0, fc |-> FALSE,
                   digits |-> 0, bs |-> bs, be |-> FALSE, err |-> OK]
X6(st, o, x) == [st |-> st, o |-> o, x |-> x]      \* x: "loop" = loop left (end or break), "end" = goto end, "ret" = return false, o, Bad
RECURSIVE IP6_Loop(_, _, _)
IP6_Loop(buf, o, st) ==
  IF o >= Len(buf) THEN X6(st, o, "loop")
  ELSE LET c == B(buf, o) IN
    IF c = COLON THEN
      LET cn == st.colons + 1  st1 == [st EXCEPT !.colons = cn] IN
        IF cn > 7 /\ (cn > 8 \/ (~st.two /\ ~st.fc)) THEN X6([st1 EXCEPT !.err = BADCHAR], o, "end")
        ELSE IF st.fc THEN                                           \* "::"
          IF st.two THEN X6(st1, o, "ret")                           \* a second "::"
          ELSE IP6_Loop(buf, o + 1, [st1 EXCEPT !.i1 = st.i, !.i = 0, !.two = TRUE])
        ELSE IP6_Loop(buf, o + 1, [st1 EXCEPT !.fc = TRUE, !.i = st.i + 1, !.digits = 0])
    ELSE IF HexVal(c) >= 0 THEN
      LET d1 == st.digits + 1  st1 == [st EXCEPT !.fc = FALSE, !.digits = d1] IN
        IF d1 > 4 THEN X6([st1 EXCEPT !.err = MOREVALUES], o, "loop")     \* break
        ELSE IF st.two                                               \* addr[i] = addr[i]<<4 + v  (i <= 7 always)
          THEN IP6_Loop(buf, o + 1, [st1 EXCEPT !.a2[st.i + 1] = (st.a2[st.i + 1] * 16 + HexVal(c)) % 65536])
          ELSE IP6_Loop(buf, o + 1, [st1 EXCEPT !.a1[st.i + 1] = (st.a1[st.i + 1] * 16 + HexVal(c)) % 65536])
    ELSE IF st.bs /\ c = RBRACK THEN X6([st EXCEPT !.be = TRUE], o, "loop")   \* break
    ELSE X6([st EXCEPT !.err = BADCHAR], o, "loop")                  \* break

Dst6Of(a) == SubSeq([k \in 1..16 |-> IF k % 2 = 1 THEN a[(k + 1) \div 2] \div 256 ELSE a[k \div 2] % 256], 1, 16)

IP6_PrefixD(buf, dst) ==
  LET bs == Len(buf) > 1 /\ B(buf, 0) = LBRACK
      l  == IP6_Loop(buf, IF bs THEN 1 ELSE 0, IP6_Locals(bs)) IN
  IF l.x = "ret" THEN P4(FALSE, l.o, BAD, dst)
  ELSE
    LET s0  == l.st
        s1  == IF l.x = "loop" /\ ~s0.fc THEN [s0 EXCEPT !.i = s0.i + 1] ELSE s0      \* if !foundColon { i++ }
        \* end:
        bad0 == s1.digits = 0 /\ ~s1.fc
        res1 == ~bad0
        err1 == IF bad0 THEN (IF ~s1.be THEN MORE ELSE BAD) ELSE s1.err
    IN
    IF ~s1.two /\ (s1.colons < 7 \/ s1.digits = 0) THEN              \* no "::": too few colons / last part empty
      (IF err1 # OK \/ s1.be THEN P4(FALSE, l.o, BAD, dst) ELSE P4(FALSE, l.o, MORE, dst))
    ELSE
      LET \* rest := 8 - i - i1; copy(addrBuf1[i1+rest:], addrBuf2[:i])
          a   == IF s1.two THEN [k \in 1..8 |-> IF k > 8 - s1.i THEN s1.a2[k - (8 - s1.i)] ELSE s1.a1[k]]
                 ELSE s1.a1
          d2  == IF Len(dst) >= 16 THEN Dst6Of(a) \o SubSeq(dst, 17, Len(dst)) ELSE dst
          o   == l.o IN
        CASE err1 = OK ->
               IF s1.bs THEN
                 (IF s1.be THEN (IF o + 1 < Len(buf) THEN P4(res1, o + 1, MOREVALUES, d2) ELSE P4(res1, o + 1, OK, d2))
                  ELSE P4(res1, o, MORE, d2))                        \* needs the closing bracket
               ELSE IF s1.be THEN P4(res1, o, BADCHAR, d2) ELSE P4(res1, o, OK, d2)
          [] err1 = MOREVALUES ->
               IF s1.bs /\ ~s1.be THEN P4(FALSE, o, BAD, d2) ELSE P4(res1, o, MOREVALUES, d2)
          [] err1 = BADCHAR /\ s1.bs -> P4(FALSE, o, BAD, d2)
          [] OTHER -> P4(res1, o, err1, d2)

IP6_Prefix(s) == IP6_PrefixD(s, ZeroDst(Dst6Len))

RECURSIVE IP6C_Try(_, _, _, _)
IP6C_Try(buf, o, dOffs, dst) ==
  IF o >= dOffs THEN C4(FALSE, 0, 0, dst)
  ELSE LET r == IP6_PrefixD(Slice(buf, o, Len(buf)), dst) IN
         IF r.ok THEN C4(TRUE, o, r.n, r.ip) ELSE IP6C_Try(buf, o + 1, dOffs, r.ip)
RECURSIVE IP6C_Outer(_, _, _)
IP6C_Outer(buf, i, dst) ==
  IF i >= Len(buf) THEN C4(FALSE, 0, 0, dst)
  ELSE LET dOffs == IndexByteFrom(buf, i, COLON) IN
    IF dOffs = -1 THEN C4(FALSE, 0, 0, dst)
    ELSE LET offs == IF dOffs >= 5 THEN dOffs - 5 ELSE i             \* 4 chars ipv6 segment + optional '['
             t    == IP6C_Try(buf, offs, dOffs, dst) IN
           IF t.ok THEN t ELSE IP6C_Outer(buf, dOffs + 1, t.ip)
IP6_Contains(s) == IP6C_Outer(s, 0, ZeroDst(Dst6Len))

IP6Prefix_Res(s)   == IP6_Prefix(s)          \* [ok, n, err, ip]
ContainsIP6_Res(s) == IP6_Contains(s)        \* [ok, at, len, ip]

----------------------------------------------------------------------------
(***************************************************************************)
(* C20, declaratively.                                                      *)
(***************************************************************************)
\* a group: one to three digits, value at most 255
RECURSIVE DQ_Val(_)
DQ_Val(g) == IF Len(g) = 0 THEN 0 ELSE DQ_Val(SubSeq(g, 1, Len(g) - 1)) * 10 + (g[Len(g)] - 48)
IsGroup(g) == Len(g) \in 1..3 /\ (\A k \in 1..Len(g) : IsDigit(g[k])) /\ DQ_Val(g) <= 255
\* four dot-separated groups: d = the (1-based) positions of the three dots.  Groups of 1..3 digits put
\* the dots at 2..4, 4..8, 6..12 and make the whole 7..15 bytes long (this only narrows the search).
DQ_Split(q) == {d \in (2..4) \X (4..8) \X (6..12) :
                  /\ d[1] < d[2] /\ d[2] < d[3] /\ d[3] < Len(q)
                  /\ q[d[1]] = DOT /\ q[d[2]] = DOT /\ q[d[3]] = DOT
                  /\ IsGroup(SubSeq(q, 1, d[1] - 1)) /\ IsGroup(SubSeq(q, d[1] + 1, d[2] - 1))
                  /\ IsGroup(SubSeq(q, d[2] + 1, d[3] - 1)) /\ IsGroup(SubSeq(q, d[3] + 1, Len(q)))}
IsDottedQuad(q) == Len(q) \in 7..15 /\ DQ_Split(q) # {}
DQ_Bytes(q) == LET d == CHOOSE x \in DQ_Split(q) : TRUE IN
                 <<DQ_Val(SubSeq(q, 1, d[1] - 1)), DQ_Val(SubSeq(q, d[1] + 1, d[2] - 1)),
                   DQ_Val(SubSeq(q, d[2] + 1, d[3] - 1)), DQ_Val(SubSeq(q, d[3] + 1, Len(q)))>>

\* r = [ok, at, len, ip]: found iff some substring is a dotted quad; the reported span is one and
\* its groups are the returned bytes
ContainsDecl(s, r) ==
  /\ r.ok <=> \E i \in 0..Len(s) : \E j \in i..Len(s) : IsDottedQuad(Slice(s, i, j))
  /\ r.ok => /\ r.at >= 0 /\ r.len >= 0 /\ r.at + r.len <= Len(s)
             /\ IsDottedQuad(Slice(s, r.at, r.at + r.len))
             /\ r.ip = DQ_Bytes(Slice(s, r.at, r.at + r.len))

\* r = [ok, n, err, ip]: accepted iff some prefix is a dotted quad; n = the first byte that cannot
\* extend it (= the end of the longest such prefix); err tells what follows at n
DQ_PrefixLens(s) == {k \in 0..Len(s) : IsDottedQuad(Slice(s, 0, k))}
DQ_Max(S) == CHOOSE m \in S : \A x \in S : x <= m
PrefixDecl(s, r) ==
  /\ r.ok <=> DQ_PrefixLens(s) # {}
  /\ r.ok => LET n == DQ_Max(DQ_PrefixLens(s)) IN
               /\ r.n = n
               /\ r.ip = DQ_Bytes(Slice(s, 0, n))
               /\ r.err = (IF n = Len(s) THEN OK ELSE IF IsDigit(B(s, n)) THEN MOREVALUES ELSE BADCHAR)

\* not demanded by the statement (doc comment of IP4Prefix): a rejected text is "more bytes" iff it can
\* still be completed to a text starting with a dotted quad, "bad" otherwise; dst is left untouched.
DQ_IsPartialGroup(g) == Len(g) = 0 \/ IsGroup(g)
RECURSIVE DQ_Completable(_, _)
DQ_Completable(s, dots) ==          \* s = what is left, dots = dots still needed
  LET k == IndexByteFrom(s, 0, DOT) IN
    IF k = -1 THEN DQ_IsPartialGroup(s)
    ELSE dots > 0 /\ IsGroup(Slice(s, 0, k)) /\ DQ_Completable(Slice(s, k + 1, Len(s)), dots - 1)
----------------------------------------------------------------------------
(***************************************************************************)
(* IPv6, declaratively (beyond C20, which speaks about IPv4 only):          *)
(* soundness of what IP6Prefix / ContainsIP6 report -- the reported span is *)
(* an RFC 4291 text address (forms 1 and 2: eight groups of 1..4 hex        *)
(* digits, or fewer with exactly one "::"), optionally in brackets.         *)
(***************************************************************************)
IsHexDig(c) == IsDigit(c) \/ (c >= 97 /\ c <= 102) \/ (c >= 65 /\ c <= 70)
\* positions (1-based) of the colons of q
V6Colons(q) == {k \in 1..Len(q) : q[k] = COLON}
\* the maximal colon-free pieces of q are hex groups of 1..4 digits (empty pieces only next to a "::")
V6GroupsOk(q) ==
  \A i \in 1..Len(q) : q[i] # COLON =>
     /\ IsHexDig(q[i])
     /\ \E a \in 1..i : \E b \in i..Len(q) :
          /\ b - a + 1 <= 4
          /\ (a = 1 \/ q[a - 1] = COLON) /\ (b = Len(q) \/ q[b + 1] = COLON)
          /\ \A k \in a..b : q[k] # COLON
V6NGroups(q) == Cardinality({i \in 1..Len(q) : q[i] # COLON /\ (i = 1 \/ q[i - 1] = COLON)})
V6DoubleAt(q) == {k \in 1..(Len(q) - 1) : q[k] = COLON /\ q[k + 1] = COLON}
IsIP6Bare(q) ==
  /\ Len(q) >= 2 /\ V6GroupsOk(q)
  /\ Cardinality(V6DoubleAt(q)) <= 1                                    \* at most one "::" (":::" would be two)
  /\ (q[1] = COLON => 1 \in V6DoubleAt(q))                              \* a leading / trailing colon is part of the "::"
  /\ (q[Len(q)] = COLON => (Len(q) - 1) \in V6DoubleAt(q))
  /\ IF V6DoubleAt(q) = {} THEN V6NGroups(q) = 8 ELSE V6NGroups(q) <= 7
IsIP6Text(q) == IF Len(q) >= 2 /\ q[1] = LBRACK THEN q[Len(q)] = RBRACK /\ IsIP6Bare(SubSeq(q, 2, Len(q) - 1)) ELSE IsIP6Bare(q)
\* r = [ok, n, err, ip] of IP6Prefix / r = [ok, at, len, ip] of ContainsIP6
Prefix6Sound(s, r)   == r.ok => (r.n >= 2 /\ r.n <= Len(s) /\ IsIP6Text(Slice(s, 0, r.n)))
Contains6Sound(s, r) == r.ok => (r.at >= 0 /\ r.at + r.len <= Len(s) /\ IsIP6Text(Slice(s, r.at, r.at + r.len)))

PrefixDeclRejected(s, r) ==
  ~r.ok => /\ r.err = (IF DQ_Completable(s, 3) THEN MORE ELSE BAD)
           /\ r.ip = ZeroDst(Len(r.ip))
=============================================================================
