----------------------------- MODULE Judge_IP4 -----------------------------
(* TLC judges REAL IP4Prefix / ContainsIP4 results with the C20 Decl predicates (IPAddr.tla). *)
EXTENDS IPAddr, Json, TLC
CONSTANTS JudgeFile, Prop
Recs == ndJsonDeserialize(JudgeFile)
VARIABLE i
Holds(rec) ==
  IF "panic" \in DOMAIN rec.res THEN FALSE
  ELSE CASE rec.fn = "IP4Prefix"   -> PrefixDecl(rec.args.s, rec.res)
         [] rec.fn = "ContainsIP4" -> ContainsDecl(rec.args.s, rec.res)
         [] OTHER -> TRUE
Init == i = 1
Next == i <= Len(Recs) /\ i' = i + 1
Spec == Init /\ [][Next]_i
Report == (i <= Len(Recs)) => PrintT(<<"JUDGE", i, Holds(Recs[i])>>)
=============================================================================
