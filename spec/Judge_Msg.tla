----------------------------- MODULE Judge_Msg -----------------------------
(* TLC judges REAL message-parser results (records written by the replayer:   *)
(* k, cfg, wire, offs, err, obs) with the C05 predicate FieldsNested.         *)
EXTENDS Props, Json, TLC
CONSTANTS JudgeFile, Prop
Recs == ndJsonDeserialize(JudgeFile)
VARIABLE i
Holds(rec) == (rec.k = "msg" /\ rec.err = "ok") => FieldsNested(rec.wire, rec.cfg.start, rec.offs, rec.obs)
Init == i = 1
Next == i <= Len(Recs) /\ i' = i + 1
Spec == Init /\ [][Next]_i
Report == (i <= Len(Recs)) => PrintT(<<"JUDGE", i, Holds(Recs[i])>>)
=============================================================================
