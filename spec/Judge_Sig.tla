----------------------------- MODULE Judge_Sig -----------------------------
(* TLC judges REAL GetCallIDSig / GetViaBrSig results with the Decl statements of StrSig.tla:  *)
(* Prop "C19": the character-class flags and lengths; Prop "C20": the IP position flags.        *)
EXTENDS StrSig, Json, TLC
CONSTANTS JudgeFile, Prop
Recs == ndJsonDeserialize(JudgeFile)
VARIABLE i
Holds(rec) ==
  IF "panic" \in DOMAIN rec.res THEN FALSE
  ELSE CASE rec.fn = "GetCallIDSig" -> IF Prop = "C20" THEN IPPosDecl(rec.args.s, rec.res) ELSE CallIDDecl(rec.args.s, rec.res)
         [] rec.fn = "GetViaBrSig" /\ "v" \in DOMAIN rec.args -> BranchDecl(rec.args.v, rec.res)
         [] OTHER -> TRUE
Init == i = 1
Next == i <= Len(Recs) /\ i' = i + 1
Spec == Init /\ [][Next]_i
Report == (i <= Len(Recs)) => PrintT(<<"JUDGE", i, Holds(Recs[i])>>)
=============================================================================
