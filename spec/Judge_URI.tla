----------------------------- MODULE Judge_URI -----------------------------
(***************************************************************************)
(* TLC as the judge of REAL records (DESIGN §4.3 rule 1/2).  The replayer   *)
(* writes every record on which the real code differs from the model        *)
(* (drift) -- or, in audit mode, every record -- to an ndjson file; this    *)
(* spec reads it and evaluates the property's Decl predicates (URIProps) on *)
(* the REAL values.  No model of the parser is consulted for ParseURI       *)
(* records; AdjustOffs records carry the real URI before and after.         *)
(*   C14  Lossless          on fn = "ParseURI"                              *)
(*   C10  PortExact         on fn = "ParseURI"                              *)
(*   C18  views             on fn = "ParseURI"; relocation on "AdjustOffs"  *)
(* Output: one line <<"JUDGE", index, holds>> per record.                   *)
(***************************************************************************)
EXTENDS URIProps, Json, TLC

CONSTANTS JudgeFile, Prop
Recs == ndJsonDeserialize(JudgeFile)
VARIABLE i

F(t) == [o |-> t[1], l |-> t[2]]
UFromRaw(w) == [type |-> w.URIType, scheme |-> F(w.Scheme), user |-> F(w.User), pass |-> F(w.Pass), host |-> F(w.Host),
                port |-> F(w.Port), params |-> F(w.Params), headers |-> F(w.Headers), portno |-> w.PortNo]
IsPanicRes(res) == "panic" \in DOMAIN res
RFromRes(res) == [err |-> res.err, offs |-> res.offs, uri |-> UFromRaw(res.raw)]

\* C18 views, stated on the REAL views handed back by Short() / Long() / Flat() / Truncate()
ViewsReal(s, res) ==
  LET r == RFromRes(res)  u == r.uri IN
    Accepted(r) =>
      /\ res.Long = PFObs(DeclLong(u))
      /\ res.Short = PFObs(DeclLong(DeclTrunc(u)))
      /\ (res.Short[2] > 0 => (res.Short[1] = res.Long[1] /\ res.Short[2] <= res.Long[2]))
      /\ res.Trunc = URI_Obs(DeclTrunc(u))
      /\ res.Flat = Text(s, DeclLong(u))

\* C18 relocation on real values: before / after as reported by the code
RelocateReal(s, offs, len, res) ==
  SpanInBuffer(offs, len) =>
    /\ ~IsPanicRes(res)
    /\ (res.err = "ok") =>
         LET u == UFromRaw(res.before)  a == UFromRaw(res.raw)  d == offs - u.scheme.o IN
           /\ len >= Len(s) =>
                /\ res.ok
                /\ \A k \in 1..7 : SameBytes(Comps(u)[k], Comps(a)[k], d)
                /\ a.type = u.type /\ a.portno = u.portno
                /\ res.Long = PFObs([o |-> DeclLong(u).o + d, l |-> DeclLong(u).l])
                \* ... and so does the short view (scheme .. host / port of the moved URI)
                /\ res.Short = PFObs([o |-> DeclLong(DeclTrunc(u)).o + d, l |-> DeclLong(DeclTrunc(u)).l])
           /\ len < Len(s) => (~res.ok /\ a = u)

Holds(rec) ==
  CASE rec.fn = "ParseURI" ->
         IF IsPanicRes(rec.res) THEN FALSE
         ELSE CASE Prop = "C14" -> KnownSubColon(rec.args.s) \/ Lossless(rec.args.s, RFromRes(rec.res))
                [] Prop = "C10" -> PortExact(rec.args.s, RFromRes(rec.res))
                [] Prop = "C18" -> ViewsReal(rec.args.s, rec.res)
                \* beyond C14 (which asks of a tel: URI only "number = user, host empty"): tel: URIs tile their input too
                [] Prop = "X-tel" -> KnownSubColon(rec.args.s) \/ KnownTelPass(RFromRes(rec.res)) \/ TelLossless(rec.args.s, RFromRes(rec.res))
                [] OTHER -> TRUE
    [] rec.fn = "AdjustOffs" -> (Prop \notin {"C18", "C11"}) \/ RelocateReal(rec.args.s, rec.args.offs, rec.args.len, rec.res)
    [] OTHER -> TRUE

Init == i = 1
Next == i <= Len(Recs) /\ i' = i + 1
Spec == Init /\ [][Next]_i
Report == (i <= Len(Recs)) => PrintT(<<"JUDGE", i, Holds(Recs[i])>>)
=============================================================================
