-------------------------------- MODULE Lex --------------------------------
(***************************************************************************)
(* parse_utils.go: skipCRLF, skipLWS, skipWS, skipToken, skipTokenDelim,    *)
(* skipLine.  One operator per Go function; results are records             *)
(* [o, crl, e] = (offset, CRLF length, ErrorHdr).  ErrorHdr values are the  *)
(* strings of Errors below.                                                 *)
(***************************************************************************)
EXTENDS PFieldM

OK == "ok"            EOH == "eoh"          EMPTY == "empty"      MORE == "more"
MOREVALUES == "morevalues"                  NOCR == "nocr"        BADCHAR == "badchar"
PARAMS == "params"    BAD == "bad"          NOTNUMBER == "notnumber"
TOOLONG == "toolong"  VALBAD == "valbad"    TOOBIG == "toobig"    TRUNC == "trunc"
NOCLEN == "noclen"    BUG == "bug"          CONVBUG == "convbug"  TOOMANY == "toomany"
PANIC == "PANIC"      \* not an ErrorHdr: the call panicked
Errors == {OK, EOH, EMPTY, MORE, MOREVALUES, NOCR, BADCHAR, PARAMS, BAD, NOTNUMBER,
           TOOLONG, VALBAD, TOOBIG, TRUNC, NOCLEN, BUG, CONVBUG, TOOMANY}

R3(o, crl, e) == [o |-> o, crl |-> crl, e |-> e]

\* func skipCRLF(buf, offs) (int, int, ErrorHdr)            parse_utils.go:106-124
SkipCRLF(buf, i) ==
  LET n == Len(buf) IN
  IF i + 1 >= n
    THEN IF i < n /\ B(buf, i) # CR /\ B(buf, i) # LF THEN R3(i, 0, NOCR) ELSE R3(i, 0, MORE)
  ELSE IF B(buf, i) = CR
    THEN (IF B(buf, i + 1) = LF THEN R3(i + 2, 2, OK) ELSE R3(i + 1, 1, OK))
  ELSE IF B(buf, i) = LF THEN R3(i + 1, 1, OK)
  ELSE R3(i, 0, NOCR)

\* func skipLWS(buf, offs, flags) (int, int, ErrorHdr)      parse_utils.go:35-98
\* inputEnd = flags&POptInputEndF != 0
RECURSIVE SkipLWS(_, _, _)
SkipLWS(buf, i, inputEnd) ==
  IF i >= Len(buf) THEN R3(i, 0, MORE)                       \* buffer exhausted
  ELSE LET c == B(buf, i) IN
    IF IsWS(c) THEN SkipLWS(buf, i + 1, inputEnd)
    ELSE IF IsCRLFc(c) THEN
      LET r == SkipCRLF(buf, i) IN
        IF r.e # OK THEN r                                    \* return n, crl, err
        ELSE IF r.o >= Len(buf) THEN
               (IF inputEnd THEN R3(r.o, 0, EOH) ELSE R3(i, 0, MORE))
        ELSE IF ~IsWS(B(buf, r.o)) THEN R3(i, r.crl, EOH)
        ELSE SkipLWS(buf, r.o + 1, inputEnd)                  \* i = n; then the loop's i++
    ELSE R3(i, 0, OK)

\* func skipWS(buf, offs) int
RECURSIVE SkipWS(_, _)
SkipWS(buf, i) == IF i < Len(buf) /\ IsWS(B(buf, i)) THEN SkipWS(buf, i + 1) ELSE i

\* func skipToken(buf, offs) int
RECURSIVE SkipToken(_, _)
SkipToken(buf, i) == IF i < Len(buf) /\ ~IsLWSc(B(buf, i)) THEN SkipToken(buf, i + 1) ELSE i

\* func skipTokenDelim(buf, offs, delim) int
RECURSIVE SkipTokenDelim(_, _, _)
SkipTokenDelim(buf, i, d) ==
  IF i < Len(buf) /\ ~IsLWSc(B(buf, i)) /\ B(buf, i) # d THEN SkipTokenDelim(buf, i + 1, d) ELSE i

\* func skipLine(buf, offs) (int, int, ErrorHdr)
RECURSIVE SkipToEOL(_, _)
SkipToEOL(buf, i) == IF i < Len(buf) /\ ~IsCRLFc(B(buf, i)) THEN SkipToEOL(buf, i + 1) ELSE i
SkipLine(buf, i) == SkipCRLF(buf, SkipToEOL(buf, i))
=============================================================================
