------------------------------- MODULE Lookup -------------------------------
(***************************************************************************)
(* parse_method.go: GetMethodNo, SIPMethod.Name;  parse_headers.go:          *)
(* GetHdrType.  Auto = hash + bucket scan as the code does it (buckets are   *)
(* filled in table order by init()); Decl = membership in the literal table. *)
(* An empty name is classified as "other" (since fix 2ac3ac8; before, the    *)
(* code indexed n[0] and panicked -- LK_PANIC is kept for the model of that). *)
(***************************************************************************)
EXTENDS Lex, Tables

LK_PANIC == -1

\* hashMthName: (lower(n[0]) & 7) | ((len(n) & 3) << 3)
HashMth(n) == (ToLower(n[1]) % 8) + (Len(n) % 4) * 8
RECURSIVE MthScan(_, _, _)
MthScan(n, h, m) == IF m > Len(MethodNames) THEN MOther
                    ELSE IF HashMth(MethodNames[m]) = h /\ MethodNames[m] = n THEN m
                    ELSE MthScan(n, h, m + 1)
GetMethodNo(n) == IF Len(n) = 0 THEN MOther ELSE MthScan(n, HashMth(n), 1)
\* Decl (C16): the known method exactly for the exact upper-case name, MOther otherwise -- total
GetMethodNoDecl(n) == IF \E m \in 1..Len(MethodNames) : MethodNames[m] = n
                      THEN CHOOSE m \in 1..Len(MethodNames) : MethodNames[m] = n ELSE MOther
KW_OTHER == <<79,84,72,69,82>>
MethodName(m) == IF m >= 1 /\ m <= Len(MethodNames) THEN MethodNames[m]
                 ELSE IF m = MOther THEN KW_OTHER ELSE <<>>

\* hashHdrName: (lower(n[0]) & 15) | ((len(n) & 3) << 4)
HashHdr(n) == (ToLower(n[1]) % 16) + (Len(n) % 4) * 16
RECURSIVE HdrScan(_, _, _)
HdrScan(n, h, k) == IF k > Len(HdrNameTable) THEN HdrOther
                    ELSE IF HashHdr(HdrNameTable[k].n) = h /\ CmpEq(n, HdrNameTable[k].n) THEN HdrNameTable[k].t
                    ELSE HdrScan(n, h, k + 1)
GetHdrType(n) == IF Len(n) = 0 THEN HdrOther ELSE HdrScan(n, HashHdr(n), 1)
GetHdrTypeDecl(n) == IF \E k \in 1..Len(HdrNameTable) : CmpEq(n, HdrNameTable[k].n)
                     THEN HdrNameTable[CHOOSE k \in 1..Len(HdrNameTable) : CmpEq(n, HdrNameTable[k].n)].t
                     ELSE HdrOther
=============================================================================
