----------------------------- MODULE MC_Digits -----------------------------
(***************************************************************************)
(* C10: numbers are exact or rejected, never silently wrapped.              *)
(* For every boundary digit string ds (Digits.tla) and every numeric        *)
(* position, TLA+ states what the property demands -- computed from the     *)
(* decimal value of ds in 12 limbs (192 bits: no wrap for 40 digits) -- and  *)
(* prints a `decl` record that is executed on the real code, one-shot and   *)
(* with a cut inside the number.                                            *)
(*   "ERR" in errs = any error verdict;  a key "!k" = value must differ.    *)
(***************************************************************************)
EXTENDS Lex, BigNat, Digits, Texts, TLC, Json

CONSTANTS Pos,     \* "expires" | "clen" | "cseq" | "cexpires" | "port" | "q"
          CutMax   \* cut positions 1..CutMax inside the number are tried (1: only after the first digit)
VARIABLES d, cut   \* index into DigitStrings (or QCases), cut position inside the number (0 = one-shot)

W == 12
Val(ds)      == DecValue(ds, W)
Lim(a)       == Resize(a, W)
U32MaxW      == Lim(<<65535, 65535>>)
CLenMaxW     == Lim(<<0, 256>>)                 \* 2^24
PortMaxW     == Lim(<<65535>>)
Low(v, k)    == SubSeq(v, 1, k)

Cfg(kind, flags) == [kind |-> kind, start |-> 0, flags |-> flags, hcap |-> -1, ccap |-> -1, pcap |-> -1]
Cuts(pre, ds, wire) == IF cut = 0 THEN <<Len(wire)>> ELSE <<pre + cut, Len(wire)>>
TAIL == <<CR, LF, 88>>                          \* CRLF + a following byte: the header end is definitive

Rec(kind, flags, wire, pre, ds, okobs, mustAccept, mustReject, offs) ==
  [k |-> kind, cfg |-> Cfg(kind, flags), wire |-> wire, cuts |-> Cuts(pre, ds, wire),
   offs |-> IF mustAccept THEN offs ELSE -1,
   err |-> IF mustReject THEN "ERR" ELSE "ok",
   errs |-> IF mustAccept THEN <<>> ELSE IF mustReject THEN <<"ERR">> ELSE <<"ok", "ERR">>,
   obs |-> okobs, src |-> "decl", prop |-> "C10"]

DS == DigitStrings[d]

\* Expires header / ParseUIntVal: 32 bits
RecExpires == LET ds == DS  w == <<SP>> \o ds \o TAIL  fits == LessEq(Val(ds), U32MaxW) IN
  Rec("expires", 0, w, 1, ds, [UIVal |-> Low(Val(ds), 2), SVal |-> <<1, Len(ds)>>], fits, ~fits, Len(w) - 1)
\* Content-Length: 2^24 and 9 digits
RecCLen == LET ds == DS  w == <<SP>> \o ds \o TAIL  small == LessEq(Val(ds), CLenMaxW) IN
  Rec("clen", 0, w, 1, ds, [UIVal |-> Low(Val(ds), 2), SVal |-> <<1, Len(ds)>>], small /\ Len(ds) <= 9, ~small, Len(w) - 1)
\* CSeq: 32 bits (a longer-than-10-digit spelling of a fitting value may be rejected)
RecCSeq == LET ds == DS  w == ds \o <<SP, 73, 78, 86, 73, 84, 69>> \o TAIL  fits == LessEq(Val(ds), U32MaxW) IN
  Rec("cseq", 0, w, 0, ds, [CSeqNo |-> Low(Val(ds), 2), CSeq |-> <<0, Len(ds)>>], fits /\ Len(ds) <= 10, ~fits, Len(w) - 1)
\* Contact ;expires= : saturates at 2^32-1, never rejected
PreC == V_contact1 \o <<SEMI>> \o P_expires \o <<EQ>>
RecCExpires == LET ds == DS  w == PreC \o ds \o TAIL  fits == LessEq(Val(ds), U32MaxW) IN
  Rec("nameaddr", 8, w, Len(PreC), ds,
      [Expires |-> IF fits THEN Low(Val(ds), 2) ELSE <<65535, 65535>>, HasExpires |-> TRUE], TRUE, FALSE, Len(w) - 1)
\* URI port: <= 65535 or the URI is rejected
PreP == U_sip \o <<COLON>>
RecPort == LET ds == DS  s == PreP \o ds  fits == LessEq(Val(ds), PortMaxW) IN
  [fn |-> "ParseURI", args |-> [s |-> s],
   res |-> IF fits THEN [err |-> "ok", offs |-> Len(s), uri |-> [PortNo |-> Val(ds)[1], Port |-> <<Len(PreP), Len(ds)>>]]
           ELSE [nerr |-> "ok"],
   src |-> "decl", prop |-> "C10"]

\* the same without a user part (the digits are first read as a possible password) and with parameters behind the port
PrePH == <<115, 105, 112, 58, 104, 46, 120, 58>>                                     \* "sip:h.x:"
RecPortH(tail) == LET ds == DS  s == PrePH \o ds \o tail  fits == LessEq(Val(ds), PortMaxW) IN
  [fn |-> "ParseURI", args |-> [s |-> s],
   res |-> IF fits THEN [err |-> "ok", offs |-> Len(s), uri |-> [PortNo |-> Val(ds)[1], Port |-> <<Len(PrePH), Len(ds)>>]]
           ELSE [nerr |-> "ok"],
   src |-> "decl", prop |-> "C10"]

\* q: integer part ip, optional '.', decimals dp.  Valid iff value <= 1.000 with at most three decimals.
QInts == QWrapInts \o <<<<>>, <<48>>, <<49>>, <<50>>, <<48, 48, 49>>, <<49, 48>>, DigitStrings[Len(DigitStrings)], <<48,48,48,48,48,48,48,48,48,48,48,48,48,48,48,48,48,48,48,48,48,48,49>>,
           <<49,56,52,52,54,55,52,52,48,55,51,55,48,57,53,53,49,54,49,55>> >>
QDecs == <<<<>>, <<48>>, <<53>>, <<48, 53>>, <<48, 48, 53>>, <<57, 57, 57>>, <<48, 48, 48>>, <<48, 48, 49>>, <<53, 48, 48, 48>>, <<48, 48, 48, 48>>, <<49, 50, 51, 52>> >>
QCases == { <<i, dot, j>> : i \in 1..Len(QInts), dot \in {0, 1}, j \in 1..Len(QDecs) }
Pad3(dp) == CASE Len(dp) = 0 -> 0 [] Len(dp) = 1 -> (dp[1] - 48) * 100 [] Len(dp) = 2 -> (dp[1] - 48) * 100 + (dp[2] - 48) * 10
              [] OTHER -> (dp[1] - 48) * 100 + (dp[2] - 48) * 10 + (dp[3] - 48)
PreQ == V_contact1 \o <<SEMI>> \o P_q \o <<EQ>>
RecQ(c) == LET ip == QInts[c[1]]  dp == IF c[2] = 1 THEN QDecs[c[3]] ELSE <<>>
               txt == ip \o (IF c[2] = 1 THEN <<DOT>> ELSE <<>>) \o dp
               iv  == Val(ip)
               valid == Len(txt) > 0 /\ LessEq(iv, Lim(<<1>>)) /\ Len(dp) <= 3 /\ (iv[1] = 1 => Pad3(dp) = 0)
               w == PreQ \o txt \o TAIL
           IN [k |-> "nameaddr", cfg |-> Cfg("nameaddr", 8), wire |-> w,
               cuts |-> IF cut = 0 \/ Len(txt) <= cut THEN <<Len(w)>> ELSE <<Len(PreQ) + cut, Len(w)>>,
               offs |-> Len(w) - 1, err |-> "ok", errs |-> <<>>,
               obs |-> IF Len(txt) = 0 THEN [Q |-> 0]
                       ELSE IF valid THEN [Q |-> iv[1] * 1000 + Pad3(dp), ParamErr |-> "ok"] ELSE [Q |-> 0, nParamErr |-> "ok"],
               src |-> "decl", prop |-> "C10"]

Init == /\ cut \in 0..CutMax
        /\ IF Pos = "q" THEN d \in QCases ELSE d \in 1..Len(DigitStrings)
Next == FALSE /\ UNCHANGED <<d, cut>>
Spec == Init /\ [][Next]_<<d, cut>>

InCut(ds) == cut = 0 \/ Len(ds) > cut
Emit == CASE Pos = "expires"  -> InCut(DS) => PrintT(ToJson(RecExpires))
          [] Pos = "clen"     -> InCut(DS) => PrintT(ToJson(RecCLen))
          [] Pos = "cseq"     -> InCut(DS) => PrintT(ToJson(RecCSeq))
          [] Pos = "cexpires" -> InCut(DS) => PrintT(ToJson(RecCExpires))
          [] Pos = "port"     -> cut = 0 => /\ PrintT(ToJson(RecPort)) /\ PrintT(ToJson(RecPortH(<<>>)))
                                            /\ PrintT(ToJson(RecPortH(<<SEMI, 112>>))) /\ PrintT(ToJson(RecPortH(<<QM, 104, EQ, 118>>)))
          [] Pos = "q"        -> PrintT(ToJson(RecQ(d)))
\* model-level sanity of the decimal arithmetic: value of "4294967296" is 2^32, of "65535" is 65535
Arith == /\ Val(<<52,50,57,52,57,54,55,50,57,54>>) = Lim(<<0, 0, 1>>)
         /\ Val(<<54,53,53,51,53>>) = Lim(<<65535>>)
         /\ ~DecFits(<<52,50,57,52,57,54,55,50,57,54>>, 2) /\ DecFits(<<52,50,57,52,57,54,55,50,57,53>>, 2)
=============================================================================
