------------------------------ MODULE MC_FLine ------------------------------
(* Exhaustive exploration of Stream for ParseFLine (kind "fline"); per distinct state one oracle *)
(* record for the schedule that reached it (Emit) and two for resumed schedules (EmitTwo/Byte). *)
(* ParseFLine does nothing before 14 bytes are available (parse_fline.go:93), so "all atom     *)
(* strings up to MaxLen" never leaves flInit for an affordable MaxLen.  The exploration is     *)
(* therefore steered by HEADS: the text (wire minus the junk prefix) must stay compatible with *)
(* one of the heads h.p (a prefix of it, or an extension of it by at most h.t bytes).  The     *)
(* heads are built from the same atoms, so every cut inside a head is explored as well; the    *)
(* tails (h.t bytes) are all atom strings.  HeadOK is a CONSTRAINT of the cfg files.           *)
EXTENDS FLine, TLC, Json

CONSTANTS Atoms, MaxLen, Cfgs, Junk, EmitOn,
          Extra,     \* bytes added to the free tail of every head (0 = quick, 1 = thorough)
          Sel        \* "rpl" | "req" | "tok" | "bad": which heads / atoms (cfg: Atoms <- AtomsSel)
VARIABLES wire, vis, cont, obj, verdict, cfg, prev, hist, na

INSTANCE Stream WITH MaxAtoms <- 99, P_New <- FLine_New, P_Call <- FLine_Call, P_Obs <- FLine_Obs, P_Reset <- FLine_Reset

\* ---- atoms
aSIP    == <<83,73,80,47,50,46,48>>        \* "SIP/2.0"
asip    == <<115,105,112,47,50,46,48>>     \* "sip/2.0"
aINVITE == MethodNames[2]
aACK    == MethodNames[3]
a200    == <<50,48,48>>                    \* "200"
aSP == <<SP>>  aHT == <<HT>>  aCR == <<CR>>  aLF == <<LF>>
aA  == <<97>>                              \* 'a'
a1  == <<49>>                              \* '1'

\* concatenation of up to 12 pieces (not RECURSIVE, so that the definitions below are plain constant-level
\* definitions which TLC evaluates once at start-up -- see also Heads / AtomsSel)
Pc(ss, k) == IF k <= Len(ss) THEN ss[k] ELSE <<>>
Cat(ss) == Pc(ss, 1) \o Pc(ss, 2) \o Pc(ss, 3) \o Pc(ss, 4) \o Pc(ss, 5) \o Pc(ss, 6) \o Pc(ss, 7) \o Pc(ss, 8)
           \o Pc(ss, 9) \o Pc(ss, 10) \o Pc(ss, 11) \o Pc(ss, 12)
Range(f) == {f[k] : k \in DOMAIN f}
\* a head: ps = the (long) atoms it is sent in, p = the text, t = bytes of free tail after it
H(ps, t) == [ps |-> ps, p |-> Cat(ps), t |-> t]
S(ss) == Cat(ss)
PiecesOf(hs) == UNION {Range(h.ps) : h \in hs}

\* ---- tails
Tail6 == {aSP, aHT, aCR, aLF, aA, a1}
Tail4 == {aSP, aCR, aLF, aA}

\* ---- status lines
HeadsRpl == {
  H(<<S(<<aSIP, aSP>>), S(<<a200, aSP, aA>>)>>, 4),             \* "SIP/2.0 " "200 a"  + " a\r\n1", "\r\n1", "\r1a" ...
  H(<<S(<<asip, aSP, a200>>), aSP>>, 4),                        \* "sip/2.0 200" " "   + "\r\n1" (empty reason) ...
  H(<<aSIP, aSP, a200, aSP>>, 3),                               \* the same in small atoms
  H(<<S(<<aSIP, aSP>>), S(<<a200, aSP, aA>>), S(<<aA, aHT, aA, aSP>>)>>, 3) }   \* longer reason with HT/SP
AtomsRpl == Tail6 \cup PiecesOf(HeadsRpl)

\* ---- request lines: a ladder of heads, each explored with all short tails
HeadsReq == {
  H(<<S(<<aINVITE, aSP, aA>>), S(<<a1, aA, aSP, aSIP>>)>>, 3),          \* "INVITE a" "1a SIP/2.0" + "\r\n1" ...
  H(<<S(<<aACK, aSP, aA, a1>>), S(<<aA, a1, aA, a1, aSP, aA>>)>>, 4),   \* 13 bytes, in the version: + "a\r\n1", "a\r\n\r\n"
  H(<<aACK, aSP, aA, aSP, aA, a1, aA, a1, aA, a1, aA, a1>>, 3),         \* small atoms: "ACK a a1a1a1a1" + "\r\n1"
  H(<<S(<<aACK, aSP, aA, aSP, aA, aCR>>), S(<<aLF, aA, a1, aA, a1, aA>>)>>, 2),    \* short line, long enough buffer
  H(<<S(<<aACK, aSP, aA, aSP, aA, aLF>>), S(<<aCR, aA, a1, aA, a1, aA>>)>>, 2),
  H(<<S(<<aCR, aLF, aACK, aSP>>), S(<<aA, aSP, aA, aCR, aLF, aA, a1, aA>>)>>, 2) } \* empty line first
AtomsReq == Tail6 \cup PiecesOf(HeadsReq)

\* ---- resumption inside the method token (needs a token of 14 bytes) and inside the URI
aMMM == S(<<aINVITE, aACK>>)        \* "INVITEACK"
aAAAA == S(<<aA, aA, aA, aA>>)
HeadsTok == {
  H(<<aMMM, aAAAA>>, 3),                                        \* "INVITEACK" "aaaa" + "a a", " a ", HT, CR ...
  H(<<aMMM, aAAAA, S(<<aA, aSP, aA>>)>>, 4),                    \* ... "a a"  (method resumed, in the URI) + " a\r\n1"
  H(<<aMMM, aAAAA, S(<<aA, aSP, aA>>), S(<<aSP, aA>>)>>, 3),    \* ... " a"   (in the version) + "\r\n1"
  H(<<S(<<aACK, aSP>>), S(<<aA, a1, aA, a1, aA, a1, aA, a1, aA>>)>>, 3),            \* 13 bytes, in the URI
  H(<<S(<<aACK, aSP>>), S(<<aA, a1, aA, a1, aA, a1, aA, a1, aA>>), S(<<a1, aSP, aA>>)>>, 3) }
AtomsTok == Tail6 \cup PiecesOf(HeadsTok)

\* ---- malformed lines (detected in the first call that sees 14 bytes)
HeadsBad == {
  H(<<S(<<aSIP, aSP, a1, a1>>), S(<<aA, aSP, aA, aSP, aA>>)>>, 1),      \* non-digit status
  H(<<S(<<aSIP, aSP, aA>>), S(<<a1, a1, aSP, aA, aSP, aA>>)>>, 1),
  H(<<S(<<aSIP, aSP, a1, a1, aSP>>), S(<<aA, aSP, aA, aSP, aA>>)>>, 1), \* 2-digit status
  H(<<S(<<aSIP, aSP, a200, a1>>), S(<<aSP, aA, aSP, aA>>)>>, 1),        \* 4-digit status
  H(<<S(<<aSIP, aSP, aSP>>), S(<<a200, aSP, aA, aSP>>)>>, 1),           \* double SP
  H(<<S(<<aSIP, aHT>>), S(<<a200, aSP, aA, aSP, aA>>)>>, 1),            \* HT instead of SP
  H(<<S(<<aSIP, aSP, a200, aHT>>), S(<<aA, aSP, aA>>)>>, 1),
  H(<<S(<<aSIP, aSP, a200>>), S(<<aCR, aLF, aA, aA>>)>>, 2),            \* no SP after the code
  H(<<S(<<aSP, aSIP, aSP>>), S(<<a200, aSP, aA, aCR, aLF>>)>>, 1),      \* leading SP
  H(<<S(<<aSIP, a1, aSP>>), S(<<a200, aSP, aA>>)>>, 3),                 \* "SIP/2.01 200 a": a request
  H(<<S(<<aINVITE, aSP, aSP>>), S(<<aA, aSP, aA, aSP, aA, aA>>)>>, 1),  \* double SP
  H(<<S(<<aINVITE, aSP, aA, aSP, aSP>>), S(<<aA, aSP, aA, aA>>)>>, 1),
  H(<<S(<<aINVITE, aHT>>), S(<<aA, aSP, aA, aSP, aA, aSP, aA>>)>>, 1),  \* HT instead of SP
  H(<<S(<<aINVITE, aSP, aA, aHT>>), S(<<aA, aSP, aA, aSP, aA>>)>>, 1),
  H(<<S(<<aSP, aINVITE, aSP>>), S(<<aA, aSP, aA, aSP, aA, aA>>)>>, 1),  \* leading SP
  H(<<S(<<aINVITE, aSP, aA, aCR>>), S(<<aLF, aA, aSP, aA, aA, aA>>)>>, 1),  \* missing token
  H(<<S(<<aINVITE, aCR, aLF>>), S(<<aA, aSP, aA, aSP, aA, aA, aA>>)>>, 1),
  H(<<S(<<aINVITE, aSP, aA, aSP>>), S(<<aA, aSP, aA, aSP, aA>>)>>, 1) } \* four tokens
AtomsBad == Tail4 \cup PiecesOf(HeadsBad)

\* selection by a string constant: constants overridden with `<-` are re-evaluated on every use, whereas
\* the definitions referenced here are evaluated once at start-up
Heads    == CASE Sel = "rpl" -> HeadsRpl [] Sel = "req" -> HeadsReq [] Sel = "tok" -> HeadsTok [] Sel = "bad" -> HeadsBad
AtomsSel == CASE Sel = "rpl" -> AtomsRpl [] Sel = "req" -> AtomsReq [] Sel = "tok" -> AtomsTok [] Sel = "bad" -> AtomsBad

CfgsFL   == {[kind |-> "fline", start |-> s, flags |-> 0, hcap |-> -1, ccap |-> -1, pcap |-> -1] : s \in {0, 3}}
CfgsFL0  == {[kind |-> "fline", start |-> 0, flags |-> 0, hcap |-> -1, ccap |-> -1, pcap |-> -1]}

\* ---- the steering constraint
Body == SubSeq(wire, cfg.start + 1, Len(wire))
Compat(h, b) == IF Len(b) <= Len(h) THEN SubSeq(h, 1, Len(b)) = b ELSE SubSeq(b, 1, Len(h)) = h   \* one is a prefix of the other
InHeads(b) == \E h \in Heads : Compat(h.p, b) /\ Len(b) <= Len(h.p) + h.t + Extra
HeadOK  == InHeads(Body)        \* the CONSTRAINT of the cfg files
\* (TLC in -coverage mode cannot evaluate an operator that is both a CONSTRAINT and used in an invariant)
Steered == InHeads(Body)

\* TLC evaluates invariants also on the successor states that the constraint discards (once per
\* predecessor); the invariants are therefore guarded by the constraint.
ResumeEqFreshC == Steered => ResumeEqFresh
StableC        == Steered => Stable
OffsSaneC      == Steered => OffsSane

\* ---- the calls of this behaviour once more, evaluated directly (hist = the cut points of the calls made).
\* TLC's -coverage cannot attribute costs to operators reached through the INSTANCE substitution
\* P_Call <- FLine_Call; this probe makes every arm of FLine.tla that the exploration reaches visible to it
\* (and checks that the state of the object is a function of wire and cut points).
\* (r is forced by the IF at the level of its LET: -coverage loses track of a call that is first evaluated
\* as a lazy argument inside the nested application of a recursive operator.)
RECURSIVE RunHist(_, _, _)
RunHist(k, offs, st) ==
  LET r == FLine_Call(SubSeq(wire, 1, hist[k]), offs, st, cfg) IN
    IF r.err # "more" \/ k >= Len(hist) THEN r ELSE RunHist(k + 1, r.offs, r.st)
CovProbe == (vis > 0 /\ Steered) =>
              LET r == RunHist(1, cfg.start, FLine_New(cfg)) IN
                r.st = obj /\ r.offs = cont /\ r.err = verdict

\* ---- oracle record
Emit == (EmitOn /\ vis > 0 /\ Steered) =>
          PrintT(ToJson([k |-> "fline", cfg |-> cfg, wire |-> wire, cuts |-> hist,
                         offs |-> cont, err |-> verdict, obs |-> FLine_Obs(obj), int |-> obj]))

\* ---- resumption on the real code.  hist is not part of the VIEW and ResumeEqFresh holds on the model with
\* equal internal state, so the first-found (BFS) representative of every distinct state is the ONE-CALL
\* schedule: the records of Emit alone never make the replayer resume a suspended object.  These two
\* invariants add, per state, the model's result for (a) the two-call schedule <<prev, vis>> (all but the last
\* atom, then everything) and (b) the bytewise schedule (a call after every single byte).
RECURSIVE RunSched(_, _, _, _, _)
RunSched(w, cuts, k, offs, st) ==
  LET r == FLine_Call(SubSeq(w, 1, cuts[k]), offs, st, cfg) IN
    IF r.err # "more" \/ k >= Len(cuts) THEN r ELSE RunSched(w, cuts, k + 1, r.offs, r.st)
EmitSched(cuts) ==
  LET r == RunSched(wire, cuts, 1, cfg.start, FLine_New(cfg)) IN
    PrintT(ToJson([k |-> "fline", cfg |-> cfg, wire |-> SubSeq(wire, 1, vis), cuts |-> cuts,
                   offs |-> r.offs, err |-> r.err, obs |-> FLine_Obs(r.st), int |-> r.st]))
EmitTwo  == (EmitOn /\ Steered /\ vis = Len(wire) /\ prev > cfg.start /\ prev < vis) => EmitSched(<<prev, vis>>)
EmitByte == (EmitOn /\ Steered /\ vis > cfg.start + 1) =>
              EmitSched(SubSeq([j \in 1..(vis - cfg.start) |-> cfg.start + j], 1, vis - cfg.start))

\* ---- C08 on every state of the exploration (success => exact decomposition)
CurRes == [err |-> verdict, offs |-> cont, obs |-> FLine_Obs(obj)]
DeclCore  == (vis > 0 /\ Steered) => FLineDeclCore(SubSeq(wire, 1, vis), cfg.start, CurRes)
DeclExtra == (vis > 0 /\ Steered) => FLineDeclExtra(SubSeq(wire, 1, vis), cfg.start, CurRes)
\* NOTE: the real code violates FLineDeclKind for status 000 (Request() is Status == 0), see MC_GenFLine;
\* "000" cannot be built from the atoms used here, so DeclKind holds in these configurations.
DeclKind  == (vis > 0 /\ Steered) => FLineDeclKind(SubSeq(wire, 1, vis), cfg.start, CurRes)
=============================================================================
