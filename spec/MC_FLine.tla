------------------------------ MODULE MC_FLine ------------------------------
(* Exhaustive exploration of Stream for ParseFLine (kind "fline"), one oracle record per       *)
(* distinct state.                                                                             *)
(* ParseFLine does nothing before 14 bytes are available (parse_fline.go:93), so "all atom     *)
(* strings up to MaxLen" never leaves flInit for an affordable MaxLen.  The exploration is     *)
(* therefore steered by HEADS: the text (wire minus the junk prefix) must stay compatible with *)
(* one of the heads h.p (a prefix of it, or an extension of it by at most h.t bytes).  The     *)
(* heads are built from the same atoms, so every cut inside a head is explored as well; the    *)
(* tails (h.t bytes) are all atom strings.  HeadOK is a CONSTRAINT of the cfg files.           *)
EXTENDS FLine, TLC, Json

CONSTANTS Atoms, MaxLen, Cfgs, Junk, EmitOn, Heads
VARIABLES wire, vis, cont, obj, verdict, cfg, prev, hist

INSTANCE Stream WITH P_New <- FLine_New, P_Call <- FLine_Call, P_Obs <- FLine_Obs, P_Reset <- FLine_Reset

\* ---- atoms
aSIP    == <<83,73,80,47,50,46,48>>        \* "SIP/2.0"
asip    == <<115,105,112,47,50,46,48>>     \* "sip/2.0"
aINVITE == MethodNames[2]
aACK    == MethodNames[3]
a200    == <<50,48,48>>                    \* "200"
aSP == <<SP>>  aHT == <<HT>>  aCR == <<CR>>  aLF == <<LF>>
aA  == <<97>>                              \* 'a'
a1  == <<49>>                              \* '1'

RECURSIVE Cat(_)
Cat(ss) == IF Len(ss) = 0 THEN <<>> ELSE Head(ss) \o Cat(Tail(ss))
Range(f) == {f[k] : k \in DOMAIN f}
\* a head: ps = the (long) atoms it is sent in, p = the text, t = bytes of free tail after it
H(ps, t) == [ps |-> ps, p |-> Cat(ps), t |-> t]
S(ss) == Cat(ss)
PiecesOf(hs) == UNION {Range(h.ps) : h \in hs}

\* ---- heads: status lines.  Tail atoms: all small atoms.
TailRpl == {a200, aSP, aHT, aCR, aLF, aA, a1}
HeadsRpl == {
  H(<<S(<<aSIP, aSP>>), S(<<a200, aSP, aA>>)>>, 5),             \* "SIP/2.0 " "200 a"  + " a\r\n1" ...
  H(<<S(<<asip, aSP, a200>>), aSP>>, 5),                        \* "sip/2.0 200" " "   + "\r\n1" (empty reason) ...
  H(<<aSIP, aSP, a1, a1, a1, aSP, aA, aHT, aA>>, 3),            \* "SIP/2.0 111 a\ta" in small atoms + "\r\n1"
  H(<<S(<<aSIP, aSP, a1, a1>>), S(<<aA, aSP, aA, aSP, aA>>)>>, 1),      \* non-digit status
  H(<<S(<<aSIP, aSP, aA>>), S(<<a1, a1, aSP, aA, aSP, aA>>)>>, 1),
  H(<<S(<<aSIP, aSP, a1, a1, aSP>>), S(<<aA, aSP, aA, aSP, aA>>)>>, 1), \* 2-digit status
  H(<<S(<<aSIP, aSP, a200, a1>>), S(<<aSP, aA, aSP, aA>>)>>, 1),        \* 4-digit status
  H(<<S(<<aSIP, aSP, aSP>>), S(<<a200, aSP, aA, aSP>>)>>, 1),           \* double SP
  H(<<S(<<aSIP, aHT>>), S(<<a200, aSP, aA, aSP, aA>>)>>, 1),            \* HT instead of SP
  H(<<S(<<aSIP, aSP, a200, aHT>>), S(<<aA, aSP, aA>>)>>, 1),
  H(<<S(<<aSIP, aSP, a200>>), S(<<aCR, aLF, aA, aA>>)>>, 2),            \* no SP after the code
  H(<<S(<<aSP, aSIP, aSP>>), S(<<a200, aSP, aA, aCR, aLF>>)>>, 1),      \* leading SP
  H(<<S(<<aSIP, a1, aSP>>), S(<<a200, aSP, aA>>)>>, 3) }                \* "SIP/2.01 200 a": a request
AtomsRpl == TailRpl \cup PiecesOf(HeadsRpl)

\* ---- heads: request lines
TailReq == {aSIP, aACK, aSP, aHT, aCR, aLF, aA, a1}
HeadsReq == {
  H(<<S(<<aINVITE, aSP, aA>>), S(<<a1, aA, aSP, aSIP>>)>>, 4),          \* "INVITE a" "1a SIP/2.0" + "\r\n1" ...
  H(<<S(<<aACK, aSP, aA, a1>>), S(<<aA, a1, aA, a1, aSP, aA>>)>>, 5),   \* 13 bytes, in the version
  H(<<S(<<aACK, aSP>>), S(<<aA, a1, aA, a1, aA, a1, aA, a1, aA>>)>>, 6),\* 13 bytes, in the URI
  H(<<aINVITE, aSP, aA, aSP, aA, a1, aA, a1, aA>>, 3),                  \* "INVITE a a1a1a" in small atoms + "\r\n1"
  H(<<S(<<aINVITE, aSP, aSP>>), S(<<aA, aSP, aA, aSP, aA, aA>>)>>, 1),  \* double SP
  H(<<S(<<aINVITE, aSP, aA, aSP, aSP>>), S(<<aA, aSP, aA, aA>>)>>, 1),
  H(<<S(<<aINVITE, aHT>>), S(<<aA, aSP, aA, aSP, aA, aSP, aA>>)>>, 1),  \* HT instead of SP
  H(<<S(<<aINVITE, aSP, aA, aHT>>), S(<<aA, aSP, aA, aSP, aA>>)>>, 1),
  H(<<S(<<aSP, aINVITE, aSP>>), S(<<aA, aSP, aA, aSP, aA, aA>>)>>, 1),  \* leading SP
  H(<<S(<<aINVITE, aSP, aA, aCR>>), S(<<aLF, aA, aSP, aA, aA, aA>>)>>, 1),  \* missing token
  H(<<S(<<aINVITE, aCR, aLF>>), S(<<aA, aSP, aA, aSP, aA, aA, aA>>)>>, 1),
  H(<<S(<<aINVITE, aSP, aA, aSP>>), S(<<aA, aSP, aA, aSP, aA>>)>>, 1),  \* four tokens
  H(<<S(<<aACK, aSP, aA, aSP, aA, aCR>>), S(<<aLF, aA, a1, aA, a1, aA>>)>>, 2),   \* short line, long enough buffer
  H(<<S(<<aACK, aSP, aA, aSP, aA, aLF>>), S(<<aCR, aA, a1, aA, a1, aA>>)>>, 2),
  H(<<S(<<aCR, aLF, aACK, aSP>>), S(<<aA, aSP, aA, aCR, aLF, aA, a1, aA>>)>>, 2) }  \* empty line first
AtomsReq == TailReq \cup PiecesOf(HeadsReq)

\* ---- heads: resumption inside the method token (needs a 14 byte token) and inside a long URI
TailTok == {aACK, aSP, aHT, aCR, aLF, aA}
HeadsTok == { H(<<S(<<aINVITE, aACK>>), S(<<aA, aA, aA, aA>>)>>, 7),    \* "INVITEACK" "aaaa" + "a a a\r\na" ...
              H(<<S(<<aACK, aSP, aA, aA>>), S(<<aA, aA, aA, aA, aA, aA>>)>>, 6) }
AtomsTok == TailTok \cup PiecesOf(HeadsTok)

CfgsFL   == {[kind |-> "fline", start |-> s, flags |-> 0, hcap |-> -1, ccap |-> -1, pcap |-> -1] : s \in {0, 3}}
CfgsFL0  == {[kind |-> "fline", start |-> 0, flags |-> 0, hcap |-> -1, ccap |-> -1, pcap |-> -1]}

\* ---- the steering constraint
Body == SubSeq(wire, cfg.start + 1, Len(wire))
Compat(h, b) == \A k \in 1..(IF Len(h) < Len(b) THEN Len(h) ELSE Len(b)) : h[k] = b[k]
HeadOK == LET b == Body IN \E h \in Heads : Compat(h.p, b) /\ Len(b) <= Len(h.p) + h.t

\* TLC evaluates invariants also on the successor states that the constraint discards (once per
\* predecessor); the invariants are therefore guarded by the constraint.
ResumeEqFreshC == HeadOK => ResumeEqFresh
StableC        == HeadOK => Stable
OffsSaneC      == HeadOK => OffsSane

\* ---- oracle record
Emit == (EmitOn /\ vis > 0 /\ HeadOK) =>
          PrintT(ToJson([k |-> "fline", cfg |-> cfg, wire |-> wire, cuts |-> hist,
                         offs |-> cont, err |-> verdict, obs |-> FLine_Obs(obj), int |-> obj]))

\* ---- C08 on every state of the exploration (success => exact decomposition)
CurRes == [err |-> verdict, offs |-> cont, obs |-> FLine_Obs(obj)]
DeclCore  == (vis > 0 /\ HeadOK) => FLineDeclCore(SubSeq(wire, 1, vis), cfg.start, CurRes)
DeclExtra == (vis > 0 /\ HeadOK) => FLineDeclExtra(SubSeq(wire, 1, vis), cfg.start, CurRes)
\* NOTE: the real code violates FLineDeclKind for status 000 (Request() is Status == 0), see MC_GenFLine;
\* "000" cannot be built from the atoms used here, so DeclKind holds in these configurations.
DeclKind  == (vis > 0 /\ HeadOK) => FLineDeclKind(SubSeq(wire, 1, vis), cfg.start, CurRes)
=============================================================================
