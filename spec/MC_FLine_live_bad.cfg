\* liveness on a small instance (no VIEW): Stream!Progress under weak fairness of Call -- first line
\* (the steering constraint only cuts Send steps: a Call never changes the wire, so no Call step is hidden)
SPECIFICATION FairSpec
CONSTANTS
  OffsMod = 65536
  Atoms <- AtomsSel
  Sel = "bad"
  Extra = 0
  MaxLen = 40
  Cfgs <- CfgsFL0
  Junk = 34
  EmitOn = FALSE
CONSTRAINT HeadOK
INVARIANTS ResumeEqFreshC
PROPERTIES Progress MonotoneCont
CHECK_DEADLOCK FALSE
