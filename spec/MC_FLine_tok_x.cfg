SPECIFICATION Spec
VIEW view
CONSTANTS
  OffsMod = 65536
  Atoms <- AtomsSel
  Sel = "tok"
  Extra = 1
  MaxLen = 40
  Cfgs <- CfgsFL
  Junk = 34
  EmitOn = TRUE
CONSTRAINT HeadOK
INVARIANTS ResumeEqFreshC Idempotent StableC OffsSaneC CovProbe Emit EmitTwo EmitByte DeclCore DeclKind DeclExtra
PROPERTY MonotoneCont
CHECK_DEADLOCK FALSE
