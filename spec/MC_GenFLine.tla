----------------------------- MODULE MC_GenFLine -----------------------------
(* C08: every generated first line (GenFLine) is                                                   *)
(*  - run through the model (FLine): FLineDecl must hold on the model result, and the model must    *)
(*    agree with the intended decomposition (GhostAgrees);                                         *)
(*  - emitted as a `decl` oracle record (intended result; checked on the REAL code by the replayer) *)
(*    and as an `auto` record (model result; drift check on long realistic lines).                 *)
EXTENDS GenFLine, TLC, Json

CONSTANTS Codes,      \* status codes of the reply cases
          Kinds,      \* subset of {"req", "rpl", "near", "ambig"}
          Starts,     \* start offsets
          CutModes,   \* subset of {0, 1}: one call / two calls
          Junk
VARIABLE g

Cases == (IF "req" \in Kinds THEN ReqCases(Starts, CutModes) ELSE {})
   \cup (IF "rpl" \in Kinds THEN RplCases(Codes, Starts, CutModes) ELSE {})
   \cup (IF "near" \in Kinds THEN NearCases(Starts, CutModes) ELSE {})
   \cup (IF "ambig" \in Kinds THEN AmbigCases(Starts, CutModes) ELSE {})

Init == g \in Cases
Next == UNCHANGED g
Spec == Init /\ [][Next]_g

CodesRep    == {100, 199, 200, 404, 699, 999}
CodesRep0   == {0} \cup CodesRep          \* incl. 000 (Request() of a "000" reply was fixed in /repo 145657d)
CodesAll    == 1..999
CodesAll0   == 0..999
Codes000    == {0}

Text == GText(g, Junk)
Cuts == GCuts(g, Len(Text))
CfgOf(x) == [kind |-> "fline", start |-> x.s, flags |-> 0, hcap |-> -1, ccap |-> -1, pcap |-> -1]

\* the model, called as the replayer calls the real code: on the prefixes given by the cuts, while "more"
RECURSIVE RunCuts(_, _, _, _, _)
RunCuts(w, cuts, k, offs, st) ==
  LET r == FLine_Call(SubSeq(w, 1, cuts[k]), offs, st, <<>>) IN
    IF r.err # MORE \/ k = Len(cuts) THEN r ELSE RunCuts(w, cuts, k + 1, r.offs, r.st)
ModelRes == FLine_Res(RunCuts(Text, Cuts, 1, g.s, FLine_New(<<>>)))

\* ---- oracle records
EmitDecl ==
  IF GWellFormed(g)
    THEN PrintT(ToJson([k |-> "fline", cfg |-> CfgOf(g), wire |-> Text, cuts |-> Cuts, offs |-> GOffs(g),
                        err |-> "ok", obs |-> GObs(g), src |-> "decl", prop |-> "C08"]))
    ELSE PrintT(ToJson([k |-> "fline", cfg |-> CfgOf(g), wire |-> Text, cuts |-> Cuts, offs |-> -1,
                        errs |-> GRejections, src |-> "decl", prop |-> "C08"]))
EmitAuto == LET r == ModelRes IN
  PrintT(ToJson([k |-> "fline", cfg |-> CfgOf(g), wire |-> Text, cuts |-> Cuts, offs |-> r.offs,
                 err |-> r.err, obs |-> r.obs]))

\* ---- checked by TLC on the model
DeclOnModel     == FLineDeclCore(Text, g.s, ModelRes) /\ FLineDeclExtra(Text, g.s, ModelRes)
\* NOT in MC_GenFLine_code000.cfg: the real code (and hence the model) reports "SIP/2.0 000 x" with
\* Request() == true (Request() is Status == 0).
DeclKindOnModel == FLineDeclKind(Text, g.s, ModelRes)
\* the model agrees with the intended decomposition / rejects the near misses.
\* NOT in MC_GenFLine_code000.cfg (see above) and MC_GenFLine_ambig.cfg (a request whose method token is
\* "SIP/2.0" in any letter case is taken for a malformed reply and rejected with ErrHdrBadChar).
GhostAgrees == LET r == ModelRes IN
  IF GWellFormed(g)
    THEN /\ r.err = OK /\ r.offs = GOffs(g)
         /\ \A key \in DOMAIN GObs(g) : r.obs[key] = GObs(g)[key]
    ELSE \E k \in 1..Len(GRejections) : r.err = GRejections[k]
=============================================================================
