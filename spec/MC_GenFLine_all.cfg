SPECIFICATION Spec
CONSTANTS
  OffsMod = 65536
  Codes <- CodesAll0
  Kinds = {"rpl"}
  Starts = {0, 3}
  CutModes = {0}
  Junk = 34
INVARIANTS EmitDecl EmitAuto DeclOnModel DeclKindOnModel GhostAgrees
CHECK_DEADLOCK FALSE
