SPECIFICATION Spec
CONSTANTS
  OffsMod = 65536
  Codes <- CodesRep
  Kinds = {"ambig"}
  Starts = {0, 3}
  CutModes = {0}
  Junk = 34
INVARIANTS EmitDecl EmitAuto DeclOnModel DeclKindOnModel
CHECK_DEADLOCK FALSE
