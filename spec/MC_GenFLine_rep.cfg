SPECIFICATION Spec
CONSTANTS
  OffsMod = 65536
  Codes <- CodesRep0
  Kinds = {"req", "rpl", "near"}
  Starts = {0, 3}
  CutModes = {0, 1, 2, 3, 4}
  Junk = 34
INVARIANTS EmitDecl EmitAuto DeclOnModel DeclKindOnModel GhostAgrees
CHECK_DEADLOCK FALSE
