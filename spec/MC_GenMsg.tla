----------------------------- MODULE MC_GenMsg -----------------------------
(***************************************************************************)
(* Enumerates generated SIP messages (Gen!GenMsg) -- every derivation up to *)
(* the bounds -- and prints, per message, a `decl` oracle record: the text  *)
(* and what properties C06 / C07 say the message parser must report for it. *)
(* The wires double as the input corpus of the relational explorations      *)
(* (C01, C03, C05, C11, C12, C13, C19).                                     *)
(***************************************************************************)
EXTENDS Gen, SIPMsg, Props, TLC, Json, FiniteSets

CONSTANTS K,        \* number of header lines drawn from the pool (besides an optional Content-Length line)
          Part,     \* which slice of the product to enumerate: "hdrs" | "framing" | "caps"
          Prop      \* "C07": intended header list; "C06": intended framing; "" : both

H(n, v)            == GenHdrLine(n, WS0, WS1, v, WS0, CRLF)
\* the pool is indexed lazily (TLC would otherwise rebuild all lines for every message)
PoolSize == 53
PoolLine(i) ==
  CASE i = 1 -> H(N_From, V_from1)
    [] i = 2 -> GenHdrLine(N_f, WS0, WS0, V_from3, WS0, LFONLY)
    [] i = 3 -> GenHdrLine(N_FROM, WS1, WS1, V_from2, WS1, CRLF)
    [] i = 4 -> H(N_from, V_from4)
    [] i = 5 -> H(N_To, V_to1)
    [] i = 6 -> GenHdrLine(N_t, WS2, WS0, V_to2, WS0, CRLF)
    [] i = 7 -> H(N_tO, V_to1)
    [] i = 8 -> H(N_CallID, V_callid1)
    [] i = 9 -> GenHdrLine(N_i, WS0, WS1, V_callid2, WS0, CRONLY)
    [] i = 10 -> H(N_callid, V_callid3)
    [] i = 11 -> H(N_CSeq, V_cseq1)
    [] i = 12 -> GenHdrLine(N_cseq, WS0, WS2, V_cseq3, WS2, CRLF)
    [] i = 13 -> H(N_CSeq, V_cseq4)
    [] i = 14 -> H(N_Via, V_via1)
    [] i = 15 -> GenHdrLine(N_v, WS0, WS1, V_via2, WS0, LFONLY)
    [] i = 16 -> H(N_Via, V_via3)
    [] i = 17 -> H(N_MaxFwd, V_maxfwd)
    [] i = 18 -> H(N_maxfwd, V_maxfwd)
    [] i = 19 -> H(N_Contact, V_contact1)
    [] i = 20 -> H(N_m, V_contact2)
    [] i = 21 -> GenHdrLine(N_CONTACT, WS0, WSF, V_contact5, WS0, CRLF)
    [] i = 22 -> H(N_Contact, V_contact3)
    [] i = 23 -> H(N_Contact, V_contact6)
    [] i = 24 -> H(N_m, V_contact4)
    [] i = 25 -> H(N_Expires, V_expires1)
    [] i = 26 -> GenHdrLine(N_expires, WS1, WS1, V_expires2, WS1, CRLF)
    [] i = 27 -> H(N_UA, V_ua)
    [] i = 28 -> H(N_RR, V_rr)
    [] i = 29 -> H(N_Route, V_route)
    [] i = 30 -> H(N_PAI, V_pai1)
    [] i = 31 -> H(N_pai, V_pai2)
    [] i = 32 -> H(N_PAI, V_pai3)
    [] i = 33 -> H(N_X, V_x1)
    [] i = 34 -> H(N_Subject, V_subj)
    [] i = 35 -> H(N_s, V_x3)
    [] i = 36 -> GenHdrLine(N_X, WS0, WS1, V_x4, WS0, LFONLY)
    [] i = 37 -> GenHdrLine(N_X, WS0, WS1, V_x5, WS0, CRONLY)
    [] i = 38 -> GenHdrLine(N_X, WS0, WS2, V_empty, WS0, CRLF)
    [] i = 39 -> GenHdrLine(N_X, WS1, WS0, V_empty, WS0, LFONLY)
    [] i = 40 -> H(N_X, V_x2)
    [] i = 41 -> H(N_Fro, V_x1)
    [] i = 42 -> H(N_Fromm, V_x1)
    [] i = 43 -> H(N_ContentLengt, V_expires2)
    [] i = 44 -> GenHdrLine(N_UA, WS0, WS1, V_empty, WS0, CRLF)
    [] i = 45 -> GenHdrLine(N_Route, WS0, WS0, V_empty, WS0, LFONLY)
    [] i = 46 -> GenHdrLine(N_v, WS1, WS1, V_empty, WS1, CRLF)
    [] i = 47 -> GenHdrLine(N_maxfwd, WS0, WS0, V_empty, WS0, CRLF)
    [] i = 48 -> GenHdrLine(N_Contact, WS0, WS1, V_contact3, WS2, CRLF)
    [] i = 49 -> GenHdrLine(N_m, WS0, WS0, V_contact3, WS1, LFONLY)
    [] i = 50 -> GenHdrLine(N_PAI, WS0, WS1, V_pai1, WS2, CRLF)
    \* a list item whose last parameter has a value, white space before the comma
    [] i = 51 -> H(N_Contact, V_contact7)
    [] i = 52 -> H(N_PAI, V_pai4)
    [] i = 53 -> H(N_L, V_x1)
\* NOTE: the last line "L: bar" is a Content-Length header by name with a non-numeric value: NOT well formed,
\* it is excluded from the well-formed pool below and only used by near-miss explorations.
NPool == PoolSize - 1

FLs    == <<FL_inv, FL_reg, FL_opt, FL_foo, FL_ack, FL_200, FL_180, FL_404>>
Bodies == <<BODY0, BODY3, BODY12>>

CLenLine(nm, n, term) == GenHdrLine(nm, WS0, WS1, DecText(n), WS0, term)

Lines(idx) == SubSeq([j \in 1..Len(idx) |-> PoolLine(idx[j])], 1, Len(idx))

\* The state is the CHOICE (small tuples); the message is computed from it where needed.
\* slice "hdrs": K pool lines, every first line for K = 1 (two for K > 1), no body, default flags: C07
\* (a line ended by a lone CR followed by a blank line that is a lone LF would read as CRLF: not generated)
BlankOk(idx, blank) == ~(PoolLine(idx[Len(idx)]).term = CRONLY /\ blank = LFONLY)
ChoicesHdrs == { y \in (IF K = 1 THEN 1..Len(FLs) ELSE {1, 6}) \X (UNION { [1..k -> 1..NPool] : k \in 1..K }) \X {CRLF, LFONLY} :
                   BlankOk(y[2], y[3]) }
MsgHdrs(x) == GenMsg(0, 34, FLs[x[1]], CRLF, Lines(x[2]), x[3], BODY0, -1, 0, 64)

\* slice "framing": 1..2 pool lines + optional Content-Length line (long / compact name, first or last),
\* declared length smaller / equal / larger than the body (also by a multiple of 65536: offsets are 16 bit), all 8 flag sets: C06
FramingLines(idx, clen, pos, nm) ==
  IF clen < 0 THEN Lines(idx)
  ELSE IF pos = 0 THEN <<CLenLine(nm, clen, CRLF)>> \o Lines(idx) ELSE Lines(idx) \o <<CLenLine(nm, clen, CRLF)>>
ChoicesFraming == {1, 6} \X (UNION { [1..k -> {1, 8, 11, 14, 19, 25, 33}] : k \in 1..(IF K > 2 THEN 2 ELSE K) })
                  \X {-1, 0, 2, 3, 4, 12, 13, 600, 65536, 65539, 65548, 131075} \X {0, 1} \X {N_CLen, N_l} \X (1..Len(Bodies)) \X (0..7) \X {CRLF, LFONLY} \X {64, 1}
\* (the blank line is CRLF or a lone LF -- the latter also as the very last byte of the buffer when the body is empty)
\* (header capacity 64 or 1: the framing must not depend on whether the Content-Length header fits the caller's array)
MsgFraming(x) == GenMsg(0, 34, FLs[x[1]], CRLF, FramingLines(x[2], x[3], x[4], x[5]), x[8], Bodies[x[6]], x[3], x[7], x[9])

\* slice "caps": header capacity smaller than the number of headers (stored prefix, total count): C07 / C13
ChoicesCaps == (UNION { [1..k -> {1, 5, 8, 11, 14, 19, 20, 27, 30, 33, 35, 44, 45, 46}] : k \in 1..K }) \X {-1, 0, 1, 2}
MsgCaps(x) == GenMsg(0, 34, FLs[1], CRLF, Lines(x[1]), CRLF, BODY0, -1, 0, x[2])

\* slice "bigclen": a numeric header whose value is out of range or over-long (Content-Length above 2^24 or longer
\* than 9 characters, Expires / CSeq above 32 bits) between pool lines: the message must be REJECTED (C10); the wires
\* feed the resumption explorations (a cut inside the number must not change the verdict)
BigNums == <<V_big1, V_big2, V_big3, V_big4, V_big5, V_big6>>
BigLine(k, n) == CASE k = 1 -> GenHdrLine(N_CLen, WS0, WS1, BigNums[n], WS0, CRLF)
                   [] k = 2 -> GenHdrLine(N_l, WS0, WS0, BigNums[n], WS1, CRLF)
                   [] k = 3 -> GenHdrLine(N_Expires, WS0, WS1, BigNums[n], WS0, CRLF)
                   [] k = 4 -> GenHdrLine(N_CSeq, WS0, WS1, BigNums[n] \o <<SP, 65, 67, 75>>, WS0, CRLF)
\* (Expires / CSeq are 32 bit: only V_big2 = 2^32 and V_big4 = 99999999999 are out of range for them)
\* the other numbers (above 2^24 or longer than 9 characters, up to 2^32-1) are fine for Expires / CSeq: the message is
\* ACCEPTED -- under every schedule as well (a resumed Expires header must not be held to the Content-Length limits)
BigRejected(x) == x[3] <= 2 \/ x[4] \in {2, 4}
ChoicesBig == {1, 6} \X {1, 8, 14, 19, 33} \X (1..4) \X (1..Len(BigNums)) \X {0, 1} \X {0, 4}
MsgBig(x) == LET ls == IF x[5] = 0 THEN <<PoolLine(x[2]), BigLine(x[3], x[4])>> ELSE <<BigLine(x[3], x[4]), PoolLine(x[2])>>
                 m == GenMsg(0, 34, FLs[x[1]], CRLF, ls, CRLF, BODY3, -1, x[6], 64)
                 v == DecValue(BigNums[x[4]], 2)
             IN IF BigRejected(x) THEN [m EXCEPT !.err = "ERR", !.offs = -1]
                ELSE [num |-> [PV |-> IF x[3] = 3 THEN [Expires |-> [UIVal |-> v]] ELSE [CSeq |-> [CSeqNo |-> v]]]] @@ m

\* slice "cexp" (C09): several Contact headers whose values all carry an explicit expires, fillers and an Expires
\* header in between: value count, header count and the min / max expires summarise ALL values of ALL headers
CLine(k) == CASE k = 1 -> [l |-> H(N_Contact, VC_e10), e |-> <<10>>]
              [] k = 2 -> [l |-> H(N_m, VC_e60_5), e |-> <<60, 5>>]
              [] k = 3 -> [l |-> GenHdrLine(N_CONTACT, WS1, WS1, VC_e7200, WS0, LFONLY), e |-> <<7200>>]
              [] k = 4 -> [l |-> H(N_Contact, VC_e3), e |-> <<3>>]
              [] k = 5 -> [l |-> H(N_X, V_x1), e |-> <<>>]
              [] k = 6 -> [l |-> H(N_Expires, V_expires3), e |-> <<>>]
              [] k = 7 -> [l |-> H(N_m, VC_e3600z), e |-> <<3600>>]
ChoicesCExp == (UNION { [1..k -> 1..7] : k \in 2..K }) \X {-1, 0, 1, 2}
RECURSIVE CatSeq(_, _)
CatSeq(ss, k) == IF k > Len(ss) THEN <<>> ELSE ss[k] \o CatSeq(ss, k + 1)
SMin(S) == CHOOSE x \in S : \A y \in S : x <= y
SMax(S) == CHOOSE x \in S : \A y \in S : y <= x
MsgCExp(x) ==
  LET idx == x[1]
      ls  == SubSeq([j \in 1..Len(idx) |-> CLine(idx[j]).l], 1, Len(idx))
      es  == CatSeq(SubSeq([j \in 1..Len(idx) |-> CLine(idx[j]).e], 1, Len(idx)), 1)
      hno == Cardinality({j \in 1..Len(idx) : idx[j] <= 4 \/ idx[j] = 7})
      hasE == \E j \in 1..Len(idx) : idx[j] = 6
      S   == {es[j] : j \in 1..Len(es)}
      m   == GenMsg(0, 34, FLs[2], CRLF, ls, CRLF, BODY0, -1, 0, 64)
      mx  == IF S = {} THEN 0 ELSE SMax(S)
  IN [ccap |-> x[2], obs |-> [PV |-> [Contacts |-> IF S = {} THEN [N |-> 0, HNo |-> 0]
                                             ELSE [N |-> Len(es), HNo |-> hno, MinExpires |-> <<SMin(S), 0>>, MaxExpires |-> <<mx, 0>>],
                                MaxExpiresOk |-> (S # {} \/ hasE),
                                MaxExpires |-> <<(IF hasE /\ 100 > mx THEN 100 ELSE mx), 0>>]]] @@ m

Choices == CASE Part = "hdrs" -> ChoicesHdrs [] Part = "cexp" -> ChoicesCExp [] Part = "bigclen" -> ChoicesBig [] Part = "framing" -> ChoicesFraming [] Part = "caps" -> ChoicesCaps
Msg(x)  == CASE Part = "hdrs" -> MsgHdrs(x) [] Part = "cexp" -> MsgCExp(x) [] Part = "bigclen" -> MsgBig(x) [] Part = "framing" -> MsgFraming(x) [] Part = "caps" -> MsgCaps(x)

VARIABLE c
Init == c \in Choices
Next == FALSE /\ UNCHANGED c
Spec == Init /\ [][Next]_c

ObsFor(m) == CASE Prop = "C07" -> [HL |-> m.obs.HL]
               [] Prop = "C06" -> [Body |-> m.obs.Body, RawMsg |-> m.obs.RawMsg, Parsed |-> m.obs.Parsed]
               [] Prop = "corpus" -> [n |-> m.nhdr]
               [] Prop = "C10" -> IF "num" \in DOMAIN m THEN m.num ELSE [n |-> m.nhdr]
               [] Prop = "C09" -> m.obs
               [] OTHER -> m.obs
Cfg(m) == [kind |-> "msg", start |-> 0, flags |-> m.flags, hcap |-> m.hcap, ccap |-> (IF "ccap" \in DOMAIN m THEN m.ccap ELSE -1), pcap |-> -1]
\* one oracle record per generated message; GenSane: model-level sanity of the generator itself
Emit == LET m == Msg(c) IN
          /\ m.offs <= Len(m.wire)
          /\ ("HL" \in DOMAIN m.obs) => \A k \in 1..Len(m.obs.HL.Hdrs) :
                LET h == m.obs.HL.Hdrs[k] IN h.Name[1] + h.Name[2] <= Len(m.wire) /\ h.Val[1] + h.Val[2] <= Len(m.wire)
          /\ PrintT(ToJson([k |-> "msg", cfg |-> Cfg(m), wire |-> m.wire, cuts |-> <<Len(m.wire)>>,
                            offs |-> m.offs, err |-> m.err, errs |-> (IF m.err = "ERR" THEN <<"ERR">> ELSE <<>>), obs |-> ObsFor(m),
                            src |-> (IF Prop = "corpus" THEN "gen" ELSE "decl"), prop |-> Prop]))
\* Model level: the transcription (SIPMsg.tla) parses every generated message as the ghost intends (Auto = Decl on
\* the generator's domain) and its observation satisfies the C05 predicate.
AutoRun(m) == Msg_Call(m.wire, 0, Msg_New(Cfg(m)), Cfg(m))
AutoEqDecl == LET m == Msg(c)  r == AutoRun(m) IN
                IF m.err = "ERR" THEN r.err \notin {OK, MORE, EOH, EMPTY, MOREVALUES} ELSE
                /\ r.err = m.err /\ r.offs = m.offs
                /\ (m.err = OK => /\ Msg_Obs(r.st).HL = m.obs.HL /\ Msg_Obs(r.st).Body = m.obs.Body
                                  /\ Msg_Obs(r.st).RawMsg = m.obs.RawMsg)
Nested == LET m == Msg(c)  r == AutoRun(m) IN r.err = OK => FieldsNested(m.wire, 0, r.offs, Msg_Obs(r.st))
=============================================================================
