-------------------------- MODULE MC_GenNameAddr --------------------------
(***************************************************************************)
(* C09: enumerates generated name-addr values / lists / header lines       *)
(* (GenNameAddr) -- every derivation of the chosen slice -- and prints per  *)
(* derivation a `decl` oracle record: the text and what C09 says the real   *)
(* parser must report for it (only the keys that the property determines,  *)
(* see the conventions in GenNameAddr.tla).                                *)
(* The state is the CHOICE (a small tuple of pool indexes); text and ghost *)
(* are computed from it inside the Emit invariant.                         *)
(*   Part = "single"  : all display x addr shapes x 0..2 parameters, no LWS *)
(*          "lws"     : few shapes x every LWS placement (before/after ";", *)
(*                      before/after "=", leading, trailing)                *)
(*          "params3" : 3 parameters, all orders of a subset, 4 LWS styles  *)
(*          "lists"   : 1..3 values, LWS around ","; kinds contacts (ccap), *)
(*                      pais, nameaddr (first value -> morevalues)          *)
(*          "listsws" : FINDING sub-slice: LWS between a header parameter   *)
(*                      and the "," (rejected by the code)                  *)
(*          "namews"  : STRICT-READING sub-slice: LWS between the display    *)
(*                      name and "<", Name stated as the name alone (the    *)
(*                      code documents that Name may carry the trailing     *)
(*                      white space: every record differs in Name only)     *)
(*          "inmsg"   : 1..2 From/To/Contact/PAI lines in a header block    *)
(*                      (headersb) and in a message (msg)                   *)
(***************************************************************************)
EXTENDS GenNameAddr, Json

CONSTANTS Part, Deep
VARIABLE c                                      \* the choice

TAIL == <<CR, LF, 88>>                          \* CRLF + a following byte: the header end is definitive

\* ---- choices -> values
\* value choice vc = <<head choice, <<param choice, ...>>>>
MkVal(vc) == NAValue(NAHead(vc[1]),
                     IF Len(vc[2]) = 0 THEN <<>> ELSE SubSeq([k \in 1..Len(vc[2]) |-> NAParam(vc[2][k])], 1, Len(vc[2])))

P0(n, v)      == <<n, v, 0, 0, 0, 0>>                                       \* parameter without LWS
HeadsBr       == {<<0, d, w, u>> : d \in 1..NNADisp, w \in {0, 1}, u \in 1..7} \cup {<<0, 0, 0, u>> : u \in 1..7}
HeadsBare     == {<<1, 0, 0, u>> : u \in 1..4}
HeadsAll      == HeadsBr \cup HeadsBare
HeadStar      == <<2, 0, 0, 0>>
HdSip         == <<0, 0, 0, 1>>                 \* <sip:bob@b.example>
HdBare        == <<1, 0, 0, 1>>                 \* sip:bob@b.example
HdQParams     == <<0, 3, 1, 5>>                 \* "Bob" <sip:a@b;transport=tcp?h=v>
HdTokTel      == <<0, 1, 0, 3>>                 \* Bob<tel:+1-408>
Heads4        == {HdSip, HdBare, HdQParams, HdTokTel}
Heads3        == {HdSip, HdBare, HdQParams}

\* ---- slice "single"
Params1All == {P0(n, v) : n \in 1..NNAPName, v \in 1..NNAPVal}
Params2Sub == {P0(n, v) : n \in 1..11, v \in {1, 3, 4, 5, 7}}
\* NOTE (TLC): the big choice sets are written inside the Init disjuncts (state level): TLC evaluates every constant
\* level definition at start-up, once per worker, whatever Part is, and its set union is quadratic
InitSingle ==
  \/ c \in {<<"na", h, 0, 0, <<hd, <<>>>>>> : h \in {1, 2, 8, 13}, hd \in HeadsAll}
  \/ c = <<"na", 8, 0, 0, <<HeadStar, <<>>>>>>
  \/ c \in {<<"na", h, 0, 0, <<hd, <<p>>>>>> : h \in {2, 8}, hd \in HeadsAll, p \in Params1All}
  \/ c \in {<<"na", h, 0, 0, <<hd, <<p, q>>>>>> : h \in {1, 13}, hd \in Heads4, p \in Params2Sub, q \in Params2Sub}

\* ---- slice "lws"
WS4 == 0..3                                                     \* none, SP, HT, CRLF SP
LwsNV == {<<1, 3>>, <<3, 4>>, <<5, 7>>, <<9, 6>>, <<4, 11>>}    \* tag=abc expires=3600 q=0.5 foo="a\"b;c,d" EXPIRES=4294967296
InitLws ==
  \/ c \in {<<"na", h, 0, 0, <<hd, << <<nv[1], nv[2], b, a, e1, e2>> >>>>>> :
            h \in {1, 8}, hd \in Heads3, nv \in LwsNV, b \in WS4, a \in WS4, e1 \in WS4, e2 \in WS4}
  \/ c \in {<<"na", h, 0, 0, <<hd, << <<n, 1, b, a, 0, 0>> >>>>>> :
            h \in {2, 13}, hd \in Heads3, n \in {7, 8, 11}, b \in WS4, a \in WS4}
  \/ c \in {<<"na", h, 0, 0, <<hd, << <<n, 2, b, a, e1, 0>> >>>>>> :
            h \in {2, 13}, hd \in Heads3, n \in {7, 8, 11}, b \in WS4, a \in WS4, e1 \in WS4}
  \/ c \in {<<"na", 8, 0, 0, <<hd, << <<1, 3, b, a, e1, e2>>, <<7, 1, b2, a2, 0, 0>> >>>>>> :
            hd \in {HdSip, HdBare}, b \in WS4, a \in WS4, e1 \in WS4, e2 \in WS4, b2 \in WS4, a2 \in WS4}
  \/ c \in {<<"na", h, lead, trail, <<hd, ps>>>> :
            h \in {1, 2, 8, 13}, lead \in WS4, trail \in {0, 1, 2, 4}, hd \in HeadsAll, ps \in {<<>>, <<P0(1, 3)>>, <<P0(7, 1)>>}}
  \/ c \in {<<"na", 8, lead, trail, <<HeadStar, <<>>>>>> : lead \in WS4, trail \in {0, 1, 2, 4}}
  \* every LWS form between the display name and "<"
  \/ c \in {<<"na", h, 0, 0, <<<<0, d, w, u>>, ps>>>> :
            h \in {1, 8}, d \in 1..NNADisp, w \in 2..6, u \in {1, 5, 7}, ps \in {<<>>, <<P0(1, 3)>>, <<P0(8, 1)>>}}
  \* the longer LWS forms (CRLF HT, SP CRLF SP) around ";" and "=", leading
  \/ c \in {<<"na", h, lead, 0, <<hd, << <<nv[1], nv[2], b, a, e1, e2>> >>>>>> :
            h \in {2, 13}, lead \in {0, 5}, hd \in Heads3, nv \in LwsNV, b \in {0, 5, 6}, a \in {0, 5, 6}, e1 \in {0, 5, 6}, e2 \in {0, 5, 6}}

\* ---- slice "params3": ordered triples of distinct (name, value) combinations
P3Pool == {<<1, 3>>, <<2, 5>>, <<3, 4>>, <<4, 11>>, <<5, 7>>, <<6, 9>>, <<7, 1>>, <<8, 2>>, <<9, 6>>, <<10, 3>>, <<11, 1>>, <<9, 1>>, <<3, 13>>}
Sty(nv, s) == CASE s = 0 -> <<nv[1], nv[2], 0, 0, 0, 0>> [] s = 1 -> <<nv[1], nv[2], 1, 1, 1, 1>>
                [] s = 2 -> <<nv[1], nv[2], 3, 0, 0, 2>> [] s = 3 -> <<nv[1], nv[2], 0, 3, 2, 0>>
InitParams3 ==
  c \in {<<"na", h, 0, 0, <<hd, <<Sty(t[1], s), Sty(t[2], s), Sty(t[3], s)>>>>>> :
      h \in {2, 8}, hd \in Heads3, s \in 0..3,
      t \in {u \in P3Pool \X P3Pool \X P3Pool : u[1] # u[2] /\ u[1] # u[3] /\ u[2] # u[3]}}

\* ---- slice "carry": a parameter WITH a value followed by one WITHOUT (missing / empty): nothing carries over.
\* first: every "other" name (1..13 characters) and the known names; second: the known names and an other one
CarryFirst  == {9, 10, 11, 15, 16, 17, 18, 19, 20, 21, 22, 23, 1, 3, 5, 7}
CarrySecond == {1, 3, 5, 7, 12, 13, 14, 9}
InitCarry ==
  \/ c \in {<<"na", h, 0, 0, <<hd, <<P0(n1, v1), P0(n2, v2)>>>>>> :
            h \in {1, 2, 8, 13}, hd \in Heads3, n1 \in CarryFirst, v1 \in {3, 4, 5, 7, 12}, n2 \in CarrySecond, v2 \in {1, 2}}
  \/ c \in {<<"na", h, 0, 0, <<hd, <<P0(n1, v1), P0(n0, 1), P0(n2, v2)>>>>>> :
            h \in {2, 8}, hd \in {HdSip, HdBare}, n1 \in {16, 21, 22, 23, 9}, v1 \in {3, 4, 7}, n0 \in {9, 20, 21}, n2 \in {1, 3, 5, 7}, v2 \in {1, 2}}

\* ---- value pool of the list slices (lazy)
LV(i) ==
  CASE i = 1 -> <<HdSip, <<>>>>                                                 \* <sip:bob@b.example>
    [] i = 2 -> <<HdQParams, <<P0(3, 4)>>>>                                     \* "Bob" <sip:a@b;transport=tcp?h=v>;expires=3600
    [] i = 3 -> <<HdBare, <<P0(1, 3), P0(5, 7)>>>>                              \* sip:bob@b.example;tag=abc;q=0.5
    [] i = 4 -> <<<<0, 1, 1, 3>>, <<P0(3, 8), P0(7, 1)>>>>                      \* Bob <tel:+1-408>;expires=0;lr
    [] i = 5 -> <<<<0, 4, 1, 1>>, <<P0(9, 6)>>>>                                \* "B \" , ; < > o\\" <sip:..>;foo="a\"b;c,d"
    [] i = 6 -> <<<<0, 0, 0, 6>>, <<P0(4, 11)>>>>                               \* <sip:a,b@h;x=1,2>;EXPIRES=4294967296
    [] i = 7 -> <<<<0, 5, 0, 2>>, <<P0(3, 14), P0(6, 10)>>>>                    \* ""<sips:a@[::1]:5061>;expires=60;Q=1.000
    [] i = 8 -> <<<<1, 0, 0, 3>>, <<>>>>                                        \* tel:+1-408
    [] i = 9 -> <<<<0, 2, 1, 4>>, <<<<3, 12, 1, 1, 1, 1>>>>>>                   \* Bob T. Builder <x> ; expires = 4294967295
    [] i = 10 -> <<<<0, 3, 0, 6>>, <<>>>>                                       \* "Bob"<sip:a,b@h;x=1,2>
    [] i = 11 -> <<HeadStar, <<>>>>                                             \* *  (Contact only, alone)
NLV == 10
LVal(i) == MkVal(LV(i))
LVHasParams(i) == Len(LV(i)[2]) > 0

\* list choice lc = <<lead ws, <<value index, ...>>, <<<<ws before ",", ws after ",">>, ...>>, trailing ws>>
MkList(lc) ==
  LET n  == Len(lc[2])
      gs == SubSeq([k \in 1..n |-> LVal(lc[2][k])], 1, n)
      l  == NAWs(lc[1])
      L  == NAList(gs, lc[3], Len(l))
  IN [gs |-> gs, L |-> L, txt |-> l \o L.txt \o NAWs(lc[4])]
ObsSeq(ml, h, shift) == SubSeq([k \in 1..ml.L.n |-> NAObs(ml.gs[k], h, shift + ml.L.starts[k])], 1, ml.L.n)

\* separators: LWS after the comma is free; LWS before it is put here only after a value WITHOUT header parameters
\* (after a parameter it is the FINDING sub-slice "listsws")
SepsAfter == {<<0, 0>>, <<0, 1>>, <<0, 3>>, <<0, 2>>, <<0, 5>>}
SepsBoth  == SepsAfter \cup {<<1, 0>>, <<1, 1>>, <<3, 1>>, <<2, 3>>, <<6, 6>>}
LeadTrail == {<<0, 0>>, <<1, 0>>, <<3, 1>>, <<0, 2>>}
SepsFor(i)   == IF LVHasParams(i) THEN SepsAfter ELSE SepsBoth
SepsWsFor(i) == IF LVHasParams(i) THEN SepsBoth \ SepsAfter ELSE {}
Lists1 == {<<lt[1], <<i>>, <<>>, lt[2]>> : i \in 1..NLV, lt \in LeadTrail}
IdxLV == 1..NLV
L3Pool == IF Deep THEN IdxLV ELSE {1, 2, 3, 6, 9}       \* (Deep: the thorough tier)
Seps3(i) == IF Deep THEN SepsFor(i) ELSE SepsFor(i) \cap {<<0, 0>>, <<0, 1>>, <<3, 1>>, <<0, 3>>}
\* NOTE (TLC): no UNION of many small sets (quadratic in TLC): products filtered by a predicate instead
Lists2Of(S(_)) == {<<lt[1], <<u[1], u[2]>>, <<u[3]>>, lt[2]>> : u \in {v \in IdxLV \X IdxLV \X SepsBoth : v[3] \in S(v[1])}, lt \in LeadTrail}
Lists3 == {<<0, <<u[1], u[2], u[3]>>, <<u[4], u[5]>>, 0>> :
             u \in {v \in L3Pool \X L3Pool \X L3Pool \X SepsBoth \X SepsBoth : v[4] \in Seps3(v[1]) /\ v[5] \in Seps3(v[2])}}
InitListsOf(LL) ==
  \/ c \in {<<"contacts", ccap, lc>> : ccap \in {0, 1, 2, 4}, lc \in LL}
  \/ c \in {<<"pais", 0, lc>> : lc \in LL}
InitMoreOf(LM) == c \in {<<"more", h, lc>> : h \in {8, 13}, lc \in LM}
InitLists ==
  \/ InitListsOf(Lists1) \/ InitListsOf(Lists2Of(SepsFor)) \/ InitListsOf(Lists3)
  \/ InitMoreOf(Lists2Of(SepsFor)) \/ InitMoreOf(Lists3)
  \/ c \in {<<"contacts", ccap, <<lead, <<11>>, <<>>, trail>>>> : ccap \in {0, 1}, lead \in {0, 1}, trail \in {0, 1}}
InitListsWs == InitListsOf(Lists2Of(SepsWsFor)) \/ InitMoreOf(Lists2Of(SepsWsFor))

\* ---- slice "inmsg": header lines (lazy pool): name, LWS, terminator, header kind, values, separators
HL(nm, w1, w2, w3, term, h, vals, seps) == [name |-> nm, ws1 |-> w1, ws2 |-> w2, ws3 |-> w3, term |-> term, h |-> h, vals |-> vals, seps |-> seps]
LinePool(i) ==
  CASE i = 1  -> HL(N_From, WS0, WS1, WS0, CRLF, 1, <<3>>, <<>>)
    [] i = 2  -> HL(N_f, WS0, WS0, WS1, LFONLY, 1, <<5>>, <<>>)
    [] i = 3  -> HL(N_FROM, WS1, WSF, WS0, CRLF, 1, <<2>>, <<>>)
    [] i = 4  -> HL(N_From, WS0, WS1, WS0, CRLF, 1, <<8>>, <<>>)
    [] i = 5  -> HL(N_To, WS0, WS1, WS0, CRLF, 2, <<1>>, <<>>)
    [] i = 6  -> HL(N_t, WS2, WS0, WS0, CRLF, 2, <<9>>, <<>>)
    [] i = 7  -> HL(N_tO, WS0, WS1, WS2, CRLF, 2, <<3>>, <<>>)
    [] i = 8  -> HL(N_Contact, WS0, WS1, WS0, CRLF, 8, <<1>>, <<>>)
    [] i = 9  -> HL(N_m, WS0, WS1, WS0, CRLF, 8, <<2, 5>>, << <<0, 1>> >>)
    [] i = 10 -> HL(N_CONTACT, WS0, WSF, WS0, CRLF, 8, <<10, 6, 7>>, << <<1, 3>>, <<0, 1>> >>)
    [] i = 11 -> HL(N_Contact, WS0, WS1, WS1, LFONLY, 8, <<11>>, <<>>)
    [] i = 12 -> HL(N_Contact, WS1, WS1, WS0, CRLF, 8, <<9, 4, 3>>, << <<0, 0>>, <<0, 3>> >>)
    [] i = 13 -> HL(N_m, WS0, WS0, WS0, CRLF, 8, <<6, 2, 7, 9>>, << <<0, 1>>, <<0, 1>>, <<0, 1>> >>)
    [] i = 14 -> HL(N_PAI, WS0, WS1, WS0, CRLF, 13, <<5>>, <<>>)
    [] i = 15 -> HL(N_pai, WS0, WS1, WS0, CRLF, 13, <<1, 8>>, << <<1, 1>> >>)
    [] i = 16 -> HL(N_PAI, WS0, WS2, WS1, CRLF, 13, <<10, 3, 1>>, << <<0, 1>>, <<0, 3>> >>)
    [] i = 17 -> HL(N_PAI, WS0, WS1, WS0, LFONLY, 13, <<8>>, <<>>)
    [] i = 18 -> HL(N_X, WS0, WS1, WS0, CRLF, HdrOther, <<1>>, <<>>)          \* not a name-addr header: only in the header list
NLines == 18
MkLine(i) == LET p == LinePool(i)  ml == MkList(<<0, p.vals, p.seps, 0>>) IN
               [line |-> GenHdrLine(p.name, p.ws1, p.ws2, ml.txt, p.ws3, p.term), h |-> p.h, ml |-> ml]
\* at most one From and one To line per message (RFC 3261: exactly one; the code keeps the first)
LineSeqOk(idx) == \A h \in {1, 2} : Cardinality({k \in 1..Len(idx) : LinePool(idx[k]).h = h}) <= 1
\* (the last two: 12 and 14 Contact values in 3 / 4 headers -- more than the 10 elements of the built-in array of a message)
LineSeqs == {<<i>> : i \in 1..NLines} \cup {<<i, j>> : i \in 1..NLines, j \in 1..NLines} \cup {<<13, 13, 13>>, <<13, 10, 13, 12>>}
            \cup (IF Deep THEN {<<i, j, k>> : i \in 1..NLines, j \in 1..NLines, k \in 1..NLines}
                  ELSE {<<i, j, k>> : i \in {1, 9, 12, 15}, j \in {5, 8, 13, 16, 18}, k \in {6, 10, 11, 14, 17}})
InitNameWs == c \in {<<"nastrict", h, 0, 0, <<<<0, d, w, u>>, ps>>>> :
                        h \in {1, 2, 8, 13}, d \in 1..NNADisp, w \in 1..6, u \in {1, 5}, ps \in {<<>>, <<P0(1, 3)>>}}
LineSeqsOk == {x \in LineSeqs : LineSeqOk(x)}
InitInMsg ==
  \/ c \in {<<"headersb", cc[1], cc[2], 0, idx>> : cc \in {<<4, 0>>, <<4, 1>>, <<4, 4>>, <<1, 2>>}, idx \in LineSeqsOk}
  \/ c \in {<<"msg", 64, ccap, fl, idx>> : ccap \in {-1, 1}, fl \in {1, 2}, idx \in LineSeqsOk}

Init == \/ (Part = "single" /\ InitSingle)
        \/ (Part = "lws" /\ InitLws)
        \/ (Part = "params3" /\ InitParams3)
        \/ (Part = "carry" /\ InitCarry)
        \/ (Part = "lists" /\ InitLists)
        \/ (Part = "listsws" /\ InitListsWs)
        \/ (Part = "inmsg" /\ InitInMsg)
        \/ (Part = "namews" /\ InitNameWs)
Next == FALSE /\ UNCHANGED c
Spec == Init /\ [][Next]_c

\* ---- oracle records
Rec(kind, flags, hcap, ccap, wire, offs, err, obs) ==
  [k |-> kind, cfg |-> [kind |-> kind, start |-> 0, flags |-> flags, hcap |-> hcap, ccap |-> ccap, pcap |-> -1],
   wire |-> wire, cuts |-> <<Len(wire)>>, offs |-> offs, err |-> err, obs |-> obs, src |-> "decl", prop |-> "C09"]

\* one value, header kind h: "ok", offset after the CRLF
RecNA(h, lead, trail, vc) ==
  LET g == MkVal(vc)  l == NAWs(lead)  w == l \o g.txt \o NAWs(trail) \o TAIL
  IN Rec("nameaddr", h, -1, -1, w, Len(w) - 1, OK, NAObs(g, h, Len(l)))
\* strict reading of Name (sub-slice "namews"): the display name alone, whatever follows it
RecNAStrict(h, lead, trail, vc) ==
  LET g == MkVal(vc)  l == NAWs(lead)  w == l \o g.txt \o NAWs(trail) \o TAIL
  IN Rec("nameaddr", h, -1, -1, w, Len(w) - 1, OK, [Name |-> ShiftSpan(g.Name, Len(l))] @@ NAObs(g, h, Len(l)))
\* first value of a list of a multi-value header kind: "morevalues", offset after the comma
RecMore(h, lc) ==
  LET ml == MkList(lc)  w == ml.txt \o TAIL
  IN Rec("nameaddr", h, -1, -1, w, ml.L.starts[1] + Len(ml.gs[1].txt) + Len(NAWs(lc[3][1][1])) + 1, MOREVALUES,
         NAObs(ml.gs[1], h, ml.L.starts[1]))
RecContacts(ccap, lc) ==
  LET ml == MkList(lc)  w == ml.txt \o TAIL
  IN Rec("contacts", 0, -1, ccap, w, Len(w) - 1, OK, NAContactsObs(ml.gs, ObsSeq(ml, 8, 0), ccap, -1, ml.L.hval))
RecPAIs(lc) ==
  LET ml == MkList(lc)  w == ml.txt \o TAIL
  IN Rec("pais", 0, -1, -1, w, Len(w) - 1, OK, NAPAIsObs(ml.gs, ObsSeq(ml, 13, 0), -1, ml.L.hval))

\* header lines inside a header block / a message: values of kind h over all lines, in order
RECURSIVE Collect(_, _, _, _, _)
Collect(ls, k, o, h, acc) ==
  IF k > Len(ls) THEN acc
  ELSE LET l == ls[k]  vo == o + l.line.val[1] IN
       Collect(ls, k + 1, o + Len(l.line.txt), h,
               IF l.h # h THEN acc
               ELSE [gs |-> acc.gs \o l.ml.gs, os |-> acc.os \o ObsSeq(l.ml, h, vo), hno |-> acc.hno + 1,
                     last |-> ShiftSpan(l.ml.L.hval, vo)])
Coll(ls, o, h) == Collect(ls, 1, o, h, [gs |-> <<>>, os |-> <<>>, hno |-> 0, last |-> <<0, 0>>])
PVObs(ls, o, cap) ==
  LET f == Coll(ls, o, 1)  t == Coll(ls, o, 2)  ct == Coll(ls, o, 8)  pa == Coll(ls, o, 13) IN
     NAOpt("From", f.hno = 1, f.os[1]) @@ NAOpt("To", t.hno = 1, t.os[1])
  @@ NAOpt("Contacts", ct.hno > 0, NAContactsObs(ct.gs, ct.os, cap, ct.hno, ct.last))
  @@ NAOpt("PAIs", pa.hno > 0, NAPAIsObs(pa.gs, pa.os, pa.hno, pa.last))
FLs == <<FL_inv, FL_200>>
RecInMsg(kind, hcap, ccap, fl, idx) ==
  LET ls    == SubSeq([k \in 1..Len(idx) |-> MkLine(idx[k])], 1, Len(idx))
      lines == SubSeq([k \in 1..Len(idx) |-> ls[k].line], 1, Len(idx))
      first == IF kind = "msg" THEN FLs[fl] ELSE <<>>
      fterm == IF kind = "msg" THEN CRLF ELSE <<>>
      m     == GenMsg(0, 34, first, fterm, lines, CRLF, BODY0, -1, 0, hcap)
      cap   == IF ccap >= 0 THEN ccap ELSE IF kind = "msg" THEN 10 ELSE 0
      pv    == PVObs(ls, Len(first) + Len(fterm), cap)
  IN Rec(kind, 0, hcap, ccap, m.wire, IF kind = "msg" THEN m.offs ELSE Len(m.wire), OK,
         [HL |-> [N |-> m.obs.HL.N, Hdrs |-> m.obs.HL.Hdrs]] @@ NAOpt("PV", pv # NAE0, pv))

RecOf(x) == CASE x[1] = "na" -> RecNA(x[2], x[3], x[4], x[5])
              [] x[1] = "nastrict" -> RecNAStrict(x[2], x[3], x[4], x[5])
              [] x[1] = "more" -> RecMore(x[2], x[3])
              [] x[1] = "contacts" -> RecContacts(x[2], x[3])
              [] x[1] = "pais" -> RecPAIs(x[3])
              [] x[1] \in {"headersb", "msg"} -> RecInMsg(x[1], x[2], x[3], x[4], x[5])

\* one oracle record per choice; model-level sanity of the generator: the header kind of a pool line is the one the
\* documented name table gives, and the record stays inside the wire
Emit == LET r == RecOf(c) IN
          /\ r.offs <= Len(r.wire)
          /\ (c[1] \in {"headersb", "msg"} => \A k \in 1..Len(c[5]) : LET p == LinePool(c[5][k]) IN GetHdrTypeDecl(p.name) = p.h)
          /\ PrintT(ToJson(r))
=============================================================================
