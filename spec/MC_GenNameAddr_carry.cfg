SPECIFICATION Spec
CONSTANTS
  OffsMod = 65536
  Part = "carry"
  Deep = FALSE
INVARIANTS Emit
CHECK_DEADLOCK FALSE
