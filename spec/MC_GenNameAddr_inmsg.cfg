SPECIFICATION Spec
CONSTANTS
  OffsMod = 65536
  Part = "inmsg"
INVARIANTS Emit
CHECK_DEADLOCK FALSE
