SPECIFICATION Spec
CONSTANTS
  OffsMod = 65536
  Part = "inmsg"
  Deep = FALSE
INVARIANTS Emit
CHECK_DEADLOCK FALSE
