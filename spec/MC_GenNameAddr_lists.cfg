SPECIFICATION Spec
CONSTANTS
  OffsMod = 65536
  Part = "lists"
  Deep = FALSE
INVARIANTS Emit
CHECK_DEADLOCK FALSE
