SPECIFICATION Spec
CONSTANTS
  OffsMod = 65536
  Part = "lists"
INVARIANTS Emit
CHECK_DEADLOCK FALSE
