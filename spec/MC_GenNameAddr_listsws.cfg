SPECIFICATION Spec
CONSTANTS
  OffsMod = 65536
  Part = "listsws"
  Deep = FALSE
INVARIANTS Emit
CHECK_DEADLOCK FALSE
