SPECIFICATION Spec
CONSTANTS
  OffsMod = 65536
  Part = "listsws"
INVARIANTS Emit
CHECK_DEADLOCK FALSE
