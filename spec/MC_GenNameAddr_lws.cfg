SPECIFICATION Spec
CONSTANTS
  OffsMod = 65536
  Part = "lws"
INVARIANTS Emit
CHECK_DEADLOCK FALSE
