SPECIFICATION Spec
CONSTANTS
  OffsMod = 65536
  Part = "lws"
  Deep = FALSE
INVARIANTS Emit
CHECK_DEADLOCK FALSE
