SPECIFICATION Spec
CONSTANTS
  OffsMod = 65536
  Part = "namews"
  Deep = FALSE
INVARIANTS Emit
CHECK_DEADLOCK FALSE
