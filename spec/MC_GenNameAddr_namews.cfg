SPECIFICATION Spec
CONSTANTS
  OffsMod = 65536
  Part = "namews"
INVARIANTS Emit
CHECK_DEADLOCK FALSE
