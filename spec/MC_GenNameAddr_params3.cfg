SPECIFICATION Spec
CONSTANTS
  OffsMod = 65536
  Part = "params3"
  Deep = FALSE
INVARIANTS Emit
CHECK_DEADLOCK FALSE
