SPECIFICATION Spec
CONSTANTS
  OffsMod = 65536
  Part = "params3"
INVARIANTS Emit
CHECK_DEADLOCK FALSE
