SPECIFICATION Spec
CONSTANTS
  OffsMod = 65536
  Part = "single"
  Deep = FALSE
INVARIANTS Emit
CHECK_DEADLOCK FALSE
