SPECIFICATION Spec
CONSTANTS
  OffsMod = 65536
  Part = "single"
INVARIANTS Emit
CHECK_DEADLOCK FALSE
