---------------------------- MODULE MC_GenParams ----------------------------
(***************************************************************************)
(* C17: enumerates generated parameter lists (GenParams!GenList) -- every   *)
(* derivation of the selected slice -- and prints per list a `decl` oracle  *)
(* record: the text and what C17 says ParseAllURIParams / ParseAllURIHdrs / *)
(* one ParseTokenParam call must report for it.  The state is the CHOICE    *)
(* (a small tuple); text and ghost are computed from it inside Emit.        *)
(*                                                                          *)
(*  choice = << <<flags, ending>>, pcap, gaps, shapes >>                    *)
(*  shape  = << name index, value kind, w0, wa, wb, wc >>   (0..3 = none SP HT fold) *)
(*                                                                          *)
(* Slices (Part):                                                           *)
(*   one      1 item, every white space combination (4^4), two names        *)
(*   two      2 items, reduced white space patterns, three names each       *)
(*   three    3 items, reduced patterns, names by position                  *)
(*   gaps     1..3 items with empty list items (";;", "; ;") before, between, after *)
(*   names    1 item, every name of the pool (known names in several cases, near misses) *)
(*   names2   2 items, every pair of names (Types = OR of both)             *)
(*   sweep    256 byte values at 9 positions (inside a name / a token value, *)
(*            right after a token / quoted value, first byte of a name / a  *)
(*            value, after name+blank, value+blank, separator), 3 modes     *)
(*   resolve  fn records for URIParamResolve                                *)
(*   zero     lists of 0 items ("", ";", ";;", "; ;") ended by the end of   *)
(*            header / input.  tokparam: cfg MC_GenParams_zero_tp.cfg (ok). *)
(*  Sub-slices kept apart because the REAL CODE DIFFERS from the intended   *)
(*  reading there (cfgs MC_GenParams_viol_*.cfg; see FINDINGS at the end):  *)
(*   zero     (uriparams / urihdrs) the wrappers count one parameter        *)
(*   septerm  empty item(s) directly followed by the terminator byte, and   *)
(*            the terminator as the very first byte of the list             *)
(*   allempty All of a parameter with an EMPTY value and white space around "=" *)
(*  tokparam records: the first parameter (fresh object at offset 0) and,   *)
(*  for k > 1, the k-th parameter (fresh object at its first name byte).    *)
(***************************************************************************)
EXTENDS GenParams, TLC, Json

CONSTANTS Part,     \* slice, see above
          Kind,     \* "uriparams" | "urihdrs" | "tokparam": which parser the records address
          NPat      \* number of white space patterns of the reduced shapes (1..4)
VARIABLE c

\* ---- name pools (text, URI parameter type BY CONSTRUCTION: the known names are spelled here) ----
NT(t, T) == [t |-> t, T |-> T]
NUP == 47
UPName(i) ==
  CASE i = 1 -> NT(UP_transport, 1)  [] i = 2 -> NT(UP_LR, 32)         [] i = 3 -> NT(UP_foo, 64)
    [] i = 4 -> NT(UP_TRANSPORT, 1)  [] i = 5 -> NT(UP_tRaNsPoRt, 1)   [] i = 6 -> NT(UP_user, 2)
    [] i = 7 -> NT(UP_USER, 2)       [] i = 8 -> NT(UP_uSer, 2)        [] i = 9 -> NT(UP_method, 4)
    [] i = 10 -> NT(UP_Method, 4)    [] i = 11 -> NT(UP_METHOD, 4)     [] i = 12 -> NT(UP_ttl, 8)
    [] i = 13 -> NT(UP_TTL, 8)       [] i = 14 -> NT(UP_tTl, 8)        [] i = 15 -> NT(UP_maddr, 16)
    [] i = 16 -> NT(UP_MADDR, 16)    [] i = 17 -> NT(UP_mAddR, 16)     [] i = 18 -> NT(UP_lr, 32)
    [] i = 19 -> NT(UP_Lr, 32)       [] i = 20 -> NT(UP_lR, 32)        [] i = 21 -> NT(UP_Transport, 1)
    \* near misses: everything else is "other"
    [] i = 22 -> NT(UP_transpor, 64) [] i = 23 -> NT(UP_transports, 64) [] i = 24 -> NT(UP_transp0rt, 64)
    [] i = 25 -> NT(UP_ransport, 64) [] i = 26 -> NT(UP_trans_port, 64) [] i = 27 -> NT(UP_use, 64)
    [] i = 28 -> NT(UP_users, 64)    [] i = 29 -> NT(UP_usor, 64)      [] i = 30 -> NT(UP_metho, 64)
    [] i = 31 -> NT(UP_methods, 64)  [] i = 32 -> NT(UP_mathod, 64)    [] i = 33 -> NT(UP_tt, 64)
    [] i = 34 -> NT(UP_ttll, 64)     [] i = 35 -> NT(UP_tti, 64)       [] i = 36 -> NT(UP_madd, 64)
    [] i = 37 -> NT(UP_maddrs, 64)   [] i = 38 -> NT(UP_naddr, 64)     [] i = 39 -> NT(UP_l, 64)
    [] i = 40 -> NT(UP_r, 64)        [] i = 41 -> NT(UP_lrr, 64)       [] i = 42 -> NT(UP_rl, 64)
    [] i = 43 -> NT(UP_lr_, 64)      [] i = 44 -> NT(UP_xlr, 64)       [] i = 45 -> NT(UP_amp, 64)
    [] i = 46 -> NT(UP_x, 64)        [] i = 47 -> NT(PN_marks, 64)
NUH == 6
UHName(i) ==
  CASE i = 1 -> NT(UH_subject, 0) [] i = 2 -> NT(UH_qm, 0) [] i = 3 -> NT(PN_marks, 0)
    [] i = 4 -> NT(UH_To, 0)      [] i = 5 -> NT(UH_xh, 0) [] i = 6 -> NT(UP_lr, 0)
NPL == 5
PLName(i) ==
  CASE i = 1 -> NT(PN_tag, 0) [] i = 2 -> NT(PN_foo, 0) [] i = 3 -> NT(PN_marks, 0)
    [] i = 4 -> NT(PN_a, 0)   [] i = 5 -> NT(PN_qm, 0)        \* 5 ("a?b") only where '?' is not the terminator
NameOf(mode, i) == CASE mode = "up" -> UPName(i) [] mode = "uh" -> UHName(i) [] OTHER -> PLName(i)
NNames(flags) == CASE ModeOf(flags) = "up" -> NUP [] ModeOf(flags) = "uh" -> NUH
                   [] OTHER -> IF TermOf(flags) = QM THEN NPL - 1 ELSE NPL

ValOf(vk) == CASE vk = VToken -> PV_tok [] vk = VQuoted -> PV_quoted [] vk = VQEsc -> PQ_esc
               [] vk = VMarks -> PV_marks [] OTHER -> <<>>

\* ---- shapes ----
ShapesFull(NI, VK) ==
  { s \in NI \X VK \X (0..3) \X (0..3) \X (0..3) \X (0..3) :
      /\ (s[2] = VMissing => s[5] = 0 /\ s[6] = 0)
      /\ (s[2] = VEmpty => s[6] = 0) }
Pat(k) == CASE k = 1 -> <<0, 0, 0, 0>> [] k = 2 -> <<1, 1, 1, 1>> [] k = 3 -> <<3, 2, 3, 2>> [] k = 4 -> <<2, 3, 1, 3>>
ShapesRed(NI, VK, np) ==
  { <<ni, vk, Pat(k)[1], Pat(k)[2], IF vk = VMissing THEN 0 ELSE Pat(k)[3], IF HasVal(vk) THEN Pat(k)[4] ELSE 0>> :
      ni \in NI, vk \in VK, k \in 1..np }
TrailWs(s) == CASE s[2] = VMissing -> s[4] [] s[2] = VEmpty -> s[5] [] OTHER -> s[6]

\* names by position where the shape says 0
Plan == <<1, 2, 3>>
MkItem(mode, s, k) ==
  LET nm == NameOf(mode, IF s[1] = 0 THEN Plan[k] ELSE s[1]) IN
    Item(WSx(s[3]), nm.t, nm.T, WSx(s[4]), s[2], WSx(s[5]), ValOf(s[2]), WSx(s[6]))

\* ---- (flags, ending) combinations per kind: every terminator option the flags configure, the end of header,
\* and the end of input where POptInputEndF is set
Combos(kind) ==
  CASE kind = "uriparams" -> {<<64, "eoh">>, <<64, "term">>, <<72, "eoh">>, <<72, "term">>, <<72, "end">>,
                              <<68, "sp">>, <<68, "term">>, <<68, "eoh">>}              \* + white space then token (a request URI)
    [] kind = "urihdrs"   -> {<<128, "eoh">>, <<136, "eoh">>, <<136, "end">>, <<132, "sp">>, <<133, "sp">>, <<133, "term">>}
    [] kind = "tokparam"  -> {<<0, "eoh">>, <<1, "eoh">>, <<1, "term">>, <<2, "eoh">>, <<2, "term">>,
                              <<4, "eoh">>, <<4, "sp">>, <<4, "ht">>, <<8, "eoh">>, <<8, "end">>,
                              <<9, "eoh">>, <<9, "term">>, <<9, "end">>,
                              <<12, "eoh">>, <<12, "sp">>, <<12, "end">>, <<16, "eoh">>, <<32, "eoh">>,
                              \* a character terminator AND white space then token: whichever comes first
                              <<5, "sp">>, <<5, "term">>, <<5, "eoh">>, <<6, "sp">>, <<6, "term">>, <<13, "sp">>, <<13, "term">>, <<13, "end">>}
PCaps(kind) == IF kind = "tokparam" THEN {-1} ELSE {0, 1, 2, 8}
EndingOf(flags, e) ==
  CASE e = "end" -> EndInput [] e = "eoh" -> EndEOH
    [] e = "term" -> EndTerm(TermOf(flags), IF TermOf(flags) = QM THEN MT_hdrs ELSE MT_comma)
    [] e = "sp" -> EndSp(SP, MT_tok) [] e = "ht" -> EndSp(HT, MT_tok)

\* the blank-and-token ending needs a value (or a bare name) directly before the blank
SpOk(e, gaps, shapes) ==
  e \in {"sp", "ht"} => /\ Len(shapes) > 0 /\ gaps[Len(gaps)] = 0
                        /\ shapes[Len(shapes)][2] # VEmpty /\ TrailWs(shapes[Len(shapes)]) = 0

\* choice = << <<flags, ending>>, pcap, gaps, shapes >>: flat products (TLC enumerates them lazily).
\* NOTE: TLC evaluates zero-arity constant definitions eagerly at start-up: the slices are operators (of the kind)
\* so that only the selected one is ever enumerated.
Fl(x) == x[1][1]   En(x) == x[1][2]   Pc(x) == x[2]   Gs(x) == x[3]   Ss(x) == x[4]
Prod(kind, GS, SS) == Combos(kind) \X PCaps(kind) \X GS \X SS
Tup1(S) == { <<s>> : s \in S }
VK5 == 0..4
G4 == 0..3
G2 == 0..1
S1 == ShapesRed({0}, VK5, 1)   \* 5 shapes
S2 == ShapesRed({0}, VK5, 2)   \* 10 shapes

ChoicesOne(kind)   == Prod(kind, {<<0, 0>>}, Tup1(ShapesFull({1, 2, 3}, 0..5)))
ChoicesTwo(kind)   == LET S == ShapesRed({1, 2, 3}, VK5, NPat) IN Prod(kind, {<<0, 0, 0>>}, S \X S)
ChoicesThree(kind) == LET S == ShapesRed({0}, VK5, NPat) IN Prod(kind, {<<0, 0, 0, 0>>}, S \X S \X S)
ChoicesGaps(kind)  == Prod(kind, G4 \X G4, Tup1(ShapesRed({0}, VK5, 4)))
                 \cup Prod(kind, G4 \X G4 \X G4, S2 \X S2)
                 \cup Prod(kind, G2 \X G4 \X G4 \X G2, S1 \X S1 \X S1)
ChoicesNames(kind) == { x \in Prod(kind, {<<0, 0>>}, Tup1(ShapesRed(1..NUP, {VMissing, VMarks, VQEsc}, 1))) :
                          Ss(x)[1][1] <= NNames(Fl(x)) }
ChoicesNames2(kind) == { x \in Prod(kind, {<<0, 0, 0>>}, LET S == ShapesRed(1..NUP, {VMissing}, 1) IN S \X S) :
                          Ss(x)[1][1] <= NNames(Fl(x)) /\ Ss(x)[2][1] <= NNames(Fl(x)) }
ChoicesZero(kind)  == Prod(kind, Tup1(G4), {<<>>})
ChoicesSepTerm(kind) == Prod(kind, {0} \X (1..3), Tup1(S2)) \cup Prod(kind, {0} \X {0} \X (1..3), S1 \X S1)
ChoicesAllEmpty(kind) == Prod(kind, {<<0, 0>>}, Tup1(ShapesFull({1}, {VEmpty})))

\* an empty item directly before the terminator byte is set apart (slice septerm)
TermAfterSep(x) == En(x) = "term" /\ Gs(x)[Len(Gs(x))] > 0
Lists == CASE Part = "one" -> ChoicesOne(Kind) [] Part = "two" -> ChoicesTwo(Kind) [] Part = "three" -> ChoicesThree(Kind)
           [] Part = "gaps" -> { x \in ChoicesGaps(Kind) : ~TermAfterSep(x) } [] Part = "names" -> ChoicesNames(Kind)
           [] Part = "names2" -> ChoicesNames2(Kind)
           [] Part = "zero" -> { x \in ChoicesZero(Kind) : En(x) # "term" }
           [] Part = "septerm" -> { x \in ChoicesSepTerm(Kind) \cup ChoicesZero(Kind) : En(x) = "term" }
           [] Part = "allempty" -> ChoicesAllEmpty(Kind)
SweepPos == {"name", "val", "vend", "qend", "nstart", "aname", "vstart", "aval", "asep"}
Choices == CASE Part = "sweep" -> {"up", "uh", "pl"} \X SweepPos \X (0..255)
             [] Part = "resolve" -> 1..(NUP + 3)
             [] OTHER -> { x \in Lists : SpOk(En(x), Gs(x), Ss(x)) }

Init == c \in Choices
Next == FALSE /\ UNCHANGED c
Spec == Init /\ [][Next]_c

\* ---- the list of a choice ----
ListOf(x) ==
  LET mode == ModeOf(Fl(x))  n == Len(Ss(x))
      L == GenList(SepOf(Fl(x)), SubSeq([k \in 1..n |-> MkItem(mode, Ss(x)[k], k)], 1, n), Gs(x), EndingOf(Fl(x), En(x)))
  IN IF Part = "allempty" THEN [L EXCEPT !.ps = SubSeq([k \in 1..n |-> [L.ps[k] EXCEPT !.allDet = TRUE]], 1, n)] ELSE L

\* ---- oracle records ----
Cfg(kind, flags, pcap) == [kind |-> kind, start |-> 0, flags |-> flags, hcap |-> -1, ccap |-> -1, pcap |-> pcap]
RecAt(kind, flags, pcap, start, wire, err, offs, errs, obs) ==
  [k |-> kind, cfg |-> [Cfg(kind, flags, pcap) EXCEPT !.start = start], wire |-> wire, cuts |-> <<Len(wire)>>, offs |-> offs,
   err |-> err, errs |-> errs, obs |-> obs, src |-> "decl", prop |-> "C17"]
Rec(kind, flags, pcap, wire, err, offs, errs, obs) == RecAt(kind, flags, pcap, 0, wire, err, offs, errs, obs)
\* the whole list through ParseAllURIParams / ParseAllURIHdrs
ListRec(kind, flags, pcap, L) ==
  Rec(kind, flags, pcap, L.wire, L.err, L.offs, <<>>,
      IF kind = "uriparams" THEN URIParamsObs(L, pcap) ELSE URIHdrsObs(L, pcap))
\* ONE ParseTokenParam call: the first parameter.  (For a list without any parameter the doc comment promises
\* ErrHdrEmpty; the list's own end verdict is accepted as well; the offset is then not determined.)
FirstRec(flags, L) ==
  IF L.n = 0 THEN Rec("tokparam", flags, -1, L.wire, EMPTY, -1, <<L.err>>, NoParamObs)
  ELSE IF L.n = 1 THEN Rec("tokparam", flags, -1, L.wire, L.err, L.offs, <<>>, ParamObs(L.ps[1]))
  ELSE Rec("tokparam", flags, -1, L.wire, MOREVALUES, L.ps[2].Name[1], <<>>, ParamObs(L.ps[1]))
\* the k-th parameter (k > 1): a fresh PTokParam called at the offset "morevalues" came with (V4) = its first name byte
NthRec(flags, L, k) ==
  IF k < L.n THEN RecAt("tokparam", flags, -1, L.ps[k].Name[1], L.wire, MOREVALUES, L.ps[k + 1].Name[1], <<>>, ParamObs(L.ps[k]))
  ELSE RecAt("tokparam", flags, -1, L.ps[k].Name[1], L.wire, L.err, L.offs, <<>>, ParamObs(L.ps[k]))
\* a byte that must be rejected: any error verdict, offset of the offending byte
ErrRec(kind, flags, pcap, wire, p) ==
  [k |-> kind, cfg |-> Cfg(kind, flags, pcap), wire |-> wire, cuts |-> <<Len(wire)>>, offs |-> p,
   err |-> "ERR", errs |-> <<>>, src |-> "decl", prop |-> "C17"]

\* ---- the 256 byte sweep ----
\* role of byte x in a mode, BY THE DOCUMENTED SET: a member is part of the token; the mode's separator,
\* terminator, "=", the quote and white space keep their role; every other byte must be rejected.
SweepFlags(mode) == CASE mode = "up" -> 72 [] mode = "uh" -> 136 [] OTHER -> 8
Role(mode, x) ==
  LET fl == SweepFlags(mode) IN
    IF DocTok(mode, x) THEN "tok" ELSE IF x = SepOf(fl) THEN "sep"
    ELSE IF TermOf(fl) # 0 /\ x = TermOf(fl) THEN "term" ELSE IF x = EQ THEN "eq"
    ELSE IF x = DQUOTE THEN "quote" ELSE IF IsWS(x) THEN "ws" ELSE IF IsCRLFc(x) THEN "nl" ELSE "bad"
It0(name) == Item(<<>>, name, 64, <<>>, VMissing, <<>>, <<>>, <<>>)
ItV(name, wa, vk, val, wc) == Item(<<>>, name, 64, wa, vk, <<>>, val, wc)
\* positions: "name"  ab X cd      "val"  n=ab X cd      "vend"  n=ab X <end>      "qend"  n="ab" X cd
\*            "nstart" X cd        "aname" ab SP X cd    "vstart" n= X cd          "aval"  n=ab SP X cd     "asep" ab ; X cd
\* The text around X is chosen per role so that X is the only doubtful byte (white space inside a name is
\* followed by "=", white space after a value by the separator).
SweepCase(mode, pos, x) ==
  LET sepc == SepOf(SweepFlags(mode))
      r == Role(mode, x)
      Acc(items, gaps, ending) == [ok |-> TRUE, L |-> GenList(sepc, items, gaps, ending)]
      Rej(wire, p) == [ok |-> FALSE, skip |-> FALSE, wire |-> wire, p |-> p]
      Skip == [ok |-> FALSE, skip |-> TRUE]
      nab == ItV(MT_n, <<>>, VToken, MT_ab, <<>>)
      nqab == ItV(MT_n, <<>>, VQuoted, MT_qab, <<>>)
  IN CASE pos = "name" ->
          (CASE r = "tok"  -> Acc(<<It0(MT_ab \o <<x>> \o MT_cd)>>, <<0, 0>>, EndInput)
             [] r = "sep"  -> Acc(<<It0(MT_ab), It0(MT_cd)>>, <<0, 0, 0>>, EndInput)
             [] r = "term" -> Acc(<<It0(MT_ab)>>, <<0, 0>>, EndTerm(x, MT_cd))
             [] r = "eq"   -> Acc(<<ItV(MT_ab, <<>>, VToken, MT_cd, <<>>)>>, <<0, 0>>, EndInput)
             [] r = "ws"   -> Acc(<<ItV(MT_ab, <<x>>, VToken, MT_cd, <<>>)>>, <<0, 0>>, EndInput)
             [] r = "nl"   -> Acc(<<It0(MT_ab)>>, <<0, 0>>, EndLone(x, MT_cd))
             [] OTHER      -> Rej(MT_ab \o <<x>> \o MT_cd, 2))
       [] pos = "val" ->
          (CASE r = "tok"  -> Acc(<<ItV(MT_n, <<>>, VToken, MT_ab \o <<x>> \o MT_cd, <<>>)>>, <<0, 0>>, EndInput)
             [] r = "sep"  -> Acc(<<nab, It0(MT_cd)>>, <<0, 0, 0>>, EndInput)
             [] r = "term" -> Acc(<<nab>>, <<0, 0>>, EndTerm(x, MT_cd))
             [] r = "ws"   -> Acc(<<ItV(MT_n, <<>>, VToken, MT_ab, <<x>>), It0(MT_cd)>>, <<0, 0, 0>>, EndInput)
             [] r = "nl"   -> Acc(<<nab>>, <<0, 0>>, EndLone(x, MT_cd))
             [] OTHER      -> Rej(MT_n \o <<EQ>> \o MT_ab \o <<x>> \o MT_cd, 4))
       [] pos = "vend" ->
          (CASE r = "tok"  -> Acc(<<ItV(MT_n, <<>>, VToken, MT_ab \o <<x>>, <<>>)>>, <<0, 0>>, EndInput)
             [] r = "sep"  -> Acc(<<nab>>, <<0, 1>>, EndInput)
             [] r = "term" -> Acc(<<nab>>, <<0, 0>>, EndTerm(x, <<>>))
             [] r = "ws"   -> Acc(<<ItV(MT_n, <<>>, VToken, MT_ab, <<x>>)>>, <<0, 0>>, EndInput)
             [] r = "nl"   -> Acc(<<nab>>, <<0, 0>>, EndLone(x, <<>>))
             [] OTHER      -> Rej(MT_n \o <<EQ>> \o MT_ab \o <<x>>, 4))
       [] pos = "qend" ->
          \* a token byte glued to a complete quoted string is not a list: rejected at that byte
          (CASE r = "sep"  -> Acc(<<nqab, It0(MT_cd)>>, <<0, 0, 0>>, EndInput)
             [] r = "term" -> Acc(<<nqab>>, <<0, 0>>, EndTerm(x, MT_cd))
             [] r = "ws"   -> Acc(<<ItV(MT_n, <<>>, VQuoted, MT_qab, <<x>>), It0(MT_cd)>>, <<0, 0, 0>>, EndInput)
             [] r = "nl"   -> Acc(<<nqab>>, <<0, 0>>, EndLone(x, MT_cd))
             [] OTHER      -> Rej(MT_n \o <<EQ>> \o MT_qab \o <<x>> \o MT_cd, 6))
       \* X is the first byte of the list.  (X = terminator or line end: a list of no items, see slices zero / septerm)
       [] pos = "nstart" ->
          (CASE r = "tok"  -> Acc(<<It0(<<x>> \o MT_cd)>>, <<0, 0>>, EndInput)
             [] r = "sep"  -> Acc(<<It0(MT_cd)>>, <<1, 0>>, EndInput)
             [] r = "ws"   -> Acc(<<Item(<<x>>, MT_cd, 64, <<>>, VMissing, <<>>, <<>>, <<>>)>>, <<0, 0>>, EndInput)
             [] r \in {"term", "nl"} -> Skip
             [] OTHER      -> Rej(<<x>> \o MT_cd, 0))
       \* name, a blank, X: a token byte there is a second token where "=", separator or terminator must follow
       [] pos = "aname" ->
          (CASE r = "sep"  -> Acc(<<ItV(MT_ab, <<SP>>, VMissing, <<>>, <<>>), It0(MT_cd)>>, <<0, 0, 0>>, EndInput)
             [] r = "term" -> Acc(<<ItV(MT_ab, <<SP>>, VMissing, <<>>, <<>>)>>, <<0, 0>>, EndTerm(x, MT_cd))
             [] r = "eq"   -> Acc(<<ItV(MT_ab, <<SP>>, VToken, MT_cd, <<>>)>>, <<0, 0>>, EndInput)
             [] r = "ws"   -> Acc(<<ItV(MT_ab, <<SP, x>>, VToken, MT_cd, <<>>)>>, <<0, 0>>, EndInput)
             [] r = "nl"   -> Acc(<<ItV(MT_ab, <<SP>>, VMissing, <<>>, <<>>)>>, <<0, 0>>, EndLone(x, MT_cd))
             [] OTHER      -> Rej(MT_ab \o <<SP, x>> \o MT_cd, 3))
       \* X is the first byte after "="  (the quote: X cd X is a quoted value)
       [] pos = "vstart" ->
          (CASE r = "tok"  -> Acc(<<ItV(MT_n, <<>>, VToken, <<x>> \o MT_cd, <<>>)>>, <<0, 0>>, EndInput)
             [] r = "sep"  -> Acc(<<ItV(MT_n, <<>>, VEmpty, <<>>, <<>>), It0(MT_cd)>>, <<0, 0, 0>>, EndInput)
             [] r = "term" -> Acc(<<ItV(MT_n, <<>>, VEmpty, <<>>, <<>>)>>, <<0, 0>>, EndTerm(x, MT_cd))
             [] r = "quote" -> Acc(<<ItV(MT_n, <<>>, VQuoted, <<x>> \o MT_cd \o <<x>>, <<>>)>>, <<0, 0>>, EndInput)
             [] r = "ws"   -> Acc(<<Item(<<>>, MT_n, 64, <<>>, VToken, <<x>>, MT_cd, <<>>)>>, <<0, 0>>, EndInput)
             [] r = "nl"   -> Acc(<<ItV(MT_n, <<>>, VEmpty, <<>>, <<>>)>>, <<0, 0>>, EndLone(x, MT_cd))
             [] OTHER      -> Rej(MT_n \o <<EQ, x>> \o MT_cd, 2))
       \* value, a blank, X
       [] pos = "aval" ->
          (CASE r = "sep"  -> Acc(<<ItV(MT_n, <<>>, VToken, MT_ab, <<SP>>), It0(MT_cd)>>, <<0, 0, 0>>, EndInput)
             [] r = "term" -> Acc(<<ItV(MT_n, <<>>, VToken, MT_ab, <<SP>>)>>, <<0, 0>>, EndTerm(x, MT_cd))
             [] r = "ws"   -> Acc(<<ItV(MT_n, <<>>, VToken, MT_ab, <<SP, x>>), It0(MT_cd)>>, <<0, 0, 0>>, EndInput)
             [] r = "nl"   -> Acc(<<ItV(MT_n, <<>>, VToken, MT_ab, <<SP>>)>>, <<0, 0>>, EndLone(x, MT_cd))
             [] OTHER      -> Rej(MT_n \o <<EQ>> \o MT_ab \o <<SP, x>> \o MT_cd, 5))
       \* X is the first byte after a separator.  (X = terminator: slice septerm)
       [] pos = "asep" ->
          (CASE r = "tok"  -> Acc(<<It0(MT_ab), It0(<<x>> \o MT_cd)>>, <<0, 0, 0>>, EndInput)
             [] r = "sep"  -> Acc(<<It0(MT_ab), It0(MT_cd)>>, <<0, 1, 0>>, EndInput)
             [] r = "ws"   -> Acc(<<It0(MT_ab), Item(<<x>>, MT_cd, 64, <<>>, VMissing, <<>>, <<>>, <<>>)>>, <<0, 0, 0>>, EndInput)
             [] r = "nl"   -> Acc(<<It0(MT_ab)>>, <<0, 1>>, EndLone(x, MT_cd))
             [] r = "term" -> Skip
             [] OTHER      -> Rej(MT_ab \o <<sepc, x>> \o MT_cd, 3))

P(r) == PrintT(ToJson(r))
EmitSweep ==
  LET mode == c[1]  fl == SweepFlags(mode)  sc == SweepCase(mode, c[2], c[3])
      lk == IF mode = "up" THEN "uriparams" ELSE "urihdrs" IN
    IF sc.ok
      THEN /\ GhostSane(sc.L)
           /\ P(FirstRec(fl, sc.L))
           /\ (mode # "pl" => P(ListRec(lk, fl, 8, sc.L)))
      ELSE sc.skip \/
           /\ sc.wire[sc.p + 1] = c[3]
           \* (after a separator the offending byte belongs to the NEXT parameter: one ParseTokenParam call may also
           \*  answer "morevalues" and leave the rejection to the next call)
           /\ P(IF c[2] = "asep" THEN [ErrRec("tokparam", fl, -1, sc.wire, sc.p) EXCEPT !.errs = <<MOREVALUES>>]
                ELSE ErrRec("tokparam", fl, -1, sc.wire, sc.p))
           /\ (mode # "pl" => P(ErrRec(lk, fl, 8, sc.wire, sc.p)))

\* ---- URIParamResolve: the six names in several letter cases, near misses, bytes that are no name bytes
ResName(i) == CASE i <= NUP -> UPName(i) [] i = NUP + 1 -> NT(UP_l_hi, 64) [] i = NUP + 2 -> NT(UP_at_lr, 64)
                [] OTHER -> NT(V_empty, 64)
EmitResolve == LET nm == ResName(c) IN
  P([fn |-> "URIParamResolve", args |-> [s |-> nm.t], res |-> [t |-> nm.T], src |-> "decl", prop |-> "C17"])

EmitList == LET L == ListOf(c) IN
  /\ GhostSane(L)
  /\ P(IF Kind = "tokparam" THEN FirstRec(Fl(c), L) ELSE ListRec(Kind, Fl(c), Pc(c), L))
  /\ (Kind = "tokparam" => \A k \in 2..L.n : P(NthRec(Fl(c), L, k)))

Emit == CASE Part = "sweep" -> EmitSweep [] Part = "resolve" -> EmitResolve [] OTHER -> EmitList

(***************************************************************************)
(* FINDINGS (real code vs intended reading; reproduced with a Go program).  *)
(* A  viol_zero_up / viol_zero_uh: a list without any parameter -- "", ";", *)
(*    ";;", "; ;", also "\r\nX" -- makes ParseAllURIParams / ParseAllURIHdrs *)
(*    report N = 1 (Types = 64 "other", Empty() = false, More() = true with *)
(*    capacity 0) and store one all-empty parameter: ParseTokenParam answers *)
(*    ErrHdrEOH (never the documented ErrHdrEmpty) for "no parameter" and   *)
(*    the wrappers count every ErrHdrEOH.  "a;;b", ";a", "a;" are counted   *)
(*    correctly (N = 2, 1, 1): empty items ARE skipped, only the list with  *)
(*    nothing else in it is miscounted.                                     *)
(* B  viol_septerm_*: the terminator byte is only recognised after a name   *)
(*    or value, not where a parameter may START: "a;?h=v" (flags 64) ->     *)
(*    ErrHdrBadChar at the "?", N = 0 (the parsed "a" is dropped as well);  *)
(*    "?h=v" -> ErrHdrBadChar at 0; with POptTokQmTermF alone (flags 2)     *)
(*    "a;?x" -> morevalues with the offset OF the "?" (the next call then   *)
(*    reads "?x" as a parameter name); "a;,x" (flags 1) -> ErrHdrBadChar.   *)
(*    The same lists ended by end of header / input are accepted.           *)
(* C  viol_allempty_*: All of "name = <nothing>" is not a function of the   *)
(*    parameter text: "a=;" "a =;" "a= ;" give All = "a=" "a =" "a= " (up   *)
(*    to the separator, trailing blank included) but "a =" + end / "?" /    *)
(*    CRLF gives All = "a" (without the "="), "a= " + end gives "a=".       *)
(*    (Intended in that slice: from the name to the "=".)  Name and Val are *)
(*    right in all these cases; the main slices leave All out there (V2).   *)
(***************************************************************************)
=============================================================================
