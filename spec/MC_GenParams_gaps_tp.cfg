SPECIFICATION Spec
CONSTANTS
  OffsMod = 65536
  Part = "gaps"
  Kind = "tokparam"
  NPat = 3
INVARIANTS Emit
CHECK_DEADLOCK FALSE
