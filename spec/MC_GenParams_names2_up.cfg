SPECIFICATION Spec
CONSTANTS
  OffsMod = 65536
  Part = "names2"
  Kind = "uriparams"
  NPat = 1
INVARIANTS Emit
CHECK_DEADLOCK FALSE
