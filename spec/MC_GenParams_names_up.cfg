SPECIFICATION Spec
CONSTANTS
  OffsMod = 65536
  Part = "names"
  Kind = "uriparams"
  NPat = 3
INVARIANTS Emit
CHECK_DEADLOCK FALSE
