SPECIFICATION Spec
CONSTANTS
  OffsMod = 65536
  Part = "one"
  Kind = "uriparams"
  NPat = 3
INVARIANTS Emit
CHECK_DEADLOCK FALSE
