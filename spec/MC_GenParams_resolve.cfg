SPECIFICATION Spec
CONSTANTS
  OffsMod = 65536
  Part = "resolve"
  Kind = "uriparams"
  NPat = 1
INVARIANTS Emit
CHECK_DEADLOCK FALSE
