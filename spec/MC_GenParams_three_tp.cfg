SPECIFICATION Spec
CONSTANTS
  OffsMod = 65536
  Part = "three"
  Kind = "tokparam"
  NPat = 4
INVARIANTS Emit
CHECK_DEADLOCK FALSE
