SPECIFICATION Spec
CONSTANTS
  OffsMod = 65536
  Part = "three"
  Kind = "urihdrs"
  NPat = 3
INVARIANTS Emit
CHECK_DEADLOCK FALSE
