SPECIFICATION Spec
CONSTANTS
  OffsMod = 65536
  Part = "three"
  Kind = "urihdrs"
  NPat = 4
INVARIANTS Emit
CHECK_DEADLOCK FALSE
