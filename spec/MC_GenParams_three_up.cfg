SPECIFICATION Spec
CONSTANTS
  OffsMod = 65536
  Part = "three"
  Kind = "uriparams"
  NPat = 3
INVARIANTS Emit
CHECK_DEADLOCK FALSE
