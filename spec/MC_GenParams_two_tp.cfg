SPECIFICATION Spec
CONSTANTS
  OffsMod = 65536
  Part = "two"
  Kind = "tokparam"
  NPat = 3
INVARIANTS Emit
CHECK_DEADLOCK FALSE
