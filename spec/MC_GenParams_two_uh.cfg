SPECIFICATION Spec
CONSTANTS
  OffsMod = 65536
  Part = "two"
  Kind = "urihdrs"
  NPat = 4
INVARIANTS Emit
CHECK_DEADLOCK FALSE
