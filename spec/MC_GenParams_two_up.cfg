SPECIFICATION Spec
CONSTANTS
  OffsMod = 65536
  Part = "two"
  Kind = "uriparams"
  NPat = 4
INVARIANTS Emit
CHECK_DEADLOCK FALSE
