SPECIFICATION Spec
CONSTANTS
  OffsMod = 65536
  Part = "allempty"
  Kind = "urihdrs"
  NPat = 1
INVARIANTS Emit
CHECK_DEADLOCK FALSE
