SPECIFICATION Spec
CONSTANTS
  OffsMod = 65536
  Part = "septerm"
  Kind = "uriparams"
  NPat = 1
INVARIANTS Emit
CHECK_DEADLOCK FALSE
