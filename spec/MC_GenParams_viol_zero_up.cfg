SPECIFICATION Spec
CONSTANTS
  OffsMod = 65536
  Part = "zero"
  Kind = "uriparams"
  NPat = 1
INVARIANTS Emit
CHECK_DEADLOCK FALSE
