SPECIFICATION Spec
CONSTANTS
  OffsMod = 65536
  Part = "zero"
  Kind = "tokparam"
  NPat = 1
INVARIANTS Emit
CHECK_DEADLOCK FALSE
