----------------------------- MODULE MC_GenSig -----------------------------
(***************************************************************************)
(* C19: the message signature depends only on what it is documented to      *)
(* fingerprint.  Generated requests: method x an arrangement (ordered       *)
(* subset) of the 8 fingerprinted header lines, long / compact (or other    *)
(* letter case) names x filler lines in chosen slots x an optional later    *)
(* repeat of a fingerprinted header x alternative values that keep the      *)
(* fingerprinted strings x header capacity; plus replies.                   *)
(* The state is the CHOICE (a small record); text and ghost (header types + *)
(* name lengths in message order) are built together from it (Gen!GenHdrLine)*)
(* inside the invariants.  Per message:                                     *)
(*   a `decl` record  = what MsgSig!SigHdrModel demands (exact when all     *)
(*                      headers fit; alt / same / full otherwise),           *)
(*   with Auto = TRUE a second record (layer = "auto"): the exact answer of *)
(*                      the transcription MsgSig!GetMsgSig on the abstract   *)
(*                      parsed message (drift of the transcription).         *)
(* Model invariants: the transcription satisfies the demand (AutoSatisfies- *)
(* Decl), the demand is the same for every variant of a base message        *)
(* (DeclMeta), the rendering of every transcribed result is well formed.    *)
(***************************************************************************)
EXTENDS Gen, MsgSig, TLC, Json

CONSTANTS Part,     \* "perm" | "perm8" | "fillers" | "vals" | "repeat" | "caps" | "caps8" | "reply" | "chunk" | "probe" | "viabr" | "viaq" | "names"
          K,        \* largest number of fingerprinted header lines of a message (slices with arrangements)
          Auto      \* TRUE: also emit the transcription's records

\* ------------------------------------------------------------------ pools
Mth    == <<M_invite, M_register, M_options, M_foo>>
RplFL  == <<FL_200, FL_180, FL_404>>
NReq   == Len(Mth)
IsReq(m)   == m <= NReq
FLine(m)   == IF IsReq(m) THEN Mth[m] \o T_ruri ELSE RplFL[m - NReq]
\* the method number the documented table gives for the method name (MOther for FOO)
MethodOf(m) == GetMethodNoDecl(Mth[m])

\* fingerprinted header lines, i = position in MsgSig!SigHdrs; form 1 = compact name (other letter case where the
\* header has no compact form: the signature must then stay "long"); alt 1 = other white space and a value that
\* differs everywhere but in the fingerprinted strings (Call-ID, From tag, Via branch)
SigName(i, form) ==
  CASE i = 1 -> IF form = 0 THEN N_CallID  ELSE N_i
    [] i = 2 -> IF form = 0 THEN N_Contact ELSE N_m
    [] i = 3 -> IF form = 0 THEN N_CSeq    ELSE N_cseq
    [] i = 4 -> IF form = 0 THEN N_From    ELSE N_f
    [] i = 5 -> IF form = 0 THEN N_MaxFwd  ELSE N_maxfwd
    [] i = 6 -> IF form = 0 THEN N_To      ELSE N_t
    [] i = 7 -> IF form = 0 THEN N_Via     ELSE N_v
    [] i = 8 -> IF form = 0 THEN N_UA      ELSE N_ua
SigVal(i, alt) ==
  CASE i = 1 -> V_callid1
    [] i = 2 -> IF alt = 0 THEN V_contact1 ELSE V_contact4
    [] i = 3 -> IF alt = 0 THEN V_cseq1    ELSE V_cseq5
    [] i = 4 -> IF alt = 0 THEN V_from1    ELSE V_from1b
    [] i = 5 -> IF alt = 0 THEN V_maxfwd   ELSE V_maxfwd2
    [] i = 6 -> IF alt = 0 THEN V_to1      ELSE V_to2
    [] i = 7 -> IF alt = 0 THEN V_via4     ELSE V_via4b
    [] i = 8 -> IF alt = 0 THEN V_ua       ELSE V_ua2
\* slice "viabr": Via values whose FIRST via has no branch parameter (a second via of the same line may have one)
ViaNoBr(v) == CASE v = 1 -> V_via3 [] v = 2 -> V_via5 [] v = 3 -> V_via7 [] v = 4 -> V_via8
                \* a branch parameter without a value / with an empty value behind a parameter that has one
                [] v = 12 -> V_via9 [] v = 13 -> V_via10 [] v = 14 -> V_via11
\* slice "viaq": Via values whose first via HAS the base branch, next to other parameters in every legal form (quoted
\* strings with ';' ',' '\"' inside, empty quoted string, white space around ';' and '=', BRANCH in capitals, parameter
\* names that contain "branch", an IPv6 sent-by, a second via with another branch): same fingerprinted content as the base
                [] v = 5 -> V_via4q1 [] v = 6 -> V_via4q2 [] v = 7 -> V_via4q3 [] v = 8 -> V_via4q4 [] v = 9 -> V_via4q5
                [] v = 10 -> V_via4q6 [] v = 11 -> V_via4b
NoBr(x) == x.viav \in (1..4) \cup (12..14)
SigLine(i, form, alt) ==
  IF alt >= 2 THEN GenHdrLine(SigName(i, form), WS0, WS1, ViaNoBr(alt - 1), WS0, CRLF)
  ELSE IF alt = 0 THEN GenHdrLine(SigName(i, form), WS0, WS1, SigVal(i, 0), WS0, CRLF)
  ELSE GenHdrLine(SigName(i, form), WS1, WS2, SigVal(i, 1), WS1, CRLF)
\* a LATER repeat: any value (other Call-ID, other tag, other branch) -- it must not count
RepVal(i) ==
  CASE i = 1 -> V_callid2 [] i = 2 -> V_contact2 [] i = 3 -> V_cseq4 [] i = 4 -> V_from3
    [] i = 5 -> V_maxfwd2 [] i = 6 -> V_to2      [] i = 7 -> V_via6  [] i = 8 -> V_ua2
RepLine(i, form) == GenHdrLine(SigName(i, form), WS0, WS1, RepVal(i), WS0, CRLF)
\* fillers: headers that are not fingerprinted (1 / 2: same header, value changed)
NFill == 9
Filler(f) ==
  CASE f = 1 -> GenHdrLine(N_X, WS0, WS1, V_x1, WS0, CRLF)
    [] f = 2 -> GenHdrLine(N_X, WS0, WS1, V_x2, WS0, CRLF)
    [] f = 3 -> GenHdrLine(N_Subject, WS0, WS1, V_subj, WS0, CRLF)
    [] f = 4 -> GenHdrLine(N_Route, WS0, WS1, V_route, WS0, CRLF)
    [] f = 5 -> GenHdrLine(N_s, WS0, WS1, V_x3, WS0, CRLF)
    [] f = 6 -> GenHdrLine(N_RR, WS0, WS1, V_rr, WS0, CRLF)
    [] f = 7 -> GenHdrLine(N_Expires, WS0, WS1, V_expires1, WS0, CRLF)
    [] f = 8 -> GenHdrLine(N_PAI, WS0, WS1, V_pai1, WS0, CRLF)
    [] f = 9 -> GenHdrLine(N_l, WS0, WS1, V_expires2, WS0, CRLF)          \* "l: 0"
    \* slice "names": the header names of RFC 3261 and of common extensions (Texts!RfcNames); each has the type the
    \* documented table gives it (GenHdrLine: Lookup!GetHdrTypeDecl), i.e. nearly all are "other" headers
    [] f >= 10 -> GenHdrLine(RfcNames[f - 9], WS0, WS1, V_x1, WS0, CRLF)

\* ------------------------------------------------------------------ choice -> message
\* x = [m, ord, forms, alts, fil, rep, hcap, cut, lvl, viav]   (lvl 1: a seed, see below; cut: 0 or the chunk boundary)
\*   ord   tuple of distinct indices 1..8: the fingerprinted lines in message order
\*   forms / alts  bit k-1 = form / alt of the k-th line of ord
\*   fil   tuple of <<slot, filler>>: slot s = after the s-th line of ord (0 = before the first)
\*   viav  0, or 1..4: the Via line carries ViaNoBr(viav) (first via without branch)
\*   rep   <<r, form, slot>>: repeat the type of ord[r] in slot >= r (after the fillers of that slot); r = 0: none
NoRep == <<0, 0, 0>>
C(m, ord, forms, alts, fil, rep, hcap) ==
  [m |-> m, ord |-> ord, forms |-> forms, alts |-> alts, fil |-> fil, rep |-> rep, hcap |-> hcap, cut |-> 0, lvl |-> 2, viav |-> 0]
Bit(mask, k) == (mask \div Pow2(k - 1)) % 2

RECURSIVE FilAt(_, _, _)
FilAt(fil, s, j) == IF j > Len(fil) THEN <<>>
                    ELSE (IF fil[j][1] = s THEN <<Filler(fil[j][2])>> ELSE <<>>) \o FilAt(fil, s, j + 1)
RepAt(x, s) == IF x.rep[1] # 0 /\ x.rep[3] = s THEN <<RepLine(x.ord[x.rep[1]], x.rep[2])>> ELSE <<>>
RECURSIVE Build(_, _)
Build(x, s) == IF s > Len(x.ord) THEN <<>>
               ELSE (IF s >= 1 THEN <<SigLine(x.ord[s], Bit(x.forms, s), IF x.viav # 0 /\ x.ord[s] = 7 THEN 1 + x.viav ELSE Bit(x.alts, s))>> ELSE <<>>)
                    \o FilAt(x.fil, s, 1) \o RepAt(x, s) \o Build(x, s + 1)
Lines(x) == Build(x, 0)
Text(x, lines)  == FLine(x.m) \o CRLF \o CatTxt(lines, 1) \o CRLF
Ghost(lines)    == SubSeq([k \in 1..Len(lines) |-> [type |-> lines[k].type, nlen |-> lines[k].name[2]]], 1, Len(lines))
\* the base message of x: same method, order and forms; no fillers, no repeat, base values, everything fits
Base(x)  == C(x.m, x.ord, x.forms, 0, <<>>, NoRep, 64)      \* (viav: the Via VALUE differs, the demand on HdrSig does not)
GrpId(x) == IF ~NoBr(x) THEN ToString(<<x.m, x.ord, x.forms>>) ELSE ToString(<<x.m, x.ord, x.forms, "nobranch">>)

\* ------------------------------------------------------------------ choice sets
\* Two levels, so that TLC's workers share the work (initial states are processed by ONE thread): the initial
\* states are SEEDS (lvl 1: method + order (prefix), nothing is emitted for them), each seed expands in one Next
\* step into its messages (lvl 2).  Everything below is an operator with a parameter or depends on Part: TLC
\* evaluates zero-arity constant definitions eagerly at start-up.
RECURSIVE Arr(_, _)
Arr(S, k) == IF k = 0 THEN {<<>>} ELSE UNION { { <<e>> \o p : p \in Arr(S \ {e}, k - 1) } : e \in S }
Ords(S, lo, hi) == UNION { Arr(S, k) : k \in lo..hi }
All(k) == Pow2(k) - 1
Elems(o) == { o[j] : j \in 1..Len(o) }
Seed(m, o, f, r) == [C(m, o, f, 0, <<>>, r, 64) EXCEPT !.lvl = 1]
\* filler sequences for an order of length k: up to two / three fillers, slots non-decreasing
Fil0    == {<<>>}
Fil1(k, F) == { <<<<s, f>>>> : s \in 0..k, f \in F }
Fil2(k, F) == { <<<<s1, f1>>, <<s2, f2>>>> : s1 \in 0..k, s2 \in 0..k, f1 \in F, f2 \in F }
Fil2S(k, F) == { y \in Fil2(k, F) : y[1][1] <= y[2][1] }
Fil3S(SL, f) == { <<<<s1, f>>, <<s2, f>>, <<s3, f>>>> : s1 \in SL, s2 \in SL, s3 \in SL }
Fil3SS(SL, f) == { y \in Fil3S(SL, f) : y[1][1] <= y[2][1] /\ y[2][1] <= y[3][1] }
Reps(k, forms)  == { <<r, fo, s>> : r \in 1..k, fo \in forms, s \in 1..k }
RepsS(k, forms) == { y \in Reps(k, forms) : y[3] >= y[1] }

SFew  == {1, 2, 4, 7, 8}
SCaps == {1, 2, 4, 7}
HCaps == {-1, 0, 1, 2, 3, 64}
Ord8s == { <<1, 2, 3, 4, 5, 6, 7, 8>>, <<8, 7, 6, 5, 4, 3, 2, 1>>, <<7, 5, 6, 4, 1, 3, 2, 8>> }
Rpls  == (NReq + 1)..(NReq + Len(RplFL))
\* "chunk": a few messages, every cut position (top-level key `cuts`; same grp: the signature must not depend on it)
ChunkMsgs == { C(1, <<7, 6, 4, 1, 3, 2, 5, 8>>, 0, 0, <<<<2, 3>>>>, <<1, 1, 8>>, 64),
               C(2, <<7, 4, 6, 1, 3>>, 21, 0, <<<<0, 1>>, <<5, 5>>>>, NoRep, 64),
               C(3, <<4, 1, 7>>, 7, 7, <<<<1, 5>>>>, <<3, 0, 3>>, 64),
               C(4, <<1>>, 1, 0, <<>>, NoRep, -1) }
ChunkBlk == 32
\* "probe": the corner cases named in the plan, every capacity 0..4, -1, 64
\*  a all fingerprinted headers inside the stored prefix, fillers only beyond it (early return vs trunc)
\*  b a filler BEFORE / BETWEEN the fingerprinted headers, one more filler beyond the capacity
\*  c a fingerprinted header only beyond the capacity;  d Contact in non-INVITE (first, last, alone + filler)
ProbeFils == { <<<<2, 1>>>>, <<<<1, 1>>>>, <<<<0, 1>>>>, <<<<1, 1>>, <<2, 3>>>>, <<<<0, 1>>, <<2, 3>>>>,
               <<<<2, 1>>, <<2, 3>>>>, <<<<0, 1>>, <<0, 3>>>> }

Seeds(part, kk) ==
  CASE part = "perm"    -> { Seed(m, o, 0, NoRep) : m \in 1..NReq, o \in Ords(1..8, 1, kk) }
    [] part = "perm8"   -> { Seed(kk, o, 0, NoRep) : o \in Arr(1..8, 3) }        \* K = the method: 1 INVITE, 2 REGISTER
    [] part = "fillers" -> { Seed(m, o, 0, NoRep) : m \in {1, 2}, o \in Ords(SFew, 1, kk) }
    [] part = "vals"    -> { Seed(m, o, 0, NoRep) : m \in 1..NReq, o \in Ords(1..8, 1, kk) }
    [] part = "repeat"  -> { Seed(m, o, 0, NoRep) : m \in {1, 2, 3}, o \in Ords(1..8, 1, kk) }
    [] part = "caps"    -> { Seed(m, o, 0, NoRep) : m \in {1, 2}, o \in Ords(SCaps, 1, kk) }
    [] part = "caps8"   -> { Seed(m, o, f, r) : m \in {1, 2}, o \in Ord8s, f \in {0, 82}, r \in {NoRep, <<1, 1, 8>>, <<7, 0, 8>>} }
    [] part = "reply"   -> { Seed(m, o, 0, NoRep) : m \in Rpls, o \in Ords(1..8, 1, 2) \cup Ord8s }
    [] part = "chunk"   -> UNION { { [y EXCEPT !.lvl = 1, !.cut = b] : b \in 0..((Len(Text(y, Lines(y))) - 2) \div ChunkBlk) } : y \in ChunkMsgs }
    [] part = "probe"   -> { Seed(m, o, 0, NoRep) : m \in {1, 2}, o \in {<<1, 4>>, <<1, 2>>, <<2, 1>>, <<2>>, <<7, 1>>, <<1, 7>>} }
    [] part = "viabr"   -> { Seed(m, o, 0, NoRep) : m \in {1, 2}, o \in {<<1, 4, 7>>, <<7, 1>>, <<7>>} }
    [] part = "viaq"    -> { Seed(m, o, 0, NoRep) : m \in {1, 2}, o \in {<<1, 4, 7>>, <<7, 1>>, <<7>>} }
    [] part = "names"   -> { Seed(m, o, 0, NoRep) : m \in {1, 2}, o \in {<<7, 4, 1, 8>>, <<1, 8>>, <<4, 7>>, <<8, 3, 2>>} }

\* the messages of a seed s
Expand(part, s) ==
  LET m == s.m  o == s.ord  k == Len(s.ord) IN
  CASE part = "perm"    -> \* every arrangement of 1..K of the 8 lines, every long/compact pattern, the four methods
                           \* (k = 4: INVITE and REGISTER only)
                           { C(m, o, f, 0, <<>>, NoRep, 64) : f \in { g \in 0..All(k) : k < 4 \/ m <= 2 } }
    [] part = "perm8"   -> \* every permutation of all 8 lines, alternating forms, INVITE and REGISTER
                           { C(m, o \o p, IF m = 1 THEN 85 ELSE 170, 0, <<>>, NoRep, 64) : p \in Arr((1..8) \ Elems(o), 5) }
    [] part = "fillers" -> \* fewer orders x 0..2 fillers in every slot (two fillers: X-Foo / X-Foo changed / Subject / Route)
                           { C(m, o, f, 0, fl, NoRep, 64) : f \in {0, All(k)}, fl \in Fil0 \cup Fil1(k, 1..NFill) \cup Fil2S(k, 1..4) }
    [] part = "vals"    -> \* values changed outside the fingerprinted strings, per line
                           { C(m, o, f, a, <<>>, NoRep, 64) : f \in {0, All(k)}, a \in 0..All(k) }
    [] part = "repeat"  -> \* a later repeat (long or compact, other value) of one of the lines, in every later slot
                           { C(m, o, f, 0, <<>>, r, 64) : f \in {0, All(k)}, r \in {NoRep} \cup RepsS(k, {0, 1}) }
    [] part = "caps"    -> \* small messages x every capacity
                           { C(m, o, 0, 0, fl, r, h) : h \in HCaps, fl \in Fil0 \cup Fil1(k, {1, 3}) \cup Fil2S(k, {1, 3}),
                                                       r \in {NoRep} \cup { <<j, 1, k>> : j \in 1..k } }
    [] part = "caps8"   -> \* all 8 lines (8 candidate entries; 7 for non-INVITE) + up to 3 fillers + a repeat: more lines than
                           \* the built-in 10 entries, capacities around the number of lines
                           { C(m, o, s.forms, 0, fl, s.rep, h) : h \in {-1, 3, 8, 9, 11, 64},
                                                                 fl \in Fil0 \cup Fil1(8, {1}) \cup Fil3SS({0, 4, 8}, 1) }
    [] part = "reply"   -> \* replies carry no signature whatever they contain
                           { C(m, o, f, 0, fl, NoRep, h) : f \in {0, All(k)}, fl \in Fil0 \cup Fil1(k, {1}), h \in {-1, 0, 1, 64} }
    [] part = "chunk"   -> LET y == [s EXCEPT !.lvl = 2, !.cut = 0]  n == Len(Text(y, Lines(y))) IN
                           { [y EXCEPT !.cut = ct] : ct \in { q \in (s.cut * ChunkBlk + 1)..((s.cut + 1) * ChunkBlk) : q <= n - 1 } }
    [] part = "viabr"   -> \* KNOWN FINDING (see the end of this file): the first via has no branch in all of these
                           { [C(m, o, f, 0, <<>>, r, 64) EXCEPT !.viav = v] : f \in {0, All(k)}, v \in (1..4) \cup (12..14),
                                                                             \* a later Via line (with a branch) in EVERY later slot, also
                                                                             \* before the remaining fingerprinted headers have been seen
                                                                             r \in {NoRep} \cup { <<CHOOSE j \in 1..k : o[j] = 7, 0, sl>> :
                                                                                                   sl \in (CHOOSE j \in 1..k : o[j] = 7)..k } }
    [] part = "viaq"    -> \* the base (viav 0) and its variants: one group, one full signature
                           { [C(m, o, f, 0, <<>>, r, 64) EXCEPT !.viav = v] : f \in {0, All(k)}, v \in {0} \cup 5..11,
                                                                             r \in {NoRep, <<CHOOSE j \in 1..k : o[j] = 7, 0, k>>} }
    [] part = "names"   -> \* one line with each of the names in every slot (and the message without it)
                           { C(m, o, 0, 0, fl, NoRep, 64) : fl \in Fil0 \cup Fil1(k, 10..(9 + Len(RfcNames))) }
    [] part = "probe"   -> { C(m, o, 0, 0, fl, NoRep, h) : fl \in { q \in ProbeFils : \A j \in 1..Len(q) : q[j][1] <= k },
                                                           h \in {-1, 0, 1, 2, 3, 4, 64} }

VARIABLE c
Init == c \in Seeds(Part, K)
Next == c.lvl = 1 /\ c' \in Expand(Part, c)
Spec == Init /\ [][Next]_c
IsMsg == c.lvl = 2


\* ------------------------------------------------------------------ demand, transcription
Demand(x, lines) == SigHdrModel(IF IsReq(x.m) THEN MethodOf(x.m) ELSE MUndef, Ghost(lines), x.hcap)
AutoRes(x, lines) == GetMsgSig(ParsedOf(IsReq(x.m), IF IsReq(x.m) THEN MethodOf(x.m) ELSE MUndef, Ghost(lines), x.hcap))

\* model: the transcribed algorithm satisfies what the property demands, for every generated message
AutoSatisfiesDecl == IsMsg => LET lines == Lines(c)  r == MS_Obs(AutoRes(c, lines)) IN
                       IF IsReq(c.m) THEN Satisfies(Demand(c, lines), r) ELSE ReplyDemand(r)
\* generator / demand sanity: the demand for a variant is the demand for its base message
DeclMeta == IsMsg /\ IsReq(c.m) => Demand(c, Lines(c)).HdrSig = Demand(Base(c), Lines(Base(c))).HdrSig
\* the rendering of whatever the transcription returns is well formed, for any values of the uninterpreted parts
StrSamples == { <<0, 0, 0, 0>>, <<65535, 255, 65535, 65535>>, <<4660, 171, 52719, 9>> }
StringOK == IsMsg => LET r == AutoRes(c, Lines(c)) IN
              /\ \A s \in StrSamples : StringWellFormed(MS_String(r.sig, s[1], s[2], s[3], s[4]))
              /\ (~IsReq(c.m) => MS_String(r.sig, 0, 0, 0, 0) = <<>>)

\* ------------------------------------------------------------------ records
Args(text, hcap) == [s |-> text, hcap |-> hcap, ccap |-> -1, flags |-> 0]
DeclRec(x, lines) ==
  LET text == Text(x, lines)
      d    == Demand(x, lines)
      cuts == IF x.cut = 0 THEN <<Len(text)>> ELSE <<x.cut, Len(text)>>
  IN IF ~IsReq(x.m) THEN
          [fn |-> "GetMsgSig", args |-> Args(text, x.hcap), res |-> [perr |-> OK, err |-> EMPTY, HdrSigLen |-> 0],
           src |-> "decl", prop |-> "C19"]
     ELSE IF d.fits THEN
          [fn |-> "GetMsgSig", args |-> Args(text, x.hcap),
           res |-> IF ~NoBr(x) THEN [perr |-> OK, Method |-> d.Method, HdrSig |-> d.HdrSig, HdrSigLen |-> d.HdrSigLen, err |-> OK]
                   \* no branch in the first via: no characters to classify
                   ELSE [perr |-> OK, Method |-> d.Method, HdrSig |-> d.HdrSig, HdrSigLen |-> d.HdrSigLen, err |-> OK, ViaBSig |-> 0],
           src |-> "decl", prop |-> "C19",
           grp |-> GrpId(x), strhdr |-> StrHdrPart(d.Method, d.HdrSig), cuts |-> cuts]
     ELSE [fn |-> "GetMsgSig", args |-> Args(text, x.hcap), res |-> [perr |-> OK],
           alt  |-> [err |-> TRUNC],
           same |-> [err |-> OK, Method |-> d.Method, HdrSig |-> d.HdrSig, HdrSigLen |-> d.HdrSigLen],
           full |-> Args(text, 64),
           src |-> "decl", prop |-> "C19"]
AutoRec(x, lines) ==
  LET r == MS_Obs(AutoRes(x, lines)) IN
  [fn |-> "GetMsgSig", args |-> Args(Text(x, lines), x.hcap),
   res |-> [perr |-> OK, err |-> r.err, Method |-> r.Method, HdrSig |-> r.HdrSig, HdrSigLen |-> r.HdrSigLen],
   src |-> "decl", prop |-> "C19", layer |-> "auto",
   strhdr |-> IF r.Method = MUndef /\ r.HdrSigLen = 0 THEN "" ELSE StrHdrPart(r.Method, r.HdrSig)]

Emit == IsMsg => LET lines == Lines(c) IN
          /\ PrintT(ToJson(DeclRec(c, lines)))
          /\ (Auto => PrintT(ToJson(AutoRec(c, lines))))
\* FINDING (slice "viabr", MC_GenSig_viabr.cfg, expected decl_mismatch = 24 of 96): GetViaBrSig looks for the first
\* ';' of the whole Via header VALUE.  When the first via has no parameter at all and a second via of the same
\* header line has a branch ("Via: SIP/2.0/UDP h, SIP/2.0/UDP g;branch=z9hG4bK-a.b_c") the SECOND via's branch
\* is fingerprinted (ViaBSig 0x0850), while the same two vias in two header lines, or "h;rport, g;branch=..",
\* give ViaBSig 0: the signature depends on something other than the first-Via branch.
=============================================================================
