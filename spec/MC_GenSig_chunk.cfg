SPECIFICATION Spec
CONSTANTS
  OffsMod = 65536
  Part = "chunk"
  K = 8
  Auto = TRUE
INVARIANTS Emit AutoSatisfiesDecl DeclMeta StringOK
CHECK_DEADLOCK FALSE
