SPECIFICATION Spec
CONSTANTS
  OffsMod = 65536
  Part = "perm"
  K = 4
  Auto = TRUE
INVARIANTS Emit AutoSatisfiesDecl DeclMeta StringOK
CHECK_DEADLOCK FALSE
