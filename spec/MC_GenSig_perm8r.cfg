SPECIFICATION Spec
CONSTANTS
  OffsMod = 65536
  Part = "perm8"
  K = 2
  Auto = TRUE
INVARIANTS Emit AutoSatisfiesDecl DeclMeta StringOK
CHECK_DEADLOCK FALSE
