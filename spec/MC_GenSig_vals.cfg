SPECIFICATION Spec
CONSTANTS
  OffsMod = 65536
  Part = "vals"
  K = 3
  Auto = TRUE
INVARIANTS Emit AutoSatisfiesDecl DeclMeta StringOK
CHECK_DEADLOCK FALSE
