SPECIFICATION Spec
CONSTANTS
  OffsMod = 65536
  Part = "viaq"
  K = 3
  Auto = FALSE
INVARIANTS Emit AutoSatisfiesDecl DeclMeta StringOK
CHECK_DEADLOCK FALSE
