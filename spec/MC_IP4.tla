------------------------------- MODULE MC_IP4 -------------------------------
(* All texts over a small byte set up to MaxLen for IP4Prefix / ContainsIP4: one `fn` oracle      *)
(* record per text and function (replayed on the real code by bin/drift), and the declarative     *)
(* C20 predicates evaluated on the model results.                                                 *)
EXTENDS IPAddr, TLC, Json

CONSTANTS Alphabet,     \* set of bytes
          MaxLen
VARIABLE txt

Init == txt = <<>>
Next == Len(txt) < MaxLen /\ \E b \in Alphabet : txt' = Append(txt, b)
Spec == Init /\ [][Next]_txt

\* '1' '2' '5' '6' '.' 'x'   and   '2' '.' 'x'
Bytes6 == {49, 50, 53, 54, DOT, 120}
Bytes3 == {50, DOT, 120}
\* '0' '2' '9' '.'  (leading zeros, 4-digit groups) -- extra
Bytes4 == {48, 50, 57, DOT}

EmitIP4Prefix   == PrintT(ToJson([fn |-> "IP4Prefix", args |-> [s |-> txt, dst |-> DstLen],
                                  res |-> IP4Prefix_Res(txt)]))
EmitContainsIP4 == PrintT(ToJson([fn |-> "ContainsIP4", args |-> [s |-> txt, dst |-> DstLen],
                                  res |-> ContainsIP4_Res(txt)]))

ContainsDeclInv == ContainsDecl(txt, IP4_Contains(txt))
PrefixDeclInv   == PrefixDecl(txt, IP4_Prefix(txt))
\* beyond the statement (doc comment of IP4Prefix): more-bytes vs bad for rejected texts
PrefixDeclRejectedInv == PrefixDeclRejected(txt, IP4_Prefix(txt))
=============================================================================
