------------------------------- MODULE MC_IP4 -------------------------------
(* All texts over a small byte set up to MaxLen for IP4Prefix / ContainsIP4: one `fn` oracle      *)
(* record per text and function (replayed on the real code by bin/drift), and the declarative     *)
(* C20 predicates evaluated on the model results.                                                 *)
EXTENDS IPAddr, TLC, Json

CONSTANTS Alphabet,     \* set of bytes
          MaxLen
VARIABLE txt

Init == txt = <<>>
Next == Len(txt) < MaxLen /\ \E b \in Alphabet : txt' = Append(txt, b)
Spec == Init /\ [][Next]_txt

\* '1' '2' '5' '6' '.' 'x'   and   '2' '.' 'x'
Bytes6 == {49, 50, 53, 54, DOT, 120}
Bytes3 == {50, DOT, 120}
\* '2' '5' '6' '.': the value limit 255 / 256 in complete addresses (shortest: "255.2.2.2", 9 bytes)
Bytes4 == {50, 53, 54, DOT}
\* '0' '2' '.': leading zeros and 4-digit groups ("0002.2.2.2", 10 bytes)
BytesZ == {48, 50, DOT}

EmitIP4Prefix   == PrintT(ToJson([fn |-> "IP4Prefix", args |-> [s |-> txt, dst |-> DstLen],
                                  res |-> IP4Prefix_Res(txt)]))
EmitContainsIP4 == PrintT(ToJson([fn |-> "ContainsIP4", args |-> [s |-> txt, dst |-> DstLen],
                                  res |-> ContainsIP4_Res(txt)]))

\* ---- IPv6 (growth): drift only
\* '1' 'f' ':' '[' ']' 'x'   and   '1' ':'  (reaches complete 8 group addresses at 15 bytes)
Bytes6v6 == {49, 102, COLON, LBRACK, RBRACK, 120}
Bytes2v6 == {49, COLON}
Bytes4v6 == {49, COLON, LBRACK, RBRACK}
EmitIP6Prefix   == PrintT(ToJson([fn |-> "IP6Prefix", args |-> [s |-> txt, dst |-> Dst6Len],
                                  res |-> IP6Prefix_Res(txt)]))
EmitContainsIP6 == PrintT(ToJson([fn |-> "ContainsIP6", args |-> [s |-> txt, dst |-> Dst6Len],
                                  res |-> ContainsIP6_Res(txt)]))

\* IPv6 soundness (beyond the listed properties; report-only configurations print the texts on which it is false)
Prefix6SoundInv   == Prefix6Sound(txt, IP6_Prefix(txt))
Contains6SoundInv == Contains6Sound(txt, IP6_Contains(txt))
Rep6 == /\ (Prefix6SoundInv \/ PrintT(<<"VIOL6", "prefix", txt, IP6_Prefix(txt).n>>))
        /\ (Contains6SoundInv \/ PrintT(<<"VIOL6", "contains", txt>>))
ContainsDeclInv == ContainsDecl(txt, IP4_Contains(txt))
PrefixDeclInv   == PrefixDecl(txt, IP4_Prefix(txt))
\* beyond the statement (doc comment of IP4Prefix): more-bytes vs bad for rejected texts
PrefixDeclRejectedInv == PrefixDeclRejected(txt, IP4_Prefix(txt))
=============================================================================
