SPECIFICATION SpecGen
CONSTANTS
  OffsMod = 65536
  Alphabet <- Bytes3
  MaxLen = 1
INVARIANTS EmitIP4Prefix EmitContainsIP4 ContainsDeclInv PrefixDeclInv PrefixDeclRejectedInv
CHECK_DEADLOCK FALSE
