------------------------------ MODULE MC_IP4Gen ------------------------------
(***************************************************************************)
(* C20, structured texts: junk ++ four or five dot-separated digit groups   *)
(* (valid, zero-padded, out of range, 4 digits) ++ junk -- texts with        *)
(* embedded valid and near-valid addresses that the byte-wise exhaustive     *)
(* enumeration (MC_IP4, <= 11 bytes) does not reach.  Same records, same     *)
(* Decl invariants as MC_IP4; only the set of texts differs.                 *)
(***************************************************************************)
EXTENDS MC_IP4

Grp == << <<49>>, <<50, 53>>, <<53, 54>>, <<50, 53, 53>>, <<50, 53, 54>>, <<48>>, <<48, 48, 48, 50>> >>   \* 1 25 56 255 256 0 0002
Pre == << <<>>, <<120>>, <<49, DOT>>, <<57>> >>                                                    \* "" x 1. 9
Post == << <<>>, <<120>>, <<DOT>>, <<DOT, 49>>, <<53>> >>                                          \* "" x . .1 5
Join4(a, b, c, d) == Grp[a] \o <<DOT>> \o Grp[b] \o <<DOT>> \o Grp[c] \o <<DOT>> \o Grp[d]
G5 == {1, 3, 4, 5}
\* two levels so that TLC's workers share the work: seeds = (prefix, first group), expanded in one step
Seeds == { <<p, a>> : p \in 1..Len(Pre), a \in 1..Len(Grp) }
SeedTxt(sd) == Pre[sd[1]] \o Grp[sd[2]] \o <<DOT>>
Expand(sd) ==
  { Pre[sd[1]] \o Join4(sd[2], x[1], x[2], x[3]) \o Post[q] : x \in (1..Len(Grp)) \X (1..Len(Grp)) \X (1..Len(Grp)), q \in 1..Len(Post) }
  \cup (IF sd[2] \in G5 /\ sd[1] <= 2
        THEN { Pre[sd[1]] \o Join4(sd[2], x[1], x[2], x[3]) \o <<DOT>> \o Grp[x[4]] \o Post[q] : x \in G5 \X G5 \X G5 \X G5, q \in {1, 2} }
        ELSE {})
InitGen == txt \in { SeedTxt(sd) : sd \in Seeds }
NextGen == \E sd \in Seeds : txt = SeedTxt(sd) /\ txt' \in Expand(sd)
SpecGen == InitGen /\ [][NextGen]_txt
=============================================================================
