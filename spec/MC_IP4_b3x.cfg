SPECIFICATION Spec
CONSTANTS
  OffsMod = 65536
  Alphabet <- Bytes3
  MaxLen = 11
INVARIANTS EmitIP4Prefix EmitContainsIP4 ContainsDeclInv PrefixDeclInv PrefixDeclRejectedInv
CHECK_DEADLOCK FALSE
