SPECIFICATION Spec
CONSTANTS
  OffsMod = 65536
  Alphabet <- Bytes4
  MaxLen = 9
INVARIANTS EmitIP4Prefix EmitContainsIP4 ContainsDeclInv PrefixDeclInv PrefixDeclRejectedInv
CHECK_DEADLOCK FALSE
