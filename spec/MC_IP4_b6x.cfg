SPECIFICATION Spec
CONSTANTS
  OffsMod = 65536
  Alphabet <- Bytes6
  MaxLen = 8
INVARIANTS EmitIP4Prefix EmitContainsIP4 ContainsDeclInv PrefixDeclInv PrefixDeclRejectedInv
CHECK_DEADLOCK FALSE
