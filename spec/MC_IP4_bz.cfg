SPECIFICATION Spec
CONSTANTS
  OffsMod = 65536
  Alphabet <- BytesZ
  MaxLen = 10
INVARIANTS EmitIP4Prefix EmitContainsIP4 ContainsDeclInv PrefixDeclInv PrefixDeclRejectedInv
CHECK_DEADLOCK FALSE
