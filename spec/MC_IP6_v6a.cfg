SPECIFICATION Spec
CONSTANTS
  OffsMod = 65536
  Alphabet <- Bytes6v6
  MaxLen = 6
INVARIANTS EmitIP6Prefix EmitContainsIP6
CHECK_DEADLOCK FALSE
