SPECIFICATION Spec
CONSTANTS
  OffsMod = 65536
  Alphabet <- Bytes2v6
  MaxLen = 16
INVARIANTS EmitIP6Prefix EmitContainsIP6
CHECK_DEADLOCK FALSE
