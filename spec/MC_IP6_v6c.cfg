SPECIFICATION Spec
CONSTANTS
  OffsMod = 65536
  Alphabet <- Bytes4v6
  MaxLen = 9
INVARIANTS EmitIP6Prefix EmitContainsIP6
CHECK_DEADLOCK FALSE
