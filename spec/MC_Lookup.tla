----------------------------- MODULE MC_Lookup -----------------------------
(***************************************************************************)
(* C16: header-name and method classification is total and exactly the      *)
(* table.  The state is one candidate name; TLC enumerates                  *)
(*   "cases"  every letter-case variant of every table name (2^len each),   *)
(*   "short"  every byte string of length 0..3 over a 40 byte alphabet,     *)
(*   "edits"  every one-edit neighbour (insert / delete / substitute /      *)
(*            transpose) of every table name over that alphabet,            *)
(*   "bytes2" every one- and two-byte name over all 256 byte values,         *)
(*   "ext"    extensions / prefixes of table names,                          *)
(*   "rfc"    the header names of RFC 3261 and common extensions (Texts!RfcNames), *)
(*            their letter-case variants, extensions and prefixes,            *)
(* checks Auto = Decl on the model (hash + bucket scan vs. membership in    *)
(* the literal table) and prints `decl` records: what the DOCUMENTED table  *)
(* says, to be compared with the real GetHdrType / GetMethodNo.             *)
(***************************************************************************)
EXTENDS Lookup, Texts, TLC, Json

CONSTANTS Part      \* "cases" | "short" | "edits"
VARIABLE nm

\* (13, 173, 198, 230: bytes that coincide with '-', 'f', 'F' under |0x20, &0x7f style case folding shortcuts)
Alpha == {0, 13, 32, 45, 48, 57, 58, 173, 198, 230, 255} \cup {65, 67, 69, 70, 73, 76, 77, 80, 82, 84, 85, 86}
               \cup {97, 99, 101, 102, 105, 108, 109, 112, 114, 116, 117, 118} \cup {113, 115, 110, 111, 100, 98, 75, 89, 83}

AllNames == { HdrNameTable[k].n : k \in 1..Len(HdrNameTable) } \cup { MethodNames[m] : m \in 1..Len(MethodNames) }

Flip(c) == IF IsUpper(c) THEN c + 32 ELSE IF IsLower(c) THEN c - 32 ELSE c
\* all case variants: for each subset of positions, flip those
CaseVariants(n) == { SubSeq([j \in 1..Len(n) |-> IF j \in S THEN Flip(n[j]) ELSE n[j]], 1, Len(n)) : S \in SUBSET (1..Len(n)) }

Lower(n) == SubSeq([j \in 1..Len(n) |-> IF IsUpper(n[j]) THEN n[j] + 32 ELSE n[j]], 1, Len(n))
LowerUpper(n) == SubSeq([j \in 1..Len(n) |-> Flip(n[j])], 1, Len(n))
Short == UNION { [1..k -> Alpha] : k \in 0..3 }

Del(n, p)     == SubSeq(n, 1, p - 1) \o SubSeq(n, p + 1, Len(n))
Ins(n, p, c)  == SubSeq(n, 1, p - 1) \o <<c>> \o SubSeq(n, p, Len(n))
Sub(n, p, c)  == SubSeq(n, 1, p - 1) \o <<c>> \o SubSeq(n, p + 1, Len(n))
Swp(n, p)     == SubSeq(n, 1, p - 1) \o <<n[p + 1], n[p]>> \o SubSeq(n, p + 2, Len(n))
Edits(n) == { Del(n, p) : p \in 1..Len(n) } \cup { Ins(n, p, c) : p \in 1..(Len(n) + 1), c \in Alpha }
            \cup { Sub(n, p, c) : p \in 1..Len(n), c \in Alpha } \cup { Swp(n, p) : p \in 1..(Len(n) - 1) }

\* names that EXTEND a table name by 1..12 bytes (the hash buckets only know the first byte and the length mod 4) and
\* proper prefixes of table names
Fill1 == <<65, 66, 67, 68, 49, 50, 51, 52, 45, 101, 120, 116>>      \* "ABCD1234-ext"
Fill2 == <<45, 116, 97, 103, 115, 116, 97, 109, 112, 45, 105, 100>>  \* "-tagstamp-id"
Ext(n) == { n \o SubSeq(Fill1, 1, k) : k \in 1..12 } \cup { n \o SubSeq(Fill2, 1, k) : k \in 1..12 }
          \cup { SubSeq(n, 1, j) : j \in 1..(Len(n) - 1) } \cup { SubSeq(Fill1, 1, k) \o n : k \in {1, 4} }

\* the state is a CHOICE, the name is computed from it (cheap initial-state enumeration)
Init == CASE Part = "cases" -> nm \in UNION { CaseVariants(n) : n \in { x \in AllNames : Len(x) <= 14 } }
          [] Part = "caseslong" -> nm \in CaseVariants(HdrNameTable[19].n)
          [] Part = "short" -> nm \in { SubSeq(f, 1, Len(f)) : f \in Short }
          [] Part = "edits" -> nm \in UNION { Edits(n) : n \in AllNames }
          [] Part = "rfc" -> nm \in UNION { {RfcNames[j], LowerUpper(RfcNames[j]), Lower(RfcNames[j])} \cup Ext(RfcNames[j]) : j \in 1..Len(RfcNames) }
          [] Part = "bytes2" -> nm \in { SubSeq(f, 1, Len(f)) : f \in UNION { [1..k -> 0..255] : k \in 1..2 } }   \* every 1- and 2-byte name
          [] Part = "ext" -> nm \in UNION { Ext(n) \cup UNION { Ext(v) : v \in {LowerUpper(n)} } : n \in AllNames }
Next == FALSE /\ UNCHANGED nm
Spec == Init /\ [][Next]_nm

\* model: the hash lookup IS the table lookup (total, also for the empty name)
AutoEqDecl == GetHdrType(nm) = GetHdrTypeDecl(nm) /\ GetMethodNo(nm) = GetMethodNoDecl(nm)
\* mapping a known method to its name and back is the identity
RoundTrip == \A m \in 1..Len(MethodNames) : GetMethodNoDecl(MethodName(m)) = m

Emit == /\ PrintT(ToJson([fn |-> "GetHdrType", args |-> [s |-> nm], res |-> [t |-> GetHdrTypeDecl(nm)], src |-> "decl", prop |-> "C16"]))
        /\ PrintT(ToJson([fn |-> "GetMethodNo", args |-> [s |-> nm],
                          res |-> [m |-> GetMethodNoDecl(nm), name |-> MethodName(GetMethodNoDecl(nm))], src |-> "decl", prop |-> "C16"]))
=============================================================================
