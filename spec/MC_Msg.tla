------------------------------- MODULE MC_Msg -------------------------------
(* Exhaustive exploration of Stream for the header-line, header-block and     *)
(* whole-message parsers (kinds hdrline, hdrlineb, headers, headersb, msg).   *)
EXTENDS SIPMsg, Texts, TLC, Json

CONSTANTS Atoms, MaxLen, MaxAtoms, Cfgs, Junk, EmitOn
VARIABLES wire, vis, cont, obj, verdict, cfg, prev, hist, na

K_New(c)  == CASE c.kind \in {"hdrline", "hdrlineb"} -> HdrLineK_New(c)
               [] c.kind \in {"headers", "headersb"} -> HeadersK_New(c)
               [] c.kind = "msg" -> Msg_New(c)
K_Call(b, o, s, c) == CASE c.kind \in {"hdrline", "hdrlineb"} -> HdrLineK_Call(b, o, s, c)
               [] c.kind \in {"headers", "headersb"} -> HeadersK_Call(b, o, s, c)
               [] c.kind = "msg" -> Msg_Call(b, o, s, c)
\* the kind is not recoverable from the state alone: Obs dispatches on the state's shape
K_Obs(s)  == IF "fl" \in DOMAIN s THEN Msg_Obs(s)
             ELSE IF "hl" \in DOMAIN s THEN HeadersK_Obs(s) ELSE HdrLineK_Obs(s)
K_Reset(s) == s

INSTANCE Stream WITH P_New <- K_New, P_Call <- K_Call, P_Obs <- K_Obs, P_Reset <- K_Reset

C(kind, start, flags, hcap, ccap) == [kind |-> kind, start |-> start, flags |-> flags, hcap |-> hcap, ccap |-> ccap, pcap |-> -1]
AtomsHdr   == {<<SP>>, <<HT>>, <<CR>>, <<LF>>, <<COLON>>, <<97>>, <<120>>, N_From, N_l}
AtomsHdrV  == {<<SP>>, <<CR>>, <<LF>>, <<97, 58>>, <<108, 58>>, N_CSeq \o <<COLON>>, <<105, 58>>, N_Expires \o <<COLON>>,
               <<49>>, <<65, 67, 75>>, <<120>>}
AtomsHdrNA == {<<SP>>, <<CR>>, <<LF>>, <<102, 58>>, <<116, 58>>, <<109, 58>>, N_PAI \o <<COLON>>, <<60, 115, 105, 112, 58, 97, 62>>,
               <<COMMA>>, <<SEMI>>, <<116, 97, 103, 61, 49>>, <<120>>}
AtomsMsg   == {FL_opt \o CRLF, FL_404 \o CRLF, <<108, 58>>, <<97, 58>>, <<109, 58, 60, 115, 105, 112, 58, 97, 62>>, <<SP>>, <<CR>>, <<LF>>, <<51>>, <<120>>}
AtomsMsgS  == {FL_opt, CRLF, <<108, 58, 49>>, <<97, 58, 98>>, <<LF>>, <<120>>}

CfgsHdr    == {C("hdrline", 0, 0, -1, -1), C("hdrlineb", 0, 0, -1, 1), C("headers", 0, 0, 1, -1), C("headersb", 0, 0, 2, 1), C("hdrline", 3, 0, -1, -1)}
CfgsHdrV   == {C("hdrlineb", 0, 0, -1, 1), C("headersb", 0, 0, 0, 0), C("headersb", 0, 0, 3, 2), C("headersb", 3, 0, 1, 1)}
CfgsMsg    == {C("msg", 0, 0, -1, -1), C("msg", 0, 1, 0, 0), C("msg", 0, 2, 1, 1), C("msg", 0, 4, 2, -1), C("msg", 0, 6, 64, 64), C("msg", 3, 0, 1, 0)}
CfgsMsgAll == {C("msg", 0, f, h, -1) : f \in 0..7, h \in {-1, 1}}

Emit == (EmitOn /\ vis > 0) =>
          PrintT(ToJson([k |-> cfg.kind, cfg |-> cfg, wire |-> wire, cuts |-> hist,
                         offs |-> cont, err |-> verdict, obs |-> K_Obs(obj)]))
\* C03 with the property's exemptions: no-more-data mode (end of input), and the body extent of a message without
\* Content-Length parsed with neither skip-body nor CLen-required (its body is by definition the rest of the buffer)
MaskBody(o) == [o EXCEPT !.Body = <<0, 0>>, !.RawMsg = <<0, 0>>]
StableM ==
  (prev < Len(wire) /\ prev > cfg.start) =>
     LET p == Fresh(prev)  q == Fresh(Len(wire)) IN
       (Definitive(p.err) /\ p.err # "PANIC") =>
          IF cfg.kind = "msg" /\ MFlag(cfg.flags, NoMoreDataF) THEN TRUE
          ELSE IF cfg.kind = "msg" /\ cfg.flags % 4 = 0 /\ p.err = "ok" /\ p.st.pv.clen.state # "clFIN"
            THEN q.err = p.err /\ MaskBody(K_Obs(q.st)) = MaskBody(K_Obs(p.st))
          ELSE q.err = p.err /\ q.offs = p.offs /\ K_Obs(q.st) = K_Obs(p.st)

SRec(cuts) == LET r == SchedRes(cuts) IN
  ToJson([k |-> cfg.kind, cfg |-> cfg, wire |-> wire, cuts |-> cuts, offs |-> r.offs, err |-> r.err, obs |-> K_Obs(r.st)])
EmitTwo  == (EmitOn /\ HasTwo) => PrintT(SRec(TwoCuts))
EmitByte == (EmitOn /\ HasByte) => PrintT(SRec(ByteCuts))
=============================================================================
