SPECIFICATION Spec
VIEW view
CONSTANTS
  OffsMod = 65536
  Atoms <- AtomsHdr
  MaxLen = 5
  MaxAtoms = 99
  Cfgs <- CfgsHdr
  Junk = 34
  EmitOn = TRUE
INVARIANTS ResumeEqFresh Idempotent StableM OffsSane Emit EmitTwo EmitByte
PROPERTY MonotoneCont
CHECK_DEADLOCK FALSE
