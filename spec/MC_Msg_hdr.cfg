SPECIFICATION Spec
VIEW view
CONSTANTS
  OffsMod = 65536
  Atoms <- AtomsHdr
  MaxLen = 5
  Cfgs <- CfgsHdr
  Junk = 34
  EmitOn = TRUE
INVARIANTS ResumeEqFresh Stable OffsSane Emit
CHECK_DEADLOCK FALSE
