SPECIFICATION Spec
VIEW view
CONSTANTS
  OffsMod = 65536
  Atoms <- AtomsHdrNA
  MaxLen = 4
  MaxAtoms = 99
  Cfgs <- CfgsHdrV
  Junk = 34
  EmitOn = TRUE
INVARIANTS ResumeEqFresh Idempotent StableM OffsSane Emit EmitTwo EmitByte
PROPERTY MonotoneCont
CHECK_DEADLOCK FALSE
