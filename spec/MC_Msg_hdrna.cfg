SPECIFICATION Spec
VIEW view
CONSTANTS
  OffsMod = 65536
  Atoms <- AtomsHdrNA
  MaxLen = 4
  Cfgs <- CfgsHdrV
  Junk = 34
  EmitOn = TRUE
INVARIANTS ResumeEqFresh Stable OffsSane Emit
CHECK_DEADLOCK FALSE
