SPECIFICATION Spec
VIEW view
CONSTANTS
  OffsMod = 65536
  Atoms <- AtomsMsg
  MaxLen = 5
  Cfgs <- CfgsMsg
  Junk = 34
  EmitOn = TRUE
INVARIANTS ResumeEqFresh Stable OffsSane Emit
CHECK_DEADLOCK FALSE
