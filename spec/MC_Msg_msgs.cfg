SPECIFICATION Spec
VIEW view
CONSTANTS
  OffsMod = 65536
  Atoms <- AtomsMsgS
  MaxLen = 6
  MaxAtoms = 99
  Cfgs <- CfgsMsgAll
  Junk = 34
  EmitOn = TRUE
INVARIANTS ResumeEqFresh Idempotent StableM OffsSane Emit EmitTwo EmitByte
PROPERTY MonotoneCont
CHECK_DEADLOCK FALSE
