SPECIFICATION Spec
VIEW view
CONSTANTS
  OffsMod = 65536
  Atoms <- AtomsMsgS
  MaxLen = 6
  Cfgs <- CfgsMsgAll
  Junk = 34
  EmitOn = TRUE
INVARIANTS ResumeEqFresh Stable OffsSane Emit
CHECK_DEADLOCK FALSE
