---------------------------- MODULE MC_NameAddr ----------------------------
(* Exhaustive exploration of Stream for the name-addr value parser and the    *)
(* Contact / P-Asserted-Identity list parsers                                 *)
(* (Kind = "nameaddr" | "onepai" | "contacts" | "pais"), emitting one oracle  *)
(* record per distinct state for replay on the real code.                     *)
(* cfg.flags = HdrT passed to ParseNameAddrPVal (kind nameaddr),              *)
(* cfg.ccap  = capacity of the caller's contact array (kind contacts).        *)
EXTENDS ValLists, TLC, Json

CONSTANTS Kind, Atoms, MaxLen, Cfgs, Junk, EmitOn
VARIABLES wire, vis, cont, obj, verdict, cfg, prev, hist

K_New(c)  == CASE Kind = "nameaddr" -> NameAddr_New(c) [] Kind = "onepai" -> NameAddr_New(c)
               [] Kind = "contacts" -> Contacts_New(c) [] Kind = "pais" -> PAIs_New(c)
K_Call(b, o, s, c) == CASE Kind = "nameaddr" -> NameAddr_Call(b, o, s, c) [] Kind = "onepai" -> OnePAI_Call(b, o, s, c)
               [] Kind = "contacts" -> Contacts_Call(b, o, s, c) [] Kind = "pais" -> PAIs_Call(b, o, s, c)
K_Obs(s)  == CASE Kind = "nameaddr" -> NameAddr_Obs(s) [] Kind = "onepai" -> NameAddr_Obs(s)
               [] Kind = "contacts" -> Contacts_Obs(s) [] Kind = "pais" -> PAIs_Obs(s)
K_Reset(s) == CASE Kind = "nameaddr" -> NameAddr_Reset(s) [] Kind = "onepai" -> NameAddr_Reset(s)
               [] Kind = "contacts" -> Contacts_Reset(s) [] Kind = "pais" -> PAIs_Reset(s)

INSTANCE Stream WITH P_New <- K_New, P_Call <- K_Call, P_Obs <- K_Obs, P_Reset <- K_Reset

\* Like Stream!Init, but the peer's first segment is the fixed text Prefix (after the junk bytes): the
\* same protocol, explored from a later starting point.  Prefix = <<>> gives exactly Stream!Init.  Used for
\* the arms that need long inputs (20 digit numbers) which the exhaustive atom strings cannot reach.
CONSTANT Prefix
InitP == /\ cfg \in Cfgs
         /\ wire = SubSeq(JunkSeq(cfg.start), 1, cfg.start) \o Prefix
         /\ vis = 0 /\ cont = cfg.start /\ obj = K_New(cfg) /\ verdict = "more"
         /\ prev = cfg.start /\ hist = <<>>
SpecP == InitP /\ [][Next]_vars

----------------------------------------------------------------------------
\* atoms (cfg files cannot hold tuples).  a = 97, x = 120, digits 48..57
a_    == <<97>>
URIa  == <<115,105,112,58,97>>                                  \* sip:a
AB    == <<60,62>>                                              \* <>   (name-addr with an empty URI)
AURI  == <<60,115,105,112,58,97,62>>                            \* <sip:a>
EOHx  == <<CR, LF, 120>>                                        \* CRLF + first byte of the next header
D(n)  == <<48 + n>>

PfxNone == <<>>
PfxABS  == <<60,62,59>>                                          \* <>;
PfxQ    == <<60,62,59,113,61>>                                   \* <>;q=
PfxQBig == <<60,62,59,113,61, 49,56,52,52,54,55,52,52,48,55,51,55,48,57,53,53,49,54,49>>   \* <>;q=1844674407370955161
PfxExp  == <<60,62,59,101,120,112,105,114,101,115,61>>           \* <>;expires=
PfxExp32 == PfxExp \o <<52,50,57,52,57,54,55,50,57>>             \* <>;expires=429496729       (2^32 = 4294967296)
PfxExp64 == PfxExp \o <<49,56,52,52,54,55,52,52,48,55,51,55,48,57,53,53,49,54,49>>         \* ..=1844674407370955161 (2^64 = ..1616)
PfxPExp64 == <<97,59,69,88,80,73,82,69,83,61, 49,56,52,52,54,55,52,52,48,55,51,55,48,57,53,53,49,54,49>> \* a;EXPIRES=1844674407370955161

\* structure: name / uri / angle brackets / star / comma, CR and LF separately
AtomsStruct == {a_, <<LT>>, <<GT>>, <<COMMA>>, <<STAR>>, <<SP>>, <<CR>>, <<LF>>}
\* a second structure set: ';' and HT instead of '*' and '>'
AtomsStruct2 == {a_, <<LT>>, <<SEMI>>, <<COMMA>>, <<HT>>, <<SP>>, <<CR>>, <<LF>>}
\* quoting: display names, quoted-pairs
AtomsQuote  == {a_, <<DQUOTE>>, <<BSLASH>>, <<LT>>, <<GT>>, <<SP>>, <<CR>>, <<LF>>}
\* quoted parameter values (after "<>;a=" or "a;a=")
AtomsQuoteV == {<<60,62,59,97,61>>, <<97,59,97,61>>, <<DQUOTE>>, <<BSLASH>>, a_, <<SP>>, <<SEMI>>, <<COMMA>>, <<CR>>, <<LF>>}
\* bare URI (possible params) vs name: the fbNameOrURI / fbPossible* states
AtomsPoss   == {URIa, <<SEMI>>, <<EQ>>, a_, <<SP>>, <<LT>>, <<GT>>, <<DQUOTE>>, <<COMMA>>, EOHx}
AtomsPoss2  == {a_, <<SEMI>>, <<EQ>>, <<SP>>, <<COMMA>>, <<CR>>, <<LF>>}
\* header params after <uri>
AtomsParams == {AB, <<SEMI>>, <<EQ>>, a_, <<SP>>, <<COMMA>>, <<CR>>, <<LF>>}
AtomsParams2 == {<<SEMI>>, <<EQ>>, a_, <<SP>>, <<LT>>, <<GT>>, <<DQUOTE>>, <<COMMA>>, EOHx}      \* with Prefix "<>;"
\* known params: tag / lr / expires / q, values           (with Prefix "<>;")
AtomsKnown  == {<<SEMI>>, KW_tag, KW_lr, <<76,82>>, KW_q, <<EQ>>, D(1), <<SP>>, <<COMMA>>, EOHx}   \* "LR"
AtomsKnownP == {<<97,59>>, <<SEMI>>, KW_tag, KW_lr, KW_q, <<EQ>>, D(1), <<SP>>, EOHx}             \* "a;": possible params
\* q values                                                (with Prefix "<>;q=")
AtomsQ      == {D(0), D(1), D(2), <<DOT>>, a_, <<SEMI>>, <<SP>>, EOHx}
AtomsQBig   == {D(5), D(6), D(0), <<DOT>>, a_, <<SEMI>>, EOHx}
\* expires values                                          (with Prefix "<>;expires=" + digits)
AtomsExp    == {D(0), D(9), a_, <<SEMI>>, <<SP>>, <<COMMA>>, EOHx}
AtomsExpBig == {D(4), D(5), D(6), a_, <<SEMI>>, <<COMMA>>, EOHx}
\* lists: several values, several kinds of value
EXP1 == <<59,101,120,112,105,114,101,115,61,49>>                \* ;expires=1
EXP9 == <<59,101,120,112,105,114,101,115,61,57>>                \* ;expires=9
AtomsList   == {AB, a_, <<COMMA>>, <<STAR>>, <<SP>>, <<SEMI>>, <<CR>>, <<LF>>}
AtomsListE  == {AB, a_, <<COMMA>>, <<44,32>>, EXP1, EXP9, <<SP>>, EOHx}
AtomsListQ  == {AB, a_, <<COMMA>>, <<DQUOTE>>, <<BSLASH>>, <<LT>>, <<GT>>, EOHx}

C(k, s, f, cc) == [kind |-> k, start |-> s, flags |-> f, ccap |-> cc, hcap |-> -1, pcap |-> -1]
CfgsNA     == {C("nameaddr", s, h, -1) : s \in {0, 3}, h \in {1, 2, 8, 13, 12}}
CfgsNA18   == {C("nameaddr", s, h, -1) : s \in {0, 3}, h \in {1, 8}}
CfgsNA1    == {C("nameaddr", s, 1, -1) : s \in {0, 3}}
CfgsNA8    == {C("nameaddr", s, 8, -1) : s \in {0, 3}}
CfgsNA12   == {C("nameaddr", s, 12, -1) : s \in {0, 3}}
CfgsNA8s0  == {C("nameaddr", 0, 8, -1)}
CfgsPAI1   == {C("onepai", s, 0, -1) : s \in {0, 3}}
CfgsCont   == {C("contacts", s, 0, cc) : s \in {0, 3}, cc \in {0, 1, 2}}
CfgsCont0  == {C("contacts", 0, 0, cc) : cc \in {0, 1, 2}}
CfgsPAIs   == {C("pais", s, 0, -1) : s \in {0, 3}}

\* oracle record for the replayer
Emit == (EmitOn /\ vis > 0) =>
          PrintT(ToJson([k |-> Kind, cfg |-> cfg, wire |-> wire, cuts |-> hist,
                         offs |-> cont, err |-> verdict, obs |-> K_Obs(obj), int |-> obj]))
=============================================================================
