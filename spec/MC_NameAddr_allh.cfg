SPECIFICATION SpecP
VIEW view
CONSTANTS
  OffsMod = 65536
  Kind = "nameaddr"
  Atoms <- AtomsAllH
  Prefix <- PfxNone
  MaxLen = 5
  MaxAtoms = 99
  Cfgs <- CfgsNA
  Junk = 34
  EmitOn = TRUE
INVARIANTS ResumeEqFresh Idempotent Stable OffsSane Emit EmitTwo EmitByte
PROPERTY MonotoneCont
CHECK_DEADLOCK FALSE
