SPECIFICATION SpecP
VIEW view
CONSTANTS
  OffsMod = 65536
  Kind = "contacts"
  Atoms <- AtomsList
  Prefix <- PfxNone
  MaxLen = 4
  Cfgs <- CfgsCont
  Junk = 34
  EmitOn = TRUE
INVARIANTS ResumeEqFresh Stable OffsSane Emit
CHECK_DEADLOCK FALSE
