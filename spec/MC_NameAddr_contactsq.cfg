SPECIFICATION SpecP
VIEW view
CONSTANTS
  OffsMod = 65536
  Kind = "contacts"
  Atoms <- AtomsListQ
  Prefix <- PfxNone
  MaxLen = 6
  MaxAtoms = 99
  Cfgs <- CfgsCont0
  Junk = 34
  EmitOn = TRUE
INVARIANTS ResumeEqFresh Idempotent Stable OffsSane Emit EmitTwo EmitByte
PROPERTY MonotoneCont
CHECK_DEADLOCK FALSE
