SPECIFICATION SpecP
VIEW view
CONSTANTS
  OffsMod = 65536
  Kind = "contacts"
  Atoms <- AtomsListS
  Prefix <- PfxNone
  MaxLen = 7
  MaxAtoms = 99
  Cfgs <- CfgsCont
  Junk = 34
  EmitOn = TRUE
INVARIANTS ResumeEqFresh Idempotent Stable OffsSane Emit EmitTwo EmitByte
PROPERTY MonotoneCont
CHECK_DEADLOCK FALSE
