SPECIFICATION SpecP
VIEW view
CONSTANTS
  OffsMod = 65536
  Kind = "nameaddr"
  Atoms <- AtomsKnown
  Prefix <- PfxABS
  MaxLen = 10
  MaxAtoms = 99
  Cfgs <- CfgsNA12
  Junk = 34
  EmitOn = TRUE
INVARIANTS ResumeEqFresh Idempotent Stable OffsSane Emit EmitTwo EmitByte
PROPERTY MonotoneCont
CHECK_DEADLOCK FALSE
