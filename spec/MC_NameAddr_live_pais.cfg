\* liveness on a small instance (no VIEW): Stream!Progress under weak fairness of Call -- list parsers
SPECIFICATION FairSpecP
CONSTANTS
  OffsMod = 65536
  Kind = "pais"
  Atoms <- AtomsList
  Prefix <- PfxNone
  MaxLen = 3
  MaxAtoms = 99
  Cfgs <- CfgsPAIs
  Junk = 34
  EmitOn = FALSE
INVARIANTS ResumeEqFresh
PROPERTIES Progress MonotoneCont
CHECK_DEADLOCK FALSE
