SPECIFICATION SpecP
VIEW view
CONSTANTS
  OffsMod = 65536
  Kind = "onepai"
  Atoms <- AtomsList
  Prefix <- PfxNone
  MaxLen = 5
  MaxAtoms = 99
  Cfgs <- CfgsPAI1
  Junk = 34
  EmitOn = TRUE
INVARIANTS ResumeEqFresh Idempotent Stable OffsSane Emit EmitTwo EmitByte
PROPERTY MonotoneCont
CHECK_DEADLOCK FALSE
