SPECIFICATION SpecP
VIEW view
CONSTANTS
  OffsMod = 65536
  Kind = "pais"
  Atoms <- AtomsList
  Prefix <- PfxNone
  MaxLen = 5
  Cfgs <- CfgsPAIs
  Junk = 34
  EmitOn = TRUE
INVARIANTS ResumeEqFresh Stable OffsSane Emit
CHECK_DEADLOCK FALSE
