SPECIFICATION SpecP
VIEW view
CONSTANTS
  OffsMod = 65536
  Kind = "pais"
  Atoms <- AtomsListN
  Prefix <- PfxNone
  MaxLen = 9
  Cfgs <- CfgsPAIs
  Junk = 34
  EmitOn = TRUE
INVARIANTS ResumeEqFresh Stable OffsSane Emit
CHECK_DEADLOCK FALSE
