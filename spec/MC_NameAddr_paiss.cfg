SPECIFICATION SpecP
VIEW view
CONSTANTS
  OffsMod = 65536
  Kind = "pais"
  Atoms <- AtomsListS
  Prefix <- PfxNone
  MaxLen = 8
  Cfgs <- CfgsPAIs
  Junk = 34
  EmitOn = TRUE
INVARIANTS ResumeEqFresh Stable OffsSane Emit
CHECK_DEADLOCK FALSE
