SPECIFICATION SpecP
VIEW view
CONSTANTS
  OffsMod = 65536
  Kind = "nameaddr"
  Atoms <- AtomsParams
  Prefix <- PfxABS
  MaxLen = 8
  MaxAtoms = 99
  Cfgs <- CfgsNA18
  Junk = 34
  EmitOn = TRUE
INVARIANTS ResumeEqFresh Idempotent Stable OffsSane Emit EmitTwo EmitByte
PROPERTY MonotoneCont
CHECK_DEADLOCK FALSE
