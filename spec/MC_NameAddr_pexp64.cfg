SPECIFICATION SpecP
VIEW view
CONSTANTS
  OffsMod = 65536
  Kind = "nameaddr"
  Atoms <- AtomsExpBig
  Prefix <- PfxPExp64
  MaxLen = 34
  Cfgs <- CfgsNA1
  Junk = 34
  EmitOn = TRUE
INVARIANTS ResumeEqFresh Stable OffsSane Emit
CHECK_DEADLOCK FALSE
