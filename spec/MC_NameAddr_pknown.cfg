SPECIFICATION SpecP
VIEW view
CONSTANTS
  OffsMod = 65536
  Kind = "nameaddr"
  Atoms <- AtomsKnown
  Prefix <- PfxAS
  MaxLen = 9
  Cfgs <- CfgsNA1
  Junk = 34
  EmitOn = TRUE
INVARIANTS ResumeEqFresh Stable OffsSane Emit
CHECK_DEADLOCK FALSE
