SPECIFICATION SpecP
VIEW view
CONSTANTS
  OffsMod = 65536
  Kind = "nameaddr"
  Atoms <- AtomsQuoteV
  Prefix <- PfxAVal
  MaxLen = 10
  MaxAtoms = 99
  Cfgs <- CfgsNA8
  Junk = 34
  EmitOn = TRUE
INVARIANTS ResumeEqFresh Idempotent Stable OffsSane Emit EmitTwo EmitByte
PROPERTY MonotoneCont
CHECK_DEADLOCK FALSE
