SPECIFICATION SpecP
VIEW view
CONSTANTS
  OffsMod = 65536
  Kind = "nameaddr"
  Atoms <- AtomsQ
  Prefix <- PfxQ
  MaxLen = 11
  MaxAtoms = 99
  Cfgs <- CfgsNA8
  Junk = 34
  EmitOn = TRUE
INVARIANTS ResumeEqFresh Idempotent Stable OffsSane Emit EmitTwo EmitByte
PROPERTY MonotoneCont
CHECK_DEADLOCK FALSE
