SPECIFICATION SpecP
VIEW view
CONSTANTS
  OffsMod = 65536
  Kind = "nameaddr"
  Atoms <- AtomsQuote
  Prefix <- PfxNone
  MaxLen = 6
  Cfgs <- CfgsNA1
  Junk = 34
  EmitOn = TRUE
INVARIANTS ResumeEqFresh Stable OffsSane Emit
CHECK_DEADLOCK FALSE
