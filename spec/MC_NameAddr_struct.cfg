SPECIFICATION SpecP
VIEW view
CONSTANTS
  OffsMod = 65536
  Kind = "nameaddr"
  Atoms <- AtomsStruct
  Prefix <- PfxNone
  MaxLen = 5
  Cfgs <- CfgsNA18
  Junk = 34
  EmitOn = TRUE
INVARIANTS ResumeEqFresh Stable OffsSane Emit
CHECK_DEADLOCK FALSE
