\* ResumeEqFresh,Stable,OffsSane,Emit
SPECIFICATION SpecP
VIEW view
CONSTANTS
  OffsMod = 65536
  Kind = "tokparam"
  Atoms <- AtomsQuote
  Prefix <- 0
  MaxLen = 4
  Cfgs <- 6
  Junk = 34
  EmitOn = TRUE
INVARIANTS 0,3
CHECK_DEADLOCK FALSE
