------------------------------ MODULE MC_Reset ------------------------------
(***************************************************************************)
(* C12 as a model: histories  Use(A, stop) . Reset . Use(B)  on one object. *)
(* The state is the pair of texts (A, B), both growing by atoms (all pairs  *)
(* up to the bounds); for every stop point of A the model computes          *)
(*    objA = the object after parsing A[0..stop)   (suspended, complete or  *)
(*           failed -- whatever that prefix gives)                          *)
(*    objR = KReset(objA)      -- what the Go Reset()/Init() leaves,        *)
(*           caller arrays included                                         *)
(* and ResetLikeNew demands that parsing B on objR gives the same verdict,  *)
(* offset and observation as on a new object.  Every (A, stop, B) is also   *)
(* printed as a history record and executed on the real code.               *)
(***************************************************************************)
EXTENDS Kinds, TLC, Json

CONSTANTS Atoms, MaxA, MaxB, Cfgs, EmitOn
VARIABLES wa, wb, cfg, na, nb      \* na, nb: atoms in A, in B (the bounds MaxA, MaxB count atoms)
vars == <<wa, wb, cfg, na, nb>>

C(kind, flags, hcap, ccap, pcap) == [kind |-> kind, start |-> 0, flags |-> flags, hcap |-> hcap, ccap |-> ccap, pcap |-> pcap]
AtomsNum   == {<<SP>>, <<CR>>, <<LF>>, <<49>>, <<57>>, <<65>>, <<65, 67, 75>>}
AtomsNA    == {<<SP>>, <<CR>>, <<LF>>, <<97>>, <<60, 115, 58, 97, 62>>, <<COMMA>>, <<SEMI>>, <<DQUOTE>>, <<101, 120, 112, 105, 114, 101, 115, 61, 55>>}
AtomsPar   == {<<SP>>, <<CR>>, <<97>>, <<EQ>>, <<SEMI>>, <<AMP>>, <<DQUOTE>>}
AtomsHdr   == {<<SP>>, <<CR>>, <<LF>>, <<109, 58>>, <<102, 58>>, <<108, 58>>, <<60, 115, 58, 97, 62>>, <<COMMA>>, <<49>>, <<120>>}
CfgsNum    == {C("uint", 0, -1, -1, -1), C("clen", 0, -1, -1, -1), C("cseq", 0, -1, -1, -1), C("callid", 0, -1, -1, -1)}
CfgsNA     == {C("nameaddr", 8, -1, -1, -1), C("contacts", 0, -1, 0, -1), C("contacts", 0, -1, 1, -1), C("contacts", 0, -1, 2, -1), C("pais", 0, -1, -1, -1)}
CfgsPar    == {C("tokparam", 8, -1, -1, -1), C("uriparams", 72, -1, -1, 0), C("uriparams", 72, -1, -1, 1), C("uriparams", 64, -1, -1, 2),
               C("urihdrs", 136, -1, -1, 1), C("urihdrs", 128, -1, -1, 2)}
CfgsHdr    == {C("hdrlineb", 0, -1, 1, -1), C("headersb", 0, 1, 0, -1), C("headersb", 0, 2, 2, -1)}

Init == wa = <<>> /\ wb = <<>> /\ cfg \in Cfgs /\ na = 0 /\ nb = 0
GrowA == nb = 0 /\ na < MaxA /\ (\E a \in Atoms : wa' = wa \o a) /\ na' = na + 1 /\ UNCHANGED <<wb, cfg, nb>>
GrowB == Len(wa) > 0 /\ nb < MaxB /\ (\E a \in Atoms : wb' = wb \o a) /\ nb' = nb + 1 /\ UNCHANGED <<wa, cfg, na>>
Next == GrowA \/ GrowB
Spec == Init /\ [][Next]_vars

ObjA(stop) == KCall(SubSeq(wa, 1, stop), 0, KNew(cfg), cfg).st
OnReset(stop) == KCall(wb, 0, KReset(ObjA(stop), cfg), cfg)
OnNew == KCall(wb, 0, KNew(cfg), cfg)
Same(r1, r2) == r1.offs = r2.offs /\ r1.err = r2.err /\ KObs(r1.st, cfg) = KObs(r2.st, cfg)

ResetLikeNew == Len(wb) > 0 => \A stop \in 1..Len(wa) : Same(OnReset(stop), OnNew)

Emit == (EmitOn /\ Len(wb) > 0) =>
  \A stop \in 1..Len(wa) :
    LET r == OnReset(stop) IN
      PrintT(ToJson([k |-> cfg.kind, cfg |-> cfg, wire |-> wb, cuts |-> <<Len(wb)>>,
                     hist |-> <<[wire |-> wa, cuts |-> <<stop>>], [reset |-> TRUE], [wire |-> wb, cuts |-> <<Len(wb)>>]>>,
                     offs |-> r.offs, err |-> r.err, obs |-> KObs(r.st, cfg)]))
=============================================================================
