SPECIFICATION Spec
VIEW view
CONSTANTS
  OffsMod = 65536
  Kind = "uint"
  Atoms <- AtomsNum
  MaxLen = 5
  Cfgs <- Cfgs0
  Junk = 34
  EmitOn = TRUE
INVARIANTS ResumeEqFresh Stable OffsSane Emit
CHECK_DEADLOCK FALSE
