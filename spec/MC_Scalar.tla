----------------------------- MODULE MC_Scalar -----------------------------
(* Exhaustive exploration of Stream for the scalar header parsers            *)
(* (kind = "uint" | "clen" | "callid" | "cseq"), emitting one oracle record   *)
(* per distinct state for replay on the real code.                           *)
EXTENDS ScalarHdrs, TLC, Json

CONSTANTS Kind, Atoms, MaxLen, MaxAtoms, Cfgs, Junk, EmitOn
VARIABLES wire, vis, cont, obj, verdict, cfg, prev, hist, na

K_New(c)  == CASE Kind = "uint" -> UInt_New(c) [] Kind = "clen" -> UInt_New(c)
               [] Kind = "callid" -> CallID_New(c) [] Kind = "cseq" -> CSeq_New(c)
K_Call(b, o, s, c) == CASE Kind = "uint" -> UInt_Call(b, o, s, c) [] Kind = "clen" -> CLen_Call(b, o, s, c)
               [] Kind = "callid" -> CallID_Call(b, o, s, c) [] Kind = "cseq" -> CSeq_Call(b, o, s, c)
K_Obs(s)  == CASE Kind = "uint" -> UInt_Obs(s) [] Kind = "clen" -> UInt_Obs(s)
               [] Kind = "callid" -> CallID_Obs(s) [] Kind = "cseq" -> CSeq_Obs(s)
K_Reset(s) == K_New(<<>>)

INSTANCE Stream WITH P_New <- K_New, P_Call <- K_Call, P_Obs <- K_Obs, P_Reset <- K_Reset

\* atom sets / configurations selectable from the .cfg files (cfg files cannot hold tuples)
AtomsNum   == {<<SP>>, <<CR>>, <<LF>>, <<48>>, <<57>>, <<120>>}          \* SP CR LF '0' '9' 'x'
AtomsNumHT == AtomsNum \cup {<<HT>>}
AtomsCSeq  == {<<SP>>, <<CR>>, <<LF>>, <<49>>, <<65>>, <<65,67,75>>}    \* SP CR LF '1' 'A' "ACK"
Cfgs0  == {[start |-> 0]}
Cfgs03 == {[start |-> 0], [start |-> 3]}

\* oracle record for the replayer: the wire, the schedule that reached this state, and what the
\* model says the caller sees now
Emit == (EmitOn /\ vis > 0) =>
          PrintT(ToJson([k |-> Kind, cfg |-> cfg, wire |-> wire, cuts |-> hist,
                         offs |-> cont, err |-> verdict, obs |-> K_Obs(obj), int |-> obj]))
SRec(cuts) == LET r == SchedRes(cuts) IN
  ToJson([k |-> Kind, cfg |-> cfg, wire |-> wire, cuts |-> cuts, offs |-> r.offs, err |-> r.err, obs |-> K_Obs(r.st)])
EmitTwo  == (EmitOn /\ HasTwo) => PrintT(SRec(TwoCuts))
EmitByte == (EmitOn /\ HasByte) => PrintT(SRec(ByteCuts))
=============================================================================
