SPECIFICATION Spec
VIEW view
CONSTANTS
  OffsMod = 65536
  Kind = "clen"
  Atoms <- AtomsNum
  MaxLen = 6
  MaxAtoms = 99
  Cfgs <- Cfgs03
  Junk = 34
  EmitOn = TRUE
INVARIANTS ResumeEqFresh Idempotent Stable OffsSane Emit EmitTwo EmitByte
PROPERTY MonotoneCont
CHECK_DEADLOCK FALSE
