SPECIFICATION Spec
VIEW view
CONSTANTS
  OffsMod = 65536
  Kind = "clen"
  Atoms <- AtomsNum
  MaxLen = 6
  Cfgs <- Cfgs03
  Junk = 34
  EmitOn = TRUE
INVARIANTS ResumeEqFresh Stable OffsSane Emit
CHECK_DEADLOCK FALSE
