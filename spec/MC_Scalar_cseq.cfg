SPECIFICATION Spec
VIEW view
CONSTANTS
  OffsMod = 65536
  Kind = "cseq"
  Atoms <- AtomsCSeq
  MaxLen = 6
  Cfgs <- Cfgs03
  Junk = 34
  EmitOn = TRUE
INVARIANTS ResumeEqFresh Stable OffsSane Emit
CHECK_DEADLOCK FALSE
