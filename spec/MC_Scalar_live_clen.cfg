\* liveness on a small instance (no VIEW): Stream!Progress under weak fairness of Call
SPECIFICATION FairSpec
CONSTANTS
  OffsMod = 65536
  Kind = "clen"
  Atoms <- AtomsNum
  MaxLen = 6
  MaxAtoms = 4
  Cfgs <- Cfgs03
  Junk = 34
  EmitOn = FALSE
INVARIANTS ResumeEqFresh
PROPERTIES Progress MonotoneCont
CHECK_DEADLOCK FALSE
