----------------------------- MODULE MC_StrSig -----------------------------
(***************************************************************************)
(* C19 / C20: the character-class signature of Call-ID, From-tag and        *)
(* first-Via branch (StrSig.tla = transcription of getStrCharsSig,          *)
(* GetCallIDSig, GetViaBrSig + the declarative statements).                 *)
(* Part "cid"  every string over Alphabet up to MaxLen as a Call-ID,        *)
(*      "br"   ... as a branch value (bare and after the RFC 3261 cookie)   *)
(*             inside a Via value,                                          *)
(*      "cls"  strings of 8..MaxLen characters over three class             *)
(*             representatives, each with its 19 rotations of the letters   *)
(*             within their classes (every letter of every class occurs),   *)
(*      "gen"  structured Call-IDs: prefix ++ address-like middle ++ suffix *)
(*             (reserved characters touching the address, near-addresses,   *)
(*             IPv6, very long ids),                                        *)
(*      "msg"  whole requests whose Call-ID / From-tag / branch are taken   *)
(*             from a pool: GetMsgSig must report the three signatures.     *)
(* Model invariants: the Decl statements hold for the transcription and the *)
(* signature is a function of the character classes (ClassInv: exchanging   *)
(* letters within their class, and the digits 1 / 2 when no digit is above  *)
(* 2, changes nothing).  Records: the transcription's answer per string     *)
(* (drift) + the same call for the exchanged string, both in one group      *)
(* (`grp`): the REAL results of a group must be identical.                  *)
(***************************************************************************)
EXTENDS StrSig, Texts, TLC, Json

CONSTANTS Part, Alphabet, MaxLen
VARIABLE txt

\* exchange within the classes
Rot(c, lo, hi) == IF c = hi THEN lo ELSE c + 1
LowDigits(s) == \A k \in 1..Len(s) : IsDigit(s[k]) => s[k] <= 50
SwapC(c, low) == IF c >= 97 /\ c <= 102 THEN Rot(c, 97, 102) ELSE IF c >= 65 /\ c <= 70 THEN Rot(c, 65, 70)
                 ELSE IF c >= 103 /\ c <= 122 THEN Rot(c, 103, 122) ELSE IF c >= 71 /\ c <= 90 THEN Rot(c, 71, 90)
                 ELSE IF low /\ c = 49 THEN 50 ELSE IF low /\ c = 50 THEN 49
                 ELSE IF c = 33 THEN 126 ELSE IF c = 126 THEN 33        \* '!' <-> '~' (class "other")
                 ELSE c
Swap(s) == LET low == LowDigits(s) IN SubSeq([k \in 1..Len(s) |-> SwapC(s[k], low)], 1, Len(s))
\* group id: class sequence; digits literally (1 and 2 identified when no digit is above 2)
CanonC(c, low) == IF IsDigit(c) THEN (IF low /\ c = 50 THEN 49 ELSE c) ELSE CharClass(c)
Canon(s) == LET low == LowDigits(s) IN SubSeq([k \in 1..Len(s) |-> CanonC(s[k], low)], 1, Len(s))

\* rotate every letter k places within its class (6 hex letters, 20 other letters per letter case)
RotK(c, k) == IF c >= 97 /\ c <= 102 THEN 97 + ((c - 97 + k) % 6) ELSE IF c >= 65 /\ c <= 70 THEN 65 + ((c - 65 + k) % 6)
              ELSE IF c >= 103 /\ c <= 122 THEN 103 + ((c - 103 + k) % 20) ELSE IF c >= 71 /\ c <= 90 THEN 71 + ((c - 71 + k) % 20)
              ELSE c
RotS(s, k) == SubSeq([j \in 1..Len(s) |-> RotK(s[j], k)], 1, Len(s))
ClsMin == 8       \* part "cls": strings of at least this length (the encoding guess needs 8 characters)

\* ---- alphabets (one per configuration)
AlCls1     == {49, 97, 103}               \* 1 a g        part "cls": every letter of every class, via RotS
AlCls2     == {97, 71, 45}                \* a G -
AlCls3     == {65, 103, 49}               \* A g 1
AlHexDash  == {49, 97, 45, 71}            \* '1' 'a' '-' 'G'      hex blocks / not hex
AlB64      == {49, 102, 70, 61}           \* '1' 'f' 'F' '='      mixed case, padding
AlB64b     == {97, 43, 47, 61, 122}       \* 'a' '+' '/' '=' 'z'
AlIP       == {50, DOT, 64, 120}          \* '2' '.' '@' 'x'      addresses with touching '@' '.'
AlIPd      == {50, DOT, 45, 97}           \* '2' '.' '-' 'a'
AlBlocks   == {49, 45, 98}                \* '1' '-' 'b'          many blocks (hexBlocks >= 4, hexMConsec >= 8)
AlSeps     == {49, 45, 95, 102}           \* '1' '-' '_' 'f'      two different separators
AlOther    == {49, 33, 103, 42, 124}      \* '1' '!' 'g' '*' '|'
AlV6       == {49, COLON, 102, 64}        \* '1' ':' 'f' '@'

\* ---- structured Call-IDs
GPre  == << <<>>, <<97>>, <<97, 64>>, <<49, 97, 50, 98, 51, 99, 52, 100, 45>>, <<97, 98, 99, 100, 101, 102, 49, 50, 64>>, <<120, DOT>>, <<57>>,
            <<49, 50, 51, 52, 53, 54, 55, 56, 57, 48, 64>>, <<65, 98, 67, 100, 69, 102, 71, 104, 61>> >>
GMid  == << <<49, DOT, 50, DOT, 51, DOT, 52>>, <<49, 48, DOT, 48, DOT, 48, DOT, 50, 53, 53>>, <<50, 53, 54, DOT, 49, DOT, 49, DOT, 49>>,
            <<49, DOT, 50, DOT, 51>>, <<91, 58, 58, 49, 93>>, <<58, 58, 49>>, <<50, 48, 48, 49, 58, 100, 98, 56, 58, 58, 49>>,
            <<49, 57, 50, DOT, 49, 54, 56, DOT, 49, DOT, 49, DOT, 49>>, <<>>,
            \* IPv6-shaped texts with 8 / 9 / 10 groups, "::" followed by 8 or more groups, runs of colons, embedded IPv4
            <<58, 58, 49, 58, 50, 58, 51, 58, 52, 58, 53, 58, 54, 58, 55, 58, 56, 58, 57>>,
            <<49, 58, 50, 58, 51, 58, 52, 58, 53, 58, 54, 58, 55, 58, 56>>,
            <<49, 58, 50, 58, 51, 58, 52, 58, 53, 58, 54, 58, 55, 58, 56, 58, 57>>,
            <<49, 58, 58, 50, 58, 51, 58, 52, 58, 53, 58, 54, 58, 55, 58, 56>>,
            <<97, 98, 58, 58, 49, 58, 50, 58, 51, 58, 52, 58, 53, 58, 54, 58, 55, 58, 56>>,
            <<58, 58, 58, 58, 58, 58, 58, 58, 58, 58>>,
            <<58, 58, 102, 102, 102, 102, 58, 49, 46, 50, 46, 51, 46, 52>>,
            <<49, 58, 50, 58, 51, 58, 52, 58, 53, 58, 54, 58, 49, 46, 50, 46, 51, 46, 52>>,
            <<91, 49, 58, 50, 58, 51, 58, 52, 58, 53, 58, 54, 58, 55, 58, 56, 58, 57, 58, 97, 93>> >>
GPost == << <<>>, <<64>>, <<45, 49>>, <<64, 104, 111, 115, 116>>, <<DOT, 53>>, <<58, 53, 48, 54, 48>>,
            <<45, 97, 98, 99, 100, 101, 102, 49, 50, 51, 52, 53, 54>>, <<53>>, <<64, 49, DOT, 50, DOT, 51, DOT, 52>> >>
RECURSIVE Rep(_, _)
Rep(s, n) == IF n = 0 THEN <<>> ELSE s \o Rep(s, n - 1)
GLong == { Rep(<<97, 98>>, 509) \o t : t \in { <<>>, <<99>>, <<99, 100>>, <<99, 100, 101>>, <<99, 100, 101, 102>>, <<49, DOT, 50, DOT, 51, DOT, 52>> } }
         \cup { Rep(<<97, 98>>, n) : n \in {510, 511, 512, 600} }
GenTexts == { GPre[a] \o GMid[b] \o GPost[c] : a \in 1..Len(GPre), b \in 1..Len(GMid), c \in 1..Len(GPost) } \cup GLong

\* ---- whole requests: Call-ID x From-tag x branch from a pool
Pool == << <<97>>, <<49, 50, 51, 52, 53, 54, 55, 56>>, <<97, 98, 99, 100, 101, 102, 48, 49>>, <<97, 98, 99, 100, 45, 49, 50, 51, 52>>,
           <<65, 98, 67, 100, 69, 102, 71, 104>>, <<49, 50, 51, 52, 53, 54, 55, 56, 57, 64, 49, DOT, 50, DOT, 51, DOT, 52>>,
           <<49, DOT, 50, DOT, 51, DOT, 52, 45, 120, 95, 121>>, <<97, 42, 98, 43, 99, 47, 100, 124, 101>>,
           <<100, 101, 97, 100, 98, 101, 101, 102, 45, 99, 97, 102, 101, 45, 98, 97, 98, 101, 45, 49, 50, 51, 52>> >>
T_viapfx == <<83, 73, 80, 47, 50, 46, 48, 47, 85, 68, 80, 32, 104, 59, 98, 114, 97, 110, 99, 104, 61>>          \* "SIP/2.0/UDP h;branch="
T_viarport == <<83, 73, 80, 47, 50, 46, 48, 47, 85, 68, 80, 32, 104, 59, 114, 112, 111, 114, 116, 59, 98, 114, 97, 110, 99, 104, 61>>  \* "SIP/2.0/UDP h;rport;branch="
T_frompfx == <<60, 115, 105, 112, 58, 97, 64, 98, 62, 59, 116, 97, 103, 61>>                                    \* "<sip:a@b>;tag="
Line(n, v) == n \o <<COLON, 32>> \o v \o <<13, 10>>
MsgOf(c, f, b, ck) ==
  M_invite \o T_ruri \o <<13, 10>> \o Line(N_Via, T_viapfx \o (IF ck THEN BrCookie ELSE <<>>) \o Pool[b]) \o Line(N_From, T_frompfx \o Pool[f])
    \o Line(N_To, V_to1) \o Line(N_CallID, Pool[c]) \o Line(N_CSeq, V_cseq1) \o <<13, 10>>
MsgChoices == { <<c, f, b, ck>> : c \in 1..Len(Pool), f \in 1..Len(Pool), b \in 1..Len(Pool), ck \in BOOLEAN }

\* ---- behaviours
Init == CASE Part \in {"cid", "br", "cls"} -> txt = <<>>
          [] Part = "gen" -> txt \in GenTexts
          [] Part = "msg" -> txt \in MsgChoices
Next == Part \in {"cid", "br", "cls"} /\ Len(txt) < MaxLen /\ \E b \in Alphabet : txt' = Append(txt, b)
Spec == Init /\ [][Next]_txt

IsCid == Part \in {"cid", "gen"}
\* model: Decl statements on the transcription
CallIDDeclInv == IsCid => CallIDDecl(txt, CallIDSig(txt))
ViaVal(v, ck, rp) == (IF rp THEN T_viarport ELSE T_viapfx) \o (IF ck THEN BrCookie ELSE <<>>) \o v
BranchDeclInv == Part = "br" => \A ck \in BOOLEAN : BranchDecl((IF ck THEN BrCookie ELSE <<>>) \o txt, ViaBrSig(ViaVal(txt, ck, FALSE)))
\* model: a function of the character classes
ClassInv == /\ (Part = "cls" /\ Len(txt) >= ClsMin) => \A k \in 1..19 : CallIDSig(RotS(txt, k)) = CallIDSig(txt)
            /\ IsCid => CallIDSig(Swap(txt)) = CallIDSig(txt)
            /\ Part = "br" => \A ck \in BOOLEAN : ViaBrSig(ViaVal(Swap(txt), ck, FALSE)) = ViaBrSig(ViaVal(txt, ck, FALSE))
                                                  /\ ViaBrSig(ViaVal(txt, ck, TRUE)) = ViaBrSig(ViaVal(txt, ck, FALSE))

CidRec(s, g) == [fn |-> "GetCallIDSig", args |-> [s |-> s], res |-> CallIDSig(s), src |-> "auto", prop |-> "C19", grp |-> g]
BrRec(v, ck, rp, g) == [fn |-> "GetViaBrSig", args |-> [s |-> ViaVal(v, ck, rp), v |-> (IF ck THEN BrCookie ELSE <<>>) \o v],
                        res |-> ViaBrSig(ViaVal(v, ck, rp)), src |-> "auto", prop |-> "C19", grp |-> g]
Emit ==
  CASE IsCid -> LET g == ToString(Canon(txt)) IN
                  /\ PrintT(ToJson(CidRec(txt, g)))
                  /\ (Swap(txt) # txt => PrintT(ToJson(CidRec(Swap(txt), g))))
    [] Part = "cls" -> Len(txt) >= ClsMin => LET g == ToString(Canon(txt)) IN
                  \A k \in 0..19 : (k = 0 \/ RotS(txt, k) # txt) => PrintT(ToJson(CidRec(RotS(txt, k), g)))
    [] Part = "br" -> Len(txt) > 0 => \A ck \in BOOLEAN :
                  LET g == ToString(<<ck, Canon(txt)>>) IN
                  /\ PrintT(ToJson(BrRec(txt, ck, FALSE, g)))
                  /\ PrintT(ToJson(BrRec(txt, ck, TRUE, g)))
                  /\ (Swap(txt) # txt => PrintT(ToJson(BrRec(Swap(txt), ck, FALSE, g))))
    [] Part = "msg" -> LET c == txt[1]  f == txt[2]  b == txt[3]  ck == txt[4]
                           cs == CallIDSig(Pool[c])
                           br == ViaBrSig(ViaVal(Pool[b], ck, FALSE)) IN
                  PrintT(ToJson([fn |-> "GetMsgSig", args |-> [s |-> MsgOf(c, f, b, ck), hcap |-> 64, ccap |-> -1, flags |-> 0],
                                 res |-> [perr |-> OK, err |-> OK, CidSig |-> cs.sig, CidSLen |-> cs.slen,
                                          FromSig |-> SigInt(StrCharsSig(Pool[f], 0, 0).sig), ViaBSig |-> br.sig],
                                 src |-> "decl", layer |-> "auto", prop |-> "C19"]))
=============================================================================
