SPECIFICATION Spec
CONSTANTS
  OffsMod = 65536
  NCuts = 3
INVARIANTS Isolated Emit
CHECK_DEADLOCK FALSE
