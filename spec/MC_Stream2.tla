----------------------------- MODULE MC_Stream2 -----------------------------
(***************************************************************************)
(* C04, isolation at call-interleaving granularity: TWO parser objects with *)
(* their own wires, fed in chunks; the scheduler interleaves their Call      *)
(* steps in every possible order.  There is deliberately NO shared           *)
(* component in the model: each object's next state is a function of its     *)
(* own state and wire only, so every interleaving must leave each object     *)
(* exactly where its solo run leaves it (Isolated).  Each interleaving is    *)
(* printed and executed on two REAL objects; the replayer compares each      *)
(* object's result with its solo run -- any package-level state shared       *)
(* between calls (a cache, a scratch buffer that survives a call) shows up   *)
(* as a difference.                                                          *)
(***************************************************************************)
EXTENDS Kinds, Texts, TLC, Json

CONSTANT NCuts        \* calls per object
VARIABLES pick,       \* <<i, j>>: which two workloads
          k1, k2,     \* calls made so far by object 1 / 2
          o1, o2,     \* object states
          c1, c2,     \* continuation offsets
          v1, v2,     \* verdicts
          order       \* ghost: the interleaving so far (sequence of 1 / 2)
vars == <<pick, k1, k2, o1, o2, c1, c2, v1, v2, order>>

C(kind, flags, hcap, ccap, pcap) == [kind |-> kind, start |-> 0, flags |-> flags, hcap |-> hcap, ccap |-> ccap, pcap |-> pcap]
Msg1 == FL_inv \o CRLF \o N_From \o <<COLON, SP>> \o V_from1 \o CRLF \o N_m \o <<COLON, SP>> \o V_contact2 \o CRLF \o N_l \o <<COLON, SP, 51>> \o CRLF \o CRLF \o BODY3
Msg2 == FL_200 \o CRLF \o N_t \o <<COLON>> \o V_to2 \o CRLF \o N_CSeq \o <<COLON, SP>> \o V_cseq3 \o CRLF \o N_PAI \o <<COLON, SP>> \o V_pai2 \o CRLF \o CRLF
UP_mix == <<116,114,97,110,115,112,111,114,116,61,116,99,112,59,108,114,59,102,111,111,61,34,97,59,98,34>>   \* transport=tcp;lr;foo="a;b"
Work == << [cfg |-> C("msg", 0, -1, -1, -1), w |-> Msg1], [cfg |-> C("msg", 1, 1, 1, -1), w |-> Msg2],
           [cfg |-> C("msg", 4, 2, 0, -1), w |-> Msg1], [cfg |-> C("headersb", 0, 2, 1, -1), w |-> N_m \o <<COLON, SP>> \o V_contact6 \o CRLF \o CRLF],
           [cfg |-> C("contacts", 0, -1, 1, -1), w |-> V_contact2 \o CRLF \o <<88>>], [cfg |-> C("uriparams", 72, -1, -1, 1), w |-> UP_mix],
           [cfg |-> C("nameaddr", 1, -1, -1, -1), w |-> V_from2 \o CRLF \o <<88>>], [cfg |-> C("cseq", 0, -1, -1, -1), w |-> <<SP>> \o V_cseq1 \o CRLF \o <<88>>] >>
\* the cut points of workload i: NCuts roughly equal chunks
Cut(i, k) == IF k >= NCuts THEN Len(Work[i].w) ELSE (Len(Work[i].w) * k) \div NCuts + 1

Init == /\ pick \in { <<i, j>> : i \in 1..Len(Work), j \in 1..Len(Work) }
        /\ k1 = 0 /\ k2 = 0 /\ order = <<>>
        /\ o1 = KNew(Work[pick[1]].cfg) /\ o2 = KNew(Work[pick[2]].cfg)
        /\ c1 = 0 /\ c2 = 0 /\ v1 = "more" /\ v2 = "more"
Step1 == /\ k1 < NCuts /\ v1 = "more"
         /\ LET r == KCall(SubSeq(Work[pick[1]].w, 1, Cut(pick[1], k1 + 1)), c1, o1, Work[pick[1]].cfg) IN
              o1' = r.st /\ c1' = r.offs /\ v1' = r.err
         /\ k1' = k1 + 1 /\ order' = Append(order, 1) /\ UNCHANGED <<pick, k2, o2, c2, v2>>
Step2 == /\ k2 < NCuts /\ v2 = "more"
         /\ LET r == KCall(SubSeq(Work[pick[2]].w, 1, Cut(pick[2], k2 + 1)), c2, o2, Work[pick[2]].cfg) IN
              o2' = r.st /\ c2' = r.offs /\ v2' = r.err
         /\ k2' = k2 + 1 /\ order' = Append(order, 2) /\ UNCHANGED <<pick, k1, o1, c1, v1>>
Next == Step1 \/ Step2
Spec == Init /\ [][Next]_vars

\* solo run of workload i for k calls
RECURSIVE Solo(_, _, _, _, _)
Solo(i, k, n, offs, st) ==
  IF n >= k THEN [st |-> st, offs |-> offs]
  ELSE LET r == KCall(SubSeq(Work[i].w, 1, Cut(i, n + 1)), offs, st, Work[i].cfg) IN
         IF r.err # "more" THEN [st |-> r.st, offs |-> r.offs] ELSE Solo(i, k, n + 1, r.offs, r.st)
Isolated == /\ o1 = Solo(pick[1], k1, 0, 0, KNew(Work[pick[1]].cfg)).st
            /\ o2 = Solo(pick[2], k2, 0, 0, KNew(Work[pick[2]].cfg)).st

Done == (k1 = NCuts \/ v1 # "more") /\ (k2 = NCuts \/ v2 # "more")
CutsOf(i) == SubSeq([k \in 1..NCuts |-> Cut(i, k)], 1, NCuts)
Emit == Done => PrintT(ToJson([il |-> [order |-> order,
                                       a |-> [cfg |-> Work[pick[1]].cfg, wire |-> Work[pick[1]].w, cuts |-> CutsOf(pick[1]),
                                              offs |-> c1, err |-> v1, obs |-> KObs(o1, Work[pick[1]].cfg)],
                                       b |-> [cfg |-> Work[pick[2]].cfg, wire |-> Work[pick[2]].w, cuts |-> CutsOf(pick[2]),
                                              offs |-> c2, err |-> v2, obs |-> KObs(o2, Work[pick[2]].cfg)]]]))
=============================================================================
