---------------------------- MODULE MC_TokParam ----------------------------
(* Exhaustive exploration of Stream for the token-parameter parsers                       *)
(* (Kind = "tokparam" | "uriparams" | "urihdrs" | "skipquoted"), emitting one oracle       *)
(* record per distinct state for replay on the real code (bin/drift MC_TokParam <cfg>).    *)
(*                                                                                       *)
(* A .cfg chooses   Kind, Atoms <- AtomsX, MaxLen, Starts / FlagSet / PCaps (sets of ints) *)
(* and always       Cfgs <- CfgsOf   (= every [kind, start, flags, pcap] combination).     *)
EXTENDS TokParam, TLC, Json

CONSTANTS Kind, Atoms, MaxLen, Cfgs, Junk, EmitOn,
          Starts,     \* start offsets (number of junk bytes before the text)
          FlagSet,    \* POptFlags values
          PCaps       \* capacities of the caller supplied array (uriparams / urihdrs; {0} otherwise: unused)
VARIABLES wire, vis, cont, obj, verdict, cfg, prev, hist, na

K_New(c)  == CASE Kind = "tokparam" -> TokParam_New(c) [] Kind = "uriparams" -> URIParams_New(c)
               [] Kind = "urihdrs" -> URIHdrs_New(c)   [] Kind = "skipquoted" -> SkipQ_New(c)
K_Call(b, o, s, c) ==
             CASE Kind = "tokparam" -> TokParam_Call(b, o, s, c) [] Kind = "uriparams" -> URIParams_Call(b, o, s, c)
               [] Kind = "urihdrs" -> URIHdrs_Call(b, o, s, c)   [] Kind = "skipquoted" -> SkipQ_Call(b, o, s, c)
K_Obs(s)  == CASE Kind = "tokparam" -> TokParam_Obs(s) [] Kind = "uriparams" -> URIParams_Obs(s)
               [] Kind = "urihdrs" -> URIHdrs_Obs(s)   [] Kind = "skipquoted" -> SkipQ_Obs(s)
K_Reset(s) == CASE Kind = "tokparam" -> TokParam_Reset(s) [] Kind = "uriparams" -> URIParams_Reset(s)
               [] Kind = "urihdrs" -> URIHdrs_Reset(s)   [] Kind = "skipquoted" -> SkipQ_Reset(s)

INSTANCE Stream WITH MaxAtoms <- 99, P_New <- K_New, P_Call <- K_Call, P_Obs <- K_Obs, P_Reset <- K_Reset

\* the configurations of a run: the record is printed as the `cfg` of every oracle record and must be
\* understood by the Go side (harness/kinds.go Cfg)
CfgsOf == {[kind |-> Kind, start |-> s, flags |-> f, pcap |-> p, hcap |-> -1, ccap |-> -1] :
             s \in Starts, f \in FlagSet, p \in PCaps}

\* ---- atom sets (cfg files cannot hold tuples).  'a' = 97
\* structure, sep = ';'                      a = ; SP CR LF
AtomsSemi    == {<<97>>, <<EQ>>, <<SEMI>>, <<SP>>, <<CR>>, <<LF>>}
\* structure, sep = '&'                      a = & SP CR LF
AtomsAmp     == {<<97>>, <<EQ>>, <<AMP>>, <<SP>>, <<CR>>, <<LF>>}
\* term = ','                                a = , ; SP LF
AtomsComma   == {<<97>>, <<EQ>>, <<COMMA>>, <<SEMI>>, <<SP>>, <<LF>>}
\* term = '?'                                a = ? ; SP LF
AtomsQm      == {<<97>>, <<EQ>>, <<QM>>, <<SEMI>>, <<SP>>, <<LF>>}
\* every separator / terminator, no LWS      a = ; & , ?
AtomsPunct   == {<<97>>, <<EQ>>, <<SEMI>>, <<AMP>>, <<COMMA>>, <<QM>>}
\* quoted values, LWS around them            a = " \ SP CR
AtomsQuote   == {<<97>>, <<EQ>>, <<DQUOTE>>, <<BSLASH>>, <<SP>>, <<CR>>}
\* quoted value followed by token / sep / LF a =" " \ ; LF      ("=\"" opens a quoted value in one atom)
AtomsQuote2  == {<<97>>, <<EQ, DQUOTE>>, <<DQUOTE>>, <<BSLASH>>, <<SEMI>>, <<LF>>}
AtomsQuote2A == {<<97>>, <<EQ, DQUOTE>>, <<DQUOTE>>, <<BSLASH>>, <<AMP>>, <<LF>>}
\* quoted value followed by a terminator     a =" " , ? SP
AtomsQuote3  == {<<97>>, <<EQ, DQUOTE>>, <<DQUOTE>>, <<COMMA>>, <<QM>>, <<SP>>}
\* illegal bytes inside and outside quotes   a =" " @ DEL 200 HT 1
AtomsBadQ    == {<<97>>, <<EQ, DQUOTE>>, <<DQUOTE>>, <<AT>>, <<DEL>>, <<200>>, <<HT>>, <<1>>}
\* illegal bytes in every state              a = @ DEL 200 SP ; &
AtomsBad     == {<<97>>, <<EQ>>, <<AT>>, <<DEL>>, <<200>>, <<SP>>, <<SEMI>>, <<AMP>>}
\* every class of tokAllowedChar               a Z 5 - % [ $ =
AtomsTokCh   == {<<97>>, <<90>>, <<53>>, <<DASH>>, <<PCT>>, <<LBRACK>>, <<DOLLAR>>, <<EQ>>}
\* known uri parameter names (Types accumulation)    lr ttl x = ; SP
AtomsNames   == {KW_lr, KW_ttl, <<120>>, <<EQ>>, <<SEMI>>, <<SP>>}
\* transport maddr user method LR ; =
AtomsNames2  == {KW_transport, KW_maddr, KW_user, KW_method, <<76, 82>>, <<SEMI>>, <<EQ>>}
\* uri params: several values, terminator    a = ; ? SP LF
\* uri hdrs:                                 a = & ? SP LF
AtomsUHdr    == {<<97>>, <<EQ>>, <<AMP>>, <<QM>>, <<SP>>, <<LF>>}
\* lists with quoted values / bad bytes      a =" " ; @ SP      (sep '&' for headers)
AtomsLstQ    == {<<97>>, <<EQ, DQUOTE>>, <<DQUOTE>>, <<SEMI>>, <<AT>>, <<SP>>}
AtomsLstQA   == {<<97>>, <<EQ, DQUOTE>>, <<DQUOTE>>, <<AMP>>, <<AT>>, <<SP>>}
\* SkipQuoted                                " \ a SP CR LF  /  " \ DEL 200 HT 1
AtomsSkipQ   == {<<DQUOTE>>, <<BSLASH>>, <<97>>, <<SP>>, <<CR>>, <<LF>>}
AtomsSkipQ2  == {<<DQUOTE>>, <<BSLASH>>, <<DEL>>, <<200>>, <<HT>>, <<1>>}

\* oracle record for the replayer: the wire, the schedule that reached this state, and what the
\* model says the caller sees now
Emit == (EmitOn /\ vis > 0) =>
          PrintT(ToJson([k |-> Kind, cfg |-> cfg, wire |-> wire, cuts |-> hist,
                         offs |-> cont, err |-> verdict, obs |-> K_Obs(obj), int |-> obj]))
=============================================================================
