\* liveness on a small instance (no VIEW): Stream!Progress under weak fairness of Call -- list parsers
SPECIFICATION FairSpec
CONSTANTS
  OffsMod = 65536
  Kind = "urihdrs"
  Atoms <- AtomsUHdr
  MaxLen = 5
  Cfgs <- CfgsOf
  Starts = {0, 3}
  FlagSet = {128}
  PCaps = {0, 1, 2}
  Junk = 34
  EmitOn = FALSE
INVARIANTS ResumeEqFresh
PROPERTIES Progress MonotoneCont
CHECK_DEADLOCK FALSE
