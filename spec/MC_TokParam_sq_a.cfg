\* GENERATED by gen_tokparam_cfgs.py
\* NOTE: the Go adapter (harness/kinds.go skipQuotedObj.obs) prints `{}`; TLC cannot print an empty record, the
\* model emits obs = {"dummy":0}.  Until the adapter prints {"dummy":0} every record of this cfg drifts on obs
\* only (verdict and offset agree).
SPECIFICATION Spec
VIEW view
CONSTANTS
  OffsMod = 65536
  Kind = "skipquoted"
  Atoms <- AtomsSkipQ
  MaxLen = 7
  Cfgs <- CfgsOf
  Starts = {0, 3}
  FlagSet = {0}
  PCaps = {0}
  Junk = 34
  EmitOn = TRUE
INVARIANTS ResumeEqFresh Stable OffsSane Emit
CHECK_DEADLOCK FALSE
