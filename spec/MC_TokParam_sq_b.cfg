\* GENERATED by gen_tokparam_cfgs.py
\* The object is stateless; TLC cannot print an empty record, so the model emits obs = {"dummy":0} and the Go
\* adapter (harness/kinds.go skipQuotedObj.obs) prints the same.
SPECIFICATION Spec
VIEW view
CONSTANTS
  OffsMod = 65536
  Kind = "skipquoted"
  Atoms <- AtomsSkipQ2
  MaxLen = 6
  Cfgs <- CfgsOf
  Starts = {0, 3}
  FlagSet = {0}
  PCaps = {0}
  Junk = 34
  EmitOn = TRUE
INVARIANTS ResumeEqFresh Idempotent Stable OffsSane Emit
PROPERTY MonotoneCont
CHECK_DEADLOCK FALSE
