\* GENERATED by gen_tokparam_cfgs.py
\* POptTokSpTermF (4) with quoted values: the separator position returned when a new token follows the value
\* is `i-1` iff buf[i-1] is LWS, else i (wire a=""a -> (ok,4) one-shot and resumed at 4); it does not depend on
\* the offset the call started at, so ResumeEqFresh holds.
SPECIFICATION Spec
VIEW view
CONSTANTS
  OffsMod = 65536
  Kind = "tokparam"
  Atoms <- AtomsQuote
  MaxLen = 6
  Cfgs <- CfgsOf
  Starts = {0, 3}
  FlagSet = {4}
  PCaps = {0}
  Junk = 34
  EmitOn = TRUE
INVARIANTS ResumeEqFresh Idempotent Stable OffsSane Emit
PROPERTY MonotoneCont
CHECK_DEADLOCK FALSE
