\* GENERATED by gen_tokparam_cfgs.py
\* ResumeEqFresh is not checked: GENUINE DEFECT of ParseTokenParam with POptTokSpTermF (4), reproduced on the
\* real code: the separator position is computed with `if i >= offs+1 {return i-1} else {return i}` where offs
\* is the offset THIS call started at.  wire a=""a : one call -> (ok,3); calls on a="" (more,4) and then
\* a=""a resumed at 4 -> (ok,4).  (The one-shot answer 3 is the closing quote, not a separator, either.)
\* It needs a resume point exactly at the token, which only a quoted value produces.
SPECIFICATION Spec
VIEW view
CONSTANTS
  OffsMod = 65536
  Kind = "tokparam"
  Atoms <- AtomsQuote2
  MaxLen = 7
  Cfgs <- CfgsOf
  Starts = {0, 3}
  FlagSet = {4}
  PCaps = {0}
  Junk = 34
  EmitOn = TRUE
INVARIANTS Stable OffsSane Emit
CHECK_DEADLOCK FALSE
