\* GENERATED by gen_tokparam_cfgs.py
\* POptTokSpTermF without quoted values: ResumeEqFresh holds (see MC_TokParam_tok_f4_quote*.cfg).
SPECIFICATION Spec
VIEW view
CONSTANTS
  OffsMod = 65536
  Kind = "tokparam"
  Atoms <- AtomsSemi
  MaxLen = 6
  Cfgs <- CfgsOf
  Starts = {0, 3}
  FlagSet = {4}
  PCaps = {0}
  Junk = 34
  EmitOn = TRUE
INVARIANTS ResumeEqFresh Stable OffsSane Emit
CHECK_DEADLOCK FALSE
