\* GENERATED by gen_tokparam_cfgs.py
SPECIFICATION Spec
VIEW view
CONSTANTS
  OffsMod = 65536
  Kind = "tokparam"
  Atoms <- AtomsBadQ
  MaxLen = 5
  Cfgs <- CfgsOf
  Starts = {0, 3}
  FlagSet = {0, 128}
  PCaps = {0}
  Junk = 34
  EmitOn = TRUE
INVARIANTS ResumeEqFresh Idempotent Stable OffsSane Emit
PROPERTY MonotoneCont
CHECK_DEADLOCK FALSE
