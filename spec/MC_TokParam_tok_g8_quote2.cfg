\* GENERATED by gen_tokparam_cfgs.py
\* Stable is not checked: POptInputEndF (8) declares the end of the buffer to be the end of the input, so a
\* verdict on a prefix is by construction not the verdict on an extension, e.g. " " -> (eoh,1) but
\* " \n" -> (eoh,2); "a" -> (eoh,1) with Name=[0,1] but "aa" -> (eoh,2) with Name=[0,2].
SPECIFICATION Spec
VIEW view
CONSTANTS
  OffsMod = 65536
  Kind = "tokparam"
  Atoms <- AtomsQuote2
  MaxLen = 6
  Cfgs <- CfgsOf
  Starts = {0, 3}
  FlagSet = {8, 9, 72}
  PCaps = {0}
  Junk = 34
  EmitOn = TRUE
INVARIANTS ResumeEqFresh Idempotent OffsSane Emit
PROPERTY MonotoneCont
CHECK_DEADLOCK FALSE
