\* GENERATED by gen_tokparam_cfgs.py
SPECIFICATION Spec
VIEW view
CONSTANTS
  OffsMod = 65536
  Kind = "tokparam"
  Atoms <- AtomsQuote2A
  MaxLen = 6
  Cfgs <- CfgsOf
  Starts = {0, 3}
  FlagSet = {32, 128}
  PCaps = {0}
  Junk = 34
  EmitOn = TRUE
INVARIANTS ResumeEqFresh Idempotent Stable OffsSane Emit
PROPERTY MonotoneCont
CHECK_DEADLOCK FALSE
