\* GENERATED by gen_tokparam_cfgs.py
SPECIFICATION Spec
VIEW view
CONSTANTS
  OffsMod = 65536
  Kind = "uriparams"
  Atoms <- AtomsQm
  MaxLen = 5
  Cfgs <- CfgsOf
  Starts = {0, 3}
  FlagSet = {64}
  PCaps = {0, 1, 2}
  Junk = 34
  EmitOn = TRUE
INVARIANTS ResumeEqFresh Idempotent Stable OffsSane Emit
PROPERTY MonotoneCont
CHECK_DEADLOCK FALSE
