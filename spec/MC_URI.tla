------------------------------- MODULE MC_URI -------------------------------
(* Exhaustive exploration of ParseURI and the URI views: txt starts as a      *)
(* scheme prefix and grows by atoms up to MaxLen atoms; one fn "ParseURI"     *)
(* oracle record per distinct text for replay on the real code (bin/drift),   *)
(* and the Decl predicates of C14 / C10 / C18(views) on the model result.     *)
EXTENDS URIProps, TLC, Json

CONSTANTS Schemes, Atoms, MaxLen, EmitOn
VARIABLE txt

\* scheme prefixes (cfg files cannot hold tuples)
P_sip   == <<115, 105, 112, 58>>           \* "sip:"
P_SIP   == <<83, 73, 80, 58>>              \* "SIP:"
P_sIp   == <<115, 73, 112, 58>>            \* "sIp:"
P_sips  == <<115, 105, 112, 115, 58>>      \* "sips:"
P_SIPS  == <<83, 73, 80, 83, 58>>          \* "SIPS:"
P_tel   == <<116, 101, 108, 58>>           \* "tel:"
P_TeL   == <<84, 101, 76, 58>>             \* "TeL:"
P_sipx  == <<115, 105, 112, 120>>          \* "sipx"   -> ErrURIScheme (default arm)
P_si    == <<115, 105>>                    \* "si"     -> too short / scheme
P_sipsN == <<115, 105, 112, 115>>          \* "sips"   -> "sips" not followed by ':'
P_sipSUB == <<115, 105, 112, 26>>          \* "sip\x1a": 0x1a | 0x20 = ':'  (accepted as sip: by the code)
P_telSUB == <<116, 101, 108, 26>>          \* "tel\x1a"
\* port configurations: host[:port] without and with a user, empty port and port "6553" so far
P_hp    == <<115, 105, 112, 58, 97, 58>>                         \* "sip:a:"
P_hp6   == <<115, 105, 112, 58, 97, 58, 54, 53, 53, 51>>         \* "sip:a:6553"
P_uhp   == <<115, 105, 112, 58, 97, 64, 98, 58>>                 \* "sip:a@b:"
P_uhp6  == <<115, 105, 112, 58, 97, 64, 98, 58, 54, 53, 53, 51>> \* "sip:a@b:6553"

SchemesAll  == {P_sip, P_SIP, P_sIp, P_sips, P_SIPS, P_tel, P_TeL, P_sipx, P_si, P_sipsN}
SchemesSip  == {P_sip}
SchemesSips == {P_sips}
SchemesTel  == {P_tel}
SchemesSUB  == {P_sipSUB, P_telSUB}
SchemesPort == {P_hp, P_hp6, P_uhp, P_uhp6}
SchemesAdj  == {P_sip, P_sips, P_tel}
SchemesAdj2 == {P_sip, P_tel}

\* atoms:  : @ ; ? & = [ ] . a 1
AtomsURI   == {<<COLON>>, <<AT>>, <<SEMI>>, <<QM>>, <<AMP>>, <<EQ>>, <<LBRACK>>, <<RBRACK>>, <<DOT>>, <<97>>, <<49>>}
\* the delimiters that drive the user/pass/port/param back-tracking, one letter, one digit
AtomsCore  == {<<COLON>>, <<AT>>, <<SEMI>>, <<QM>>, <<LBRACK>>, <<RBRACK>>, <<97>>, <<49>>}
\* ports around 65535 (after "...:6553"): '5' '6' '0' + the delimiters that end a port / turn it into a password
AtomsPort  == {<<COLON>>, <<AT>>, <<SEMI>>, <<QM>>, <<97>>, <<53>>, <<54>>, <<48>>}

\* deep back-tracking of the user part: ';' '?' ':' '@' and one letter, 8 atoms deep (late '@' after parameter / header
\* sections, a second '@', password candidates)
AtomsUser  == {<<COLON>>, <<AT>>, <<SEMI>>, <<QM>>, <<97>>}
\* bracketed host already seen (with and without a user), then port / params / a late '@'
P_br    == <<115, 105, 112, 58, 91, 97, 93>>                     \* "sip:[a]"
P_ubr   == <<115, 105, 112, 58, 97, 64, 91, 97, 93>>             \* "sip:a@[a]"
P_pbr   == <<115, 105, 112, 58, 97, 58, 49, 64, 91, 97, 93>>     \* "sip:a:1@[a]"  (all-digit password)
SchemesBr  == {P_br, P_ubr, P_pbr}
AtomsBr    == {<<COLON>>, <<AT>>, <<SEMI>>, <<QM>>, <<97>>, <<49>>}

IsPrefix(p, t) == Len(p) <= Len(t) /\ SubSeq(t, 1, Len(p)) = p
\* atoms appended so far = length beyond the longest scheme prefix (atoms are single bytes)
NBeyond(t) == Len(t) - MaxOf({Len(p) : p \in {q \in Schemes : IsPrefix(q, t)}})

Init == txt \in Schemes
Next == \E a \in Atoms : NBeyond(txt) + Len(a) <= MaxLen /\ txt' = txt \o a
Spec == Init /\ [][Next]_txt

----------------------------------------------------------------------------
EmitURI == EmitOn => PrintT(ToJson([fn |-> "ParseURI", args |-> [s |-> txt], res |-> URI_Res(txt)]))

LosslessInv       == Lossless(txt, URI_Parse(txt))
\* LosslessInv with the named exception KnownSubColon (see URIProps); used by MC_URI_sub.cfg only
LosslessExceptKnownInv == KnownSubColon(txt) \/ LosslessInv
LosslessStrictInv == LosslessStrict(txt, URI_Parse(txt))
NoStrayAtInv      == NoStrayAt(txt, URI_Parse(txt))
TelLosslessInv    == TelLossless(txt, URI_Parse(txt))
PortExactInv      == PortExact(txt, URI_Parse(txt))
ViewsInv          == ViewsOk(txt, URI_Parse(txt))
\* ViewsInv with the named exception KnownTelPass (see URIProps) so that the rest can be checked
ViewsExceptKnownInv == KnownTelPass(URI_Parse(txt)) \/ ViewsInv
NoPanicInv        == URI_Parse(txt).err \in URIErrors

\* exploration aid: never fails, prints every text on which a Decl predicate is false (bin/drift ignores the lines)
Rep(name, ok) == ok \/ PrintT(<<"VIOL", name, txt>>)
ReportAll == /\ Rep("Lossless", LosslessInv) /\ Rep("LosslessStrict", LosslessStrictInv)
             /\ Rep("NoStrayAt", NoStrayAtInv) /\ Rep("TelLossless", TelLosslessInv)
             /\ Rep("PortExact", PortExactInv) /\ Rep("Views", ViewsInv) /\ Rep("NoPanic", NoPanicInv)
=============================================================================
