SPECIFICATION Spec
CONSTANTS
  OffsMod = 65536
  Schemes <- SchemesAdj2
  Atoms <- AtomsURI
  MaxLen = 4
  EmitOn = TRUE
  Scaled = FALSE
INVARIANTS EmitAdj RelocateInv
CHECK_DEADLOCK FALSE
