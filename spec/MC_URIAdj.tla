------------------------------ MODULE MC_URIAdj ------------------------------
(* AdjustOffs (C18): for every accepted text of the MC_URI exploration, all    *)
(* spans len \in 0..Len(txt)+2 and the target offsets {0, 1, 300,              *)
(* 65535 - Len(txt)}: one fn "AdjustOffs" oracle record each (replayed on the  *)
(* real code by bin/drift) and the Decl predicate RelocateOk on the model.     *)
(* Scaled = TRUE (with OffsMod = 32 in the cfg): model-only exploration of the *)
(* 16 bit wrap boundary, every target offset 0 .. OffsMod-1-Len(txt); no Emit  *)
(* there, the code is fixed at 65536.                                          *)
EXTENDS MC_URI

CONSTANT Scaled

AdjOffsets(t) == IF Scaled THEN 0..(OffsMod - 1 - Len(t)) ELSE {0, 1, 300, OffsMod - 1 - Len(t)}
AdjSpans(t)   == 0..(Len(t) + 2)
Acc           == URI_Parse(txt).err = OK

AdjRec(o, l) == [fn |-> "AdjustOffs", args |-> [s |-> txt, offs |-> o, len |-> l], res |-> AdjustOffs_Res(txt, o, l)]

EmitAdj == EmitOn =>
             IF Acc THEN \A o \in AdjOffsets(txt), l \in AdjSpans(txt) : PrintT(ToJson(AdjRec(o, l)))
             ELSE PrintT(ToJson(AdjRec(0, Len(txt))))                   \* rejected: the record is just [err]

Adj(o, l) == URI_AdjustOffs(URI_Parse(txt).uri, [o |-> o, l |-> l])

RelocateInv == Acc => \A o \in AdjOffsets(txt), l \in AdjSpans(txt) : RelocateOk(txt, o, l, Adj(o, l))

\* not part of C18's quantifier (spans reaching past offset 65535); fails, see URIProps.RelocateNoPanic
RelocateNoPanicInv == Acc => \A o \in AdjOffsets(txt), l \in AdjSpans(txt) : RelocateNoPanic(txt, o, l, Adj(o, l))
=============================================================================
