SPECIFICATION Spec
CONSTANTS
  OffsMod = 65536
  Schemes <- SchemesSip
  Atoms <- AtomsCore
  MaxLen = 5
  EmitOn = TRUE
  Scaled = FALSE
INVARIANTS EmitAdj RelocateInv
CHECK_DEADLOCK FALSE
