\* model-only: 16 bit arithmetic scaled to 5 bits, every in-range target offset; no Emit (the code is fixed at 65536)
SPECIFICATION Spec
CONSTANTS
  OffsMod = 32
  Schemes <- SchemesAdj
  Atoms <- AtomsCore
  MaxLen = 4
  EmitOn = FALSE
  Scaled = TRUE
INVARIANTS RelocateInv
CHECK_DEADLOCK FALSE
