----------------------------- MODULE MC_URICmp -----------------------------
(***************************************************************************)
(* C15: URI comparison obeys the laws of an equivalence check.              *)
(*                                                                          *)
(* Enumerates PAIRS of generated URIs (GenURI) x skip-flag sets and, per    *)
(* pair,                                                                    *)
(*  (a) prints an `auto` record  fn "URICmp"  with the result of the        *)
(*      transcription (URICmp.tla) for the drift check, plus (once per      *)
(*      pair) fn "URIParamsEq" / "URIHdrsEq" records on the two list texts;  *)
(*  (b) prints a `decl` record with the keys the LAWS demand (GU_Demand on  *)
(*      the two abstract records; nothing parses on that side):             *)
(*      always  err1 = err2 = perr = rerr = "ok", r1ok = r2ok = TRUE;       *)
(*      when determined  eq = peq = req = demanded value;                   *)
(*      `same` (when present) names the pair whose answer the case / order  *)
(*      laws say is the same (for a relational check on the Go side);        *)
(*  (c) checks the laws on the MODEL result: Reflexive, Symmetric,          *)
(*      CaseInsensitive, OrderInsensitive, FlagMonotone (+ DemandOnModel,   *)
(*      EntryPointsAgree, GenSane).                                         *)
(*                                                                          *)
(* State: ph (0 = seed, 1 = complete), the CHOICE c (index tuples), the     *)
(* flag set f, and m = what the model answers for this choice (computed     *)
(* once in Next; the invariants are the laws over m).  Seeds are the URI    *)
(* cores (scheme, user, pass, host, port) x parameter lists x flags: their  *)
(* expansion is what TLC's workers share.  Texts are computed from c.       *)
(*                                                                          *)
(* c = <<x, t, w>>   x = <<scheme, user, pass, host, port, params, hdrs>>   *)
(*                   t = the part-specific tail (see Tails)                  *)
(*                   w = <<recase mask, recase mode, swap>>                  *)
(* The pair:  a = Mk(x);  o = the other URI made from a and t;              *)
(*            mm = o with lists permuted;  b = ReCase(mm);                  *)
(*            emitted: (a, b), or (b, a) when swap = 1.                     *)
(***************************************************************************)
EXTENDS URICmp, GenURI, TLC, Json

CONSTANTS Part,                        \* "refl" | "recase" | "permute" | "usercase" | "presence" | "hdrextra" | "allpairs"
          FlagSet,                     \* URICmpFlags values
          SchI, UsrI, PwI, HostI, PortI,           \* index sets into the GenURI tables
          PNameI, PValI, KP,           \* parameter names / values, at most KP parameters
          HNameI, HValI, KH,           \* header names / values, at most KH headers
          XNameI, XValI,               \* presence / hdrextra: the item only one URI has
          Whichs,                      \* usercase: 1 user, 2 password, 3 both
          RCMasks, RCModes,            \* ReCase component masks (0 = none) and modes
          Swaps, Revs,                 \* {0} | {0, 1}
          Dups                         \* TRUE: lists may repeat a name (outside the domain of the laws: drift only)
VARIABLES ph, c, f, m

FlagsStd == {0, 1, 2, 4, 8, 16, 32, 63}
Flags64  == 0..63
FlagsUP    == FlagsStd \cup {12, 5, 10}          \* + user and password both skipped, and two mixed sets
FlagsLists == {0, 16, 32, 48, 63}                \* the flags that matter when only the lists differ
FlagsDrift == {0, 16, 32}

----------------------------------------------------------------------------
\* the choices
UsrPw == {y \in UsrI \X PwI : y[1] = 1 => y[2] = 1}                    \* a password needs a user
Cores == {<<s, up[1], up[2], h, p>> : s \in SchI, up \in UsrPw, h \in HostI, p \in PortI}
PKey(i) == i                                                           \* the parameter names differ modulo case
HKey(i) == GU_Lower(GU_HNames[i])                                      \* "s" and "S" are the same header name
Lists(N, V, k, Key(_)) ==
  UNION { {s \in [1..j -> N \X V] : Dups \/ \A i1, i2 \in 1..j : i1 # i2 => Key(s[i1][1]) # Key(s[i2][1])} : j \in 0..k }
PLists == Lists(PNameI, PValI, KP, PKey)
HLists == Lists(HNameI, HValI, KH, HKey)
\* a seed: a core and a parameter list
Seeds     == Cores \X PLists
Bases(sd) == {<<sd[1][1], sd[1][2], sd[1][3], sd[1][4], sd[1][5], sd[2], hs>> : hs \in HLists}
AllBases  == UNION {Bases(sd) : sd \in Seeds}

PNamesOf(x) == {x[6][i][1] : i \in 1..Len(x[6])}
HKeysOf(x)  == {HKey(x[7][i][1]) : i \in 1..Len(x[7])}
Tails(x) ==
  CASE Part = "permute"  -> {<<pp, hp>> : pp \in GU_Perms(Len(x[6])), hp \in GU_Perms(Len(x[7]))}
    [] Part = "usercase" -> {<<k>> : k \in {k0 \in Whichs : (k0 \in {1, 3} => x[2] # 1) /\ (k0 \in {2, 3} => x[3] # 1)}}
    [] Part = "presence" -> {<<n, v, pos>> : n \in XNameI \ PNamesOf(x), v \in XValI, pos \in {0, Len(x[6])}}
    [] Part = "hdrextra" -> {<<n, v, pos>> : n \in {n \in XNameI : HKey(n) \notin HKeysOf(x)}, v \in XValI, pos \in {0, Len(x[7])}}
    [] Part = "allpairs" -> AllBases \X Revs
    [] OTHER             -> {<<>>}                                     \* refl, recase
W == {w \in RCMasks \X RCModes \X Swaps : w[1] = 0 => w[2] = 0}
Expand(sd) == UNION { {<<x, t, w>> : t \in Tails(x), w \in W} : x \in Bases(sd) }

PairOf(ch) ==
  LET x == ch[1]  t == ch[2]  w == ch[3]
      a == GU_Mk(x)
      o == CASE Part = "usercase" -> GU_OtherCase(a, t[1])
             [] Part = "presence" -> GU_AddParam(a, t[3], <<t[1], t[2]>>)
             [] Part = "hdrextra" -> GU_AddHdr(a, t[3], <<t[1], t[2]>>)
             [] Part = "allpairs" -> GU_Mk(t[1])
             [] OTHER             -> a
      mm == CASE Part = "permute"  -> GU_Permute(o, t[1], t[2])
              [] Part = "allpairs" -> IF t[2] = 1 THEN GU_Reverse(o) ELSE o
              [] OTHER             -> o
      b == IF w[1] = 0 THEN mm ELSE GU_ReCase(mm, w[1], w[2])
  IN [a |-> a, o |-> o, mm |-> mm, b |-> b, swap |-> w[3], mask |-> w[1],
      first |-> IF w[3] = 1 THEN b ELSE a, second |-> IF w[3] = 1 THEN a ELSE b]

----------------------------------------------------------------------------
\* the generated text reads back as its components (the model's ParseURI on the generator's text): generator sanity
GhostOk(u, s, p) ==
  /\ p.err = OK /\ p.offs = Len(s)
  /\ p.uri.type = (IF GU_Lower(u.scheme) = GU_sip THEN SU!SIPuri ELSE SU!SIPSuri)
  /\ PFGet(s, p.uri.scheme) = u.scheme \o <<COLON>>
  /\ PFGet(s, p.uri.user) = u.user /\ PFGet(s, p.uri.pass) = u.pass
  /\ PFGet(s, p.uri.host) = u.host /\ PFGet(s, p.uri.port) = u.port
  /\ PFGet(s, p.uri.params) = GU_ParamsText(u) /\ PFGet(s, p.uri.headers) = GU_HdrsText(u)

\* what the model answers for a choice: every (expensive) evaluation of the transcription happens here, once.
\* UX(s): a URI text with everything the compare functions compute from it alone (ParseURI, the two list texts and
\* their parsed lists); CmpOf(X, Y, fl) = URICmpX on two of them, sharing those sub-results (URICmp.tla, *K forms).
UX(s) == LET p  == SU!URI_Parse(s)
             pt == IF p.err = OK THEN PFGet(s, p.uri.params) ELSE <<>>
             ht == IF p.err = OK THEN PFGet(s, p.uri.headers) ELSE <<>>
         IN [s |-> s, p |-> p, pt |-> pt, ht |-> ht, lp |-> URIParamsParse(pt, 0), lh |-> URIHdrsParse(ht, 0)]
CmpOf(X, Y, fl) == URICmpK(URICmpShort(X.p.uri, X.s, Y.p.uri, Y.s, fl),
                           URIParamsEqK(X.lp, X.pt, Y.lp, Y.pt), URIHdrsEqK(X.lh, X.ht, Y.lh, Y.ht), fl)
ModelOf(ch, g) ==
  LET P  == PairOf(ch)
      A  == UX(GU_Render(P.a))
      Bb == IF P.b = P.a THEN A ELSE UX(GU_Render(P.b))
      Mm == IF P.mm = P.b THEN Bb ELSE IF P.mm = P.a THEN A ELSE UX(GU_Render(P.mm))
      Oo == IF P.o = P.mm THEN Mm ELSE IF P.o = P.a THEN A ELSE UX(GU_Render(P.o))
      E(X, Y, fl) == X.p.err = OK /\ Y.p.err = OK /\ CmpOf(X, Y, fl).eq
      X1 == IF P.swap = 1 THEN Bb ELSE A
      X2 == IF P.swap = 1 THEN A ELSE Bb
      res == URICmp_ResK(X1.p, X1.s, X2.p, X2.s, g, CmpOf(X1, X2, g))
      ok  == A.p.err = OK /\ Bb.p.err = OK /\ "eq" \in DOMAIN res
      e12 == ok /\ res.eq
      e21 == IF P.a = P.b THEN e12 ELSE E(X2, X1, g)
      eab == IF P.swap = 1 THEN e21 ELSE e12
      eaa == IF P.a = P.b THEN eab ELSE E(A, A, g)
      ebb == IF P.a = P.b THEN eab ELSE E(Bb, Bb, g)
      eam == IF P.mm = P.b THEN eab ELSE E(A, Mm, g)
      eao == IF P.o = P.mm THEN eam ELSE E(A, Oo, g)
  IN [res |-> res, ok |-> ok, e12 |-> e12, e21 |-> e21, eab |-> eab, eaa |-> eaa, ebb |-> ebb, eam |-> eam, eao |-> eao,
      mono  |-> eab => \A h \in FlagSet : (h # g /\ GU_FlagsSub(g, h)) => E(A, Bb, h),
      ghost |-> GhostOk(P.a, A.s, A.p) /\ GhostOk(P.b, Bb.s, Bb.p),
      d |-> GU_Demand(P.a, P.b, g), dsym |-> GU_Demand(P.b, P.a, g)]       \* what the laws demand (generator side)

Init == ph = 0 /\ c \in Seeds /\ f \in FlagSet /\ m = <<>>
Next == /\ ph = 0 /\ ph' = 1 /\ f' = f
        /\ c' \in Expand(c)
        /\ m' = ModelOf(c', f)
Spec == Init /\ [][Next]_<<ph, c, f, m>>

----------------------------------------------------------------------------
\* oracle records
FMin == CHOOSE g \in FlagSet : \A h \in FlagSet : g <= h
DeclRes(d) ==
  LET base == [err1 |-> "ok", err2 |-> "ok", perr |-> "ok", rerr |-> "ok", r1ok |-> TRUE, r2ok |-> TRUE] IN
    IF d = "none" THEN base ELSE base @@ [eq |-> d = "eq", peq |-> d = "eq", req |-> d = "eq"]
Emit == ph = 1 =>
  LET P  == PairOf(c)
      s1 == GU_Render(P.first)
      s2 == GU_Render(P.second)
      ar == [s |-> s1, s2 |-> s2, flags |-> f]
      p1 == GU_ParamsText(P.first)   p2 == GU_ParamsText(P.second)
      h1 == GU_HdrsText(P.first)     h2 == GU_HdrsText(P.second)
      \* the pair the case / order laws relate this one to: b replaced by o (its origin before Permute and ReCase)
      so == GU_Render(P.o)
      dr == [fn |-> "URICmp", args |-> ar, res |-> DeclRes(m.d), src |-> "decl", prop |-> "C15"]
  IN /\ PrintT(ToJson([fn |-> "URICmp", args |-> ar, res |-> m.res, src |-> "auto"]))
     /\ PrintT(ToJson(IF P.o = P.b \/ GU_Bit(P.mask, RC_HVALS) THEN dr
                      ELSE dr @@ [same |-> IF P.swap = 1 THEN [s |-> so, s2 |-> s2, flags |-> f]
                                                         ELSE [s |-> s1, s2 |-> so, flags |-> f]]))
     /\ (f = FMin =>
           /\ PrintT(ToJson([fn |-> "URIParamsEq", args |-> [s |-> p1, s2 |-> p2], res |-> URIParamsEq_Res(p1, p2), src |-> "auto"]))
           /\ PrintT(ToJson([fn |-> "URIHdrsEq", args |-> [s |-> h1, s2 |-> h2], res |-> URIHdrsEq_Res(h1, h2), src |-> "auto"])))

----------------------------------------------------------------------------
\* the laws, on the model result
Reflexive        == ph = 1 => m.eaa /\ m.ebb
Symmetric        == ph = 1 => m.e12 = m.e21
\* b = ReCase(mm): the answer for (a, b) is the answer for (a, mm)       (mask bit 32, header values, is not a law)
CaseInsensitive  == ph = 1 => (GU_Bit(c[3][1], RC_HVALS) \/ m.eab = m.eam)
\* mm = Permute(o): the answer for (a, mm) is the answer for (a, o)
OrderInsensitive == ph = 1 => m.eam = m.eao
\* for flag sets F subset of G (both in FlagSet): equal under F => equal under G
FlagMonotone     == ph = 1 => m.mono
\* parse-and-compare and raw compare agree with parsing separately, on the model
EntryPointsAgree == ph = 1 => /\ m.ok
                              /\ m.res.peq = m.res.eq /\ m.res.req = m.res.eq
                              /\ m.res.perr = OK /\ m.res.rerr = OK /\ m.res.r1ok /\ m.res.r2ok
\* the model (mirror of the code) gives what the laws demand: a failure here predicts a decl mismatch on the code
DemandOnModel    == ph = 1 => (m.d = "eq" => m.eab) /\ (m.d = "ne" => ~m.eab)
\* sanity of the generator itself
GenSane == ph = 1 => LET P == PairOf(c) IN
             /\ m.ghost
             /\ m.d = m.dsym
             /\ ((~Dups /\ {GU_IRREG, GU_BADV} \cap (PValI \cup HValI \cup XValI) = {}) => GU_WellFormed(P.a) /\ GU_WellFormed(P.b))
=============================================================================
