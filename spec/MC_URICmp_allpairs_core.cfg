\* GENERATED by gen_uricmp_cfgs.py
\* all ordered pairs over scheme x user x password x host x port (no lists), plain and with scheme+host re-cased.
SPECIFICATION Spec
CONSTANTS
  OffsMod = 65536
  Part = "allpairs"
  FlagSet <- FlagsStd
  SchI = {1, 2}
  UsrI = {1, 2, 3}
  PwI = {1, 2, 3}
  HostI = {1, 2, 3}
  PortI = {1, 2}
  PNameI = {}
  PValI = {}
  KP = 0
  HNameI = {}
  HValI = {}
  KH = 0
  XNameI = {}
  XValI = {}
  Whichs = {}
  RCMasks = {0, 3}
  RCModes = {0}
  Swaps = {0}
  Revs = {0}
  Dups = FALSE
INVARIANTS Emit Reflexive Symmetric CaseInsensitive OrderInsensitive FlagMonotone EntryPointsAgree DemandOnModel GenSane
CHECK_DEADLOCK FALSE
