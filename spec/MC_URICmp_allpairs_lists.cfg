\* GENERATED by gen_uricmp_cfgs.py
\* all ordered pairs over parameter and header lists (one core), plain / reversed / names and values re-cased.
SPECIFICATION Spec
CONSTANTS
  OffsMod = 65536
  Part = "allpairs"
  FlagSet <- FlagsLists
  SchI = {1}
  UsrI = {2}
  PwI = {1}
  HostI = {1}
  PortI = {1}
  PNameI = {2, 7}
  PValI = {1, 2}
  KP = 2
  HNameI = {1, 3}
  HValI = {2, 4}
  KH = 1
  XNameI = {}
  XValI = {}
  Whichs = {}
  RCMasks = {0, 28}
  RCModes = {0}
  Swaps = {0}
  Revs = {0, 1}
  Dups = FALSE
INVARIANTS Emit Reflexive Symmetric CaseInsensitive OrderInsensitive FlagMonotone EntryPointsAgree DemandOnModel GenSane
CHECK_DEADLOCK FALSE
