\* every pair of small cores (two schemes, user / password present or not, four hosts incl. IPv6 / IPv4, two ports) x all 64 flag sets
\* all ordered pairs over scheme x user x password x host x port (no lists), plain and with scheme+host re-cased.
SPECIFICATION Spec
CONSTANTS
  OffsMod = 65536
  Part = "allpairs"
  FlagSet <- Flags64
  SchI = {1, 2}
  UsrI = {1, 2}
  PwI = {1, 2}
  HostI = {1, 3, 4, 5}
  PortI = {1, 2}
  PNameI = {}
  PValI = {}
  KP = 0
  HNameI = {}
  HValI = {}
  KH = 0
  XNameI = {}
  XValI = {}
  Whichs = {}
  RCMasks = {0}
  RCModes = {0}
  Swaps = {0}
  Revs = {0}
  Dups = FALSE
INVARIANTS Emit Reflexive Symmetric CaseInsensitive OrderInsensitive FlagMonotone EntryPointsAgree DemandOnModel GenSane
CHECK_DEADLOCK FALSE
