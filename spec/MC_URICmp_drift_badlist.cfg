\* GENERATED by gen_uricmp_cfgs.py
\* DRIFT ONLY: values that are not tokens (the list parser fails, the URIs compare as different).
SPECIFICATION Spec
CONSTANTS
  OffsMod = 65536
  Part = "allpairs"
  FlagSet <- FlagsDrift
  SchI = {1}
  UsrI = {2}
  PwI = {1}
  HostI = {1}
  PortI = {1}
  PNameI = {1, 7}
  PValI = {2, 6}
  KP = 2
  HNameI = {1, 3}
  HValI = {2, 6}
  KH = 1
  XNameI = {}
  XValI = {}
  Whichs = {}
  RCMasks = {0}
  RCModes = {0}
  Swaps = {0}
  Revs = {0}
  Dups = FALSE
INVARIANTS Emit EntryPointsAgree GenSane
CHECK_DEADLOCK FALSE
