\* GENERATED by gen_uricmp_cfgs.py
\* DRIFT ONLY: lists with duplicate names (outside the domain of the laws).
SPECIFICATION Spec
CONSTANTS
  OffsMod = 65536
  Part = "allpairs"
  FlagSet <- FlagsDrift
  SchI = {1}
  UsrI = {2}
  PwI = {1}
  HostI = {1}
  PortI = {1}
  PNameI = {7}
  PValI = {2, 4}
  KP = 2
  HNameI = {1, 2}
  HValI = {2, 4}
  KH = 2
  XNameI = {}
  XValI = {}
  Whichs = {}
  RCMasks = {0}
  RCModes = {0}
  Swaps = {0}
  Revs = {0}
  Dups = TRUE
INVARIANTS Emit EntryPointsAgree GenSane
CHECK_DEADLOCK FALSE
