\* GENERATED by gen_uricmp_cfgs.py
\* all 64 flag sets over all ordered pairs of a small universe (scheme, user case, port, one parameter, one header).
SPECIFICATION Spec
CONSTANTS
  OffsMod = 65536
  Part = "allpairs"
  FlagSet <- Flags64
  SchI = {1, 2}
  UsrI = {2, 3}
  PwI = {2}
  HostI = {1}
  PortI = {1, 2}
  PNameI = {2, 7}
  PValI = {2}
  KP = 1
  HNameI = {1}
  HValI = {2}
  KH = 1
  XNameI = {}
  XValI = {}
  Whichs = {}
  RCMasks = {0}
  RCModes = {0}
  Swaps = {0}
  Revs = {0}
  Dups = FALSE
INVARIANTS Emit Reflexive Symmetric CaseInsensitive OrderInsensitive FlagMonotone EntryPointsAgree DemandOnModel GenSane
CHECK_DEADLOCK FALSE
