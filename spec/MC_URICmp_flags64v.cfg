\* GENERATED by gen_uricmp_cfgs.py
\* all 64 flag sets over (u, ReCase(u)) variants.
SPECIFICATION Spec
CONSTANTS
  OffsMod = 65536
  Part = "recase"
  FlagSet <- Flags64
  SchI = {1, 2}
  UsrI = {1, 2}
  PwI = {1, 2}
  HostI = {1}
  PortI = {1, 2}
  PNameI = {1, 7}
  PValI = {2}
  KP = 2
  HNameI = {1}
  HValI = {2}
  KH = 1
  XNameI = {}
  XValI = {}
  Whichs = {}
  RCMasks = {31}
  RCModes = {0, 1}
  Swaps = {0, 1}
  Revs = {0}
  Dups = FALSE
INVARIANTS Emit Reflexive Symmetric CaseInsensitive OrderInsensitive FlagMonotone EntryPointsAgree DemandOnModel GenSane
CHECK_DEADLOCK FALSE
