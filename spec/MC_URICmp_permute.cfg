\* GENERATED by gen_uricmp_cfgs.py
\* (u, Permute(u)) and swapped: every permutation of up to 3 parameters and up to 2 headers.  Demanded: equal.
SPECIFICATION Spec
CONSTANTS
  OffsMod = 65536
  Part = "permute"
  FlagSet <- FlagsStd
  SchI = {1}
  UsrI = {2}
  PwI = {1}
  HostI = {1}
  PortI = {1}
  PNameI = {1, 2, 7}
  PValI = {1, 2}
  KP = 3
  HNameI = {1, 3}
  HValI = {2}
  KH = 2
  XNameI = {}
  XValI = {}
  Whichs = {}
  RCMasks = {0}
  RCModes = {0}
  Swaps = {0, 1}
  Revs = {0}
  Dups = FALSE
INVARIANTS Emit Reflexive Symmetric CaseInsensitive OrderInsensitive FlagMonotone EntryPointsAgree DemandOnModel GenSane
CHECK_DEADLOCK FALSE
