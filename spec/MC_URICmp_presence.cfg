\* GENERATED by gen_uricmp_cfgs.py
\* (u, u + one of user / ttl / method / maddr).  Demanded: different unless parameters are skipped.
SPECIFICATION Spec
CONSTANTS
  OffsMod = 65536
  Part = "presence"
  FlagSet <- FlagsStd
  SchI = {1}
  UsrI = {1, 2}
  PwI = {1}
  HostI = {1}
  PortI = {1}
  PNameI = {1, 2, 7}
  PValI = {1, 2}
  KP = 2
  HNameI = {1}
  HValI = {2}
  KH = 1
  XNameI = {2, 3, 4, 5}
  XValI = {1, 2}
  Whichs = {}
  RCMasks = {0, 31}
  RCModes = {0}
  Swaps = {0, 1}
  Revs = {0}
  Dups = FALSE
INVARIANTS Emit Reflexive Symmetric CaseInsensitive OrderInsensitive FlagMonotone EntryPointsAgree DemandOnModel GenSane
CHECK_DEADLOCK FALSE
