\* GENERATED by gen_uricmp_cfgs.py
\* PROBE: empty value vs missing value (';foo' / ';foo=' / ';foo=a', '?s=' / '?s' / '?s=a'): irregular spellings, outside the domain.
SPECIFICATION Spec
CONSTANTS
  OffsMod = 65536
  Part = "allpairs"
  FlagSet <- FlagsLists
  SchI = {1}
  UsrI = {2}
  PwI = {1}
  HostI = {1}
  PortI = {1}
  PNameI = {1, 7}
  PValI = {1, 5, 2}
  KP = 2
  HNameI = {1}
  HValI = {1, 5, 2}
  KH = 1
  XNameI = {}
  XValI = {}
  Whichs = {}
  RCMasks = {0}
  RCModes = {0}
  Swaps = {0}
  Revs = {0}
  Dups = FALSE
INVARIANTS Emit Reflexive Symmetric CaseInsensitive OrderInsensitive FlagMonotone EntryPointsAgree DemandOnModel GenSane
CHECK_DEADLOCK FALSE
