\* GENERATED by gen_uricmp_cfgs.py
\* PROBE: a parameter only one URI has that is NOT user/ttl/method/maddr (transport, lr, foo, bar).
SPECIFICATION Spec
CONSTANTS
  OffsMod = 65536
  Part = "presence"
  FlagSet <- FlagsStd
  SchI = {1}
  UsrI = {1, 2}
  PwI = {1}
  HostI = {1}
  PortI = {1}
  PNameI = {1, 2, 7}
  PValI = {1, 2}
  KP = 2
  HNameI = {1}
  HValI = {2}
  KH = 1
  XNameI = {1, 6, 7, 8}
  XValI = {1, 2}
  Whichs = {}
  RCMasks = {0, 31}
  RCModes = {0}
  Swaps = {0, 1}
  Revs = {0}
  Dups = FALSE
INVARIANTS Emit Reflexive Symmetric CaseInsensitive OrderInsensitive FlagMonotone EntryPointsAgree DemandOnModel GenSane
CHECK_DEADLOCK FALSE
