\* GENERATED by gen_uricmp_cfgs.py
\* PROBE: a header only one URI has (header lists of different lengths).
SPECIFICATION Spec
CONSTANTS
  OffsMod = 65536
  Part = "hdrextra"
  FlagSet <- FlagsStd
  SchI = {1}
  UsrI = {1, 2}
  PwI = {1}
  HostI = {1}
  PortI = {1}
  PNameI = {1, 7}
  PValI = {2}
  KP = 1
  HNameI = {1, 2, 3}
  HValI = {1, 2}
  KH = 2
  XNameI = {1, 2, 3}
  XValI = {1, 2}
  Whichs = {}
  RCMasks = {0, 31}
  RCModes = {0}
  Swaps = {0, 1}
  Revs = {0}
  Dups = FALSE
INVARIANTS Emit Reflexive Symmetric CaseInsensitive OrderInsensitive FlagMonotone EntryPointsAgree DemandOnModel GenSane
CHECK_DEADLOCK FALSE
