\* GENERATED by gen_uricmp_cfgs.py
\* PROBE: letter case of header VALUES (not covered by the property text).
SPECIFICATION Spec
CONSTANTS
  OffsMod = 65536
  Part = "recase"
  FlagSet <- FlagsStd
  SchI = {1}
  UsrI = {2}
  PwI = {1}
  HostI = {1}
  PortI = {1}
  PNameI = {7}
  PValI = {2}
  KP = 1
  HNameI = {1, 3}
  HValI = {2, 3, 4}
  KH = 2
  XNameI = {}
  XValI = {}
  Whichs = {}
  RCMasks = {32, 63}
  RCModes = {0}
  Swaps = {0, 1}
  Revs = {0}
  Dups = FALSE
INVARIANTS Emit Reflexive Symmetric CaseInsensitive OrderInsensitive FlagMonotone EntryPointsAgree DemandOnModel GenSane
CHECK_DEADLOCK FALSE
