\* GENERATED by gen_uricmp_cfgs.py
\* (u, ReCase(u)) and (ReCase(u), u): scheme / host / param names / param values / header names.  Demanded: equal.
SPECIFICATION Spec
CONSTANTS
  OffsMod = 65536
  Part = "recase"
  FlagSet <- FlagsStd
  SchI = {1, 2}
  UsrI = {1, 2}
  PwI = {1}
  HostI = {1, 2, 4}
  PortI = {1}
  PNameI = {1, 7}
  PValI = {2, 3}
  KP = 2
  HNameI = {1, 2}
  HValI = {2}
  KH = 1
  XNameI = {}
  XValI = {}
  Whichs = {}
  RCMasks = {1, 2, 4, 8, 16, 31}
  RCModes = {0, 1}
  Swaps = {0, 1}
  Revs = {0}
  Dups = FALSE
INVARIANTS Emit Reflexive Symmetric CaseInsensitive OrderInsensitive FlagMonotone EntryPointsAgree DemandOnModel GenSane
CHECK_DEADLOCK FALSE
