\* GENERATED by gen_uricmp_cfgs.py
\* reflexivity: (u, u).  Demanded: equal.
SPECIFICATION Spec
CONSTANTS
  OffsMod = 65536
  Part = "refl"
  FlagSet <- FlagsStd
  SchI = {1, 2}
  UsrI = {1, 2, 3}
  PwI = {1, 2}
  HostI = {1, 2, 4}
  PortI = {1, 2}
  PNameI = {1, 2, 6, 7}
  PValI = {1, 2}
  KP = 2
  HNameI = {1, 3}
  HValI = {1, 2}
  KH = 1
  XNameI = {}
  XValI = {}
  Whichs = {}
  RCMasks = {0}
  RCModes = {0}
  Swaps = {0}
  Revs = {0}
  Dups = FALSE
INVARIANTS Emit Reflexive Symmetric CaseInsensitive OrderInsensitive FlagMonotone EntryPointsAgree DemandOnModel GenSane
CHECK_DEADLOCK FALSE
