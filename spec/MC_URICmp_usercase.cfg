\* GENERATED by gen_uricmp_cfgs.py
\* (u, v), v = u except the letter case of user / password / both (+ ReCase of the rest).  Demanded: different unless skipped.
SPECIFICATION Spec
CONSTANTS
  OffsMod = 65536
  Part = "usercase"
  FlagSet <- FlagsUP
  SchI = {1, 2}
  UsrI = {2, 3}
  PwI = {1, 2, 3}
  HostI = {1}
  PortI = {1, 2}
  PNameI = {1, 7}
  PValI = {2}
  KP = 1
  HNameI = {1}
  HValI = {2}
  KH = 1
  XNameI = {}
  XValI = {}
  Whichs = {1, 2, 3}
  RCMasks = {0, 3, 12, 16, 31}
  RCModes = {0, 1}
  Swaps = {0, 1}
  Revs = {0}
  Dups = FALSE
INVARIANTS Emit Reflexive Symmetric CaseInsensitive OrderInsensitive FlagMonotone EntryPointsAgree DemandOnModel GenSane
CHECK_DEADLOCK FALSE
