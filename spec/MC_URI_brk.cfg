SPECIFICATION Spec
CONSTANTS
  OffsMod = 65536
  Schemes <- SchemesBr
  Atoms <- AtomsBr
  MaxLen = 6
  EmitOn = TRUE
INVARIANTS EmitURI NoPanicInv LosslessInv PortExactInv ViewsExceptKnownInv
CHECK_DEADLOCK FALSE
