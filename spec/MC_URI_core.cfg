SPECIFICATION Spec
CONSTANTS
  OffsMod = 65536
  Schemes <- SchemesSip
  Atoms <- AtomsCore
  MaxLen = 6
  EmitOn = TRUE
INVARIANTS EmitURI NoPanicInv LosslessInv PortExactInv ViewsExceptKnownInv
CHECK_DEADLOCK FALSE
