SPECIFICATION Spec
CONSTANTS
  OffsMod = 65536
  Schemes <- SchemesSip
  Atoms <- AtomsUser
  MaxLen = 8
  EmitOn = TRUE
INVARIANTS EmitURI NoPanicInv LosslessInv PortExactInv ViewsExceptKnownInv
CHECK_DEADLOCK FALSE
