SPECIFICATION Spec
CONSTANTS
  OffsMod = 65536
  Schemes <- SchemesPort
  Atoms <- AtomsPort
  MaxLen = 5
  EmitOn = TRUE
INVARIANTS EmitURI NoPanicInv LosslessInv PortExactInv ViewsExceptKnownInv
CHECK_DEADLOCK FALSE
