SPECIFICATION Spec
CONSTANTS
  OffsMod = 65536
  Schemes <- SchemesAll
  Atoms <- AtomsURI
  MaxLen = 4
  EmitOn = TRUE
INVARIANTS EmitURI NoPanicInv LosslessInv PortExactInv ViewsExceptKnownInv
CHECK_DEADLOCK FALSE
