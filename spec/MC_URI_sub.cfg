\* scheme prefixes "sip\x1a" / "tel\x1a": accepted by the code (0x1a | 0x20 = ':').  LosslessInv FAILS here
\* (genuine defect, see URIProps.KnownSubColon); LosslessExceptKnownInv lets the drift check run.
SPECIFICATION Spec
CONSTANTS
  OffsMod = 65536
  Schemes <- SchemesSUB
  Atoms <- AtomsURI
  MaxLen = 4
  EmitOn = TRUE
INVARIANTS EmitURI NoPanicInv LosslessExceptKnownInv PortExactInv ViewsExceptKnownInv
CHECK_DEADLOCK FALSE
