------------------------------- MODULE MsgSig -------------------------------
(***************************************************************************)
(* msg_sig.go: the message signature (property C19).                        *)
(*  Part A (Decl)  SigHdrModel: what the property DEMANDS for the header    *)
(*                 order part, computed from the generator's ghost (header  *)
(*                 types + name lengths in message order) -- no loop, no    *)
(*                 flags: "ordered first occurrences of fingerprinted types".*)
(*  Part B (Auto)  transcription of GetHdrSigId / the GetMsgSig loop /      *)
(*                 MsgSig.String over an abstract parsed message            *)
(*                 [req, Method, N, PFlags, Hdrs = cap entries [Type,NameLen]].*)
(* The string class signatures (CidSig, CidSLen, FromSig, ViaBSig) are left *)
(* uninterpreted: parameters of String, checked relationally on the code    *)
(* (messages sharing the strings must share the flags: key `grp`).          *)
(***************************************************************************)
EXTENDS Lookup

\* ------------------------------------------------------------------ tables
\* var sigHdrs: position in this list = header_num_id
SigHdrs       == <<HdrCallID, HdrContact, HdrCSeq, HdrFrom, HdrMaxFwd, HdrTo, HdrVia, HdrUA>>
NoSigHdrs     == Len(SigHdrs)
HdrSigIdCMask == 8
MInvite       == 2                      \* parse_method.go iota: MUndef 0, MRegister 1, MInvite 2
SigHdrSet     == { SigHdrs[i] : i \in 1..NoSigHdrs }        \* sigHdrsFlags as a set of bit numbers
\* init(): hdr2SigId[t] = index of t in sigHdrs, 0xff when absent
Hdr2SigId(t)  == IF t \in SigHdrSet THEN (CHOOSE i \in 1..NoSigHdrs : SigHdrs[i] = t) - 1 ELSE 255

\* =========================================================================
\* Part A: Decl.   hdrs: sequence of [type |-> HdrT, nlen |-> length of the header name] in message order
\* =========================================================================
Fingerprinted(method, t) == t \in SigHdrSet /\ (t = HdrContact => method = MInvite)
FirstOcc(hdrs, k)        == \A j \in 1..(k - 1) : hdrs[j].type # hdrs[k].type
\* documented id: compact | header_num_id
DeclSigId(h)             == Hdr2SigId(h.type) + (IF h.nlen = 1 THEN HdrSigIdCMask ELSE 0)
\* positions that contribute, in message order
RECURSIVE DeclCollect(_, _, _)
DeclCollect(method, hdrs, k) ==
  IF k > Len(hdrs) THEN <<>>
  ELSE (IF Fingerprinted(method, hdrs[k].type) /\ FirstOcc(hdrs, k) THEN <<DeclSigId(hdrs[k])>> ELSE <<>>)
       \o DeclCollect(method, hdrs, k + 1)
AtMost(s, n)  == IF Len(s) > n THEN SubSeq(s, 1, n) ELSE s
\* the header-order signature of the whole message (what a large enough header array must give)
FullHdrSig(method, hdrs) == AtMost(DeclCollect(method, hdrs, 1), NoSigHdrs)

Cap(hcap) == IF hcap < 0 THEN 10 ELSE hcap          \* nil header array = the built-in 10 entries
\* SigHdrModel: fits = every header of the message is stored;  then the result is exact.
\* Otherwise (Truncated-or-same): err = "trunc", OR the result equals the full-capacity one.
SigHdrModel(method, hdrs, hcap) ==
  LET full == FullHdrSig(method, hdrs) IN
  [fits |-> Len(hdrs) <= Cap(hcap), Method |-> method, HdrSig |-> full, HdrSigLen |-> Len(full)]
\* does a real / transcribed result r = [err, Method, HdrSig, HdrSigLen] satisfy the demand d = SigHdrModel(..)?
SameAsFull(d, r) == r.err = OK /\ r.Method = d.Method /\ r.HdrSig = d.HdrSig /\ r.HdrSigLen = d.HdrSigLen
Satisfies(d, r)  == /\ r.HdrSigLen <= NoSigHdrs /\ Len(r.HdrSig) = r.HdrSigLen
                    /\ IF d.fits THEN SameAsFull(d, r) ELSE (r.err = TRUNC \/ SameAsFull(d, r))
\* replies: no signature
ReplyDemand(r)   == r.err = EMPTY /\ r.HdrSigLen = 0

\* text rendering demanded: "" or  ^[0-9a-f][0-9a-f]{0,8}I[0-9a-f]{6}F[0-9a-f]{4}V[0-9a-f]{4}$   (byte sequence)
IsHexLc(c) == IsDigit(c) \/ (c >= 97 /\ c <= 102)
AllHex(s, a, b) == \A i \in a..b : IsHexLc(s[i])
StringWellFormed(str) ==
  \/ Len(str) = 0
  \/ \E n \in 1..9 :                    \* n hex digits: method + 0..8 header ids
        /\ Len(str) = n + 1 + 6 + 1 + 4 + 1 + 4
        /\ AllHex(str, 1, n)
        /\ str[n + 1] = 73  /\ AllHex(str, n + 2, n + 7)            \* 'I' cid flags (4) + len (2)
        /\ str[n + 8] = 70  /\ AllHex(str, n + 9, n + 12)           \* 'F'
        /\ str[n + 13] = 86 /\ AllHex(str, n + 14, n + 17)          \* 'V'

\* the header part of the rendering as a TLA+ string (for records: the real String must start with it + "I")
HexS == <<"0", "1", "2", "3", "4", "5", "6", "7", "8", "9", "a", "b", "c", "d", "e", "f">>
RECURSIVE HexCat(_, _)
HexCat(ids, k) == IF k > Len(ids) THEN "" ELSE HexS[(ids[k] % 16) + 1] \o HexCat(ids, k + 1)
StrHdrPart(method, ids) == HexS[(method % 16) + 1] \o HexCat(ids, 1)

\* =========================================================================
\* Part B: Auto (transcription).  h = [Type, NameLen]
\* =========================================================================
\* func GetHdrSigId(h Hdr) (HdrSigId, ErrorHdr)
GetHdrSigId(h) ==
  IF h.Type >= HdrOther + 1 \/ h.Type < 0 THEN [s |-> 255, err |-> BUG]
  ELSE LET s == Hdr2SigId(h.Type) IN
       IF s # 255 THEN
            IF h.NameLen = 1 THEN [s |-> HdrSigIdCMask + s, err |-> OK]      \* HdrSigIdCMask | s, s < 8
            ELSE [s |-> s, err |-> OK]
       ELSE [s |-> 255, err |-> BAD]

\* zero value of MsgSig; HdrSig holds the HdrSigLen entries written so far (the array is [8], the rest stays 0);
\* ViaIdx: 1-based index in Hdrs of the Via whose value went to GetViaBrSig (0: none, ViaBSig stays 0);
\* Cid / From: uninterpreted -- taken from msg.PV (the FIRST parsed Call-ID / From, stored or not)
Sig0 == [Method |-> MUndef, HdrSig |-> <<>>, HdrSigLen |-> 0, ViaIdx |-> 0]

\* for _, h := range msg.HL.Hdrs { ... }  then the N > len(Hdrs) test.   PFlags / seen: sets of bit numbers
RECURSIVE MS_Run(_, _, _, _)
MS_Run(msg, k, seen, sig) ==
  IF k > Len(msg.Hdrs) THEN
       IF msg.N > Len(msg.Hdrs) THEN [sig |-> sig, err |-> TRUNC] ELSE [sig |-> sig, err |-> OK]
  ELSE LET h == msg.Hdrs[k] IN
       IF h.Type \in seen THEN MS_Run(msg, k + 1, seen, sig)
       ELSE LET seen1 == seen \cup {h.Type}
                sig1  == IF h.Type = HdrVia THEN [sig EXCEPT !.ViaIdx = k] ELSE sig
                r     == GetHdrSigId(h)
                \* skip over Contact for non-Invites
                add   == r.err = OK /\ (h.Type # HdrContact \/ sig.Method = MInvite)
                sig2  == IF add THEN [sig1 EXCEPT !.HdrSig = Append(@, r.s), !.HdrSigLen = @ + 1] ELSE sig1
            IN IF add /\ sig2.HdrSigLen >= NoSigHdrs THEN [sig |-> sig2, err |-> OK]
               \* NOTE: `seen` also collects non-fingerprinted types (HdrOther, HdrNone of unused entries, ...):
               \* once one of those was seen this equality can never hold (only an optimisation is lost, but with
               \* N > len(Hdrs) the result is then "trunc" although every fingerprinted header was inspected).
               ELSE IF (msg.PFlags \cap SigHdrSet) = seen1 THEN [sig |-> sig2, err |-> OK]
               ELSE MS_Run(msg, k + 1, seen1, sig2)

\* func GetMsgSig(msg *PSIPMsg) (MsgSig, ErrorHdr)
GetMsgSig(msg) ==
  IF ~msg.req THEN [sig |-> Sig0, err |-> EMPTY]
  ELSE MS_Run(msg, 1, {}, [Sig0 EXCEPT !.Method = msg.Method])
\* projection on the harness keys the model interprets
MS_Obs(r) == [err |-> r.err, Method |-> r.sig.Method, HdrSig |-> r.sig.HdrSig, HdrSigLen |-> r.sig.HdrSigLen]

\* func (s MsgSig) String() string -- bytes; cid, cidlen, from, via: the uninterpreted numbers (16, 8, 16, 16 bits)
HexB(d) == IF d < 10 THEN 48 + d ELSE 87 + d                       \* hextable[d]
Hex4(v) == <<HexB((v \div 4096) % 16), HexB((v \div 256) % 16), HexB((v \div 16) % 16), HexB(v % 16)>>
RECURSIVE MS_HdrChars(_, _)
MS_HdrChars(ids, k) ==
  IF k > Len(ids) THEN <<>>
  ELSE (IF ids[k] >= 16 THEN <<69>> ELSE <<>>) \o <<HexB(ids[k] % 16)>> \o MS_HdrChars(ids, k + 1)
MS_String(sig, cid, cidlen, from, via) ==
  IF sig.Method = MUndef /\ sig.HdrSigLen = 0 THEN <<>>
  ELSE (IF sig.Method >= 16 THEN <<69>> ELSE <<>>) \o <<HexB(sig.Method % 16)>>
       \o MS_HdrChars(sig.HdrSig, 1)
       \o <<73>> \o Hex4(cid) \o <<HexB((cidlen \div 16) % 16), HexB(cidlen % 16)>>
       \o <<70>> \o Hex4(from)
       \o <<86>> \o Hex4(via)

\* the abstract parsed message the header parser produces for a ghost (C07: stored prefix, total count, type flags;
\* unused array entries are zero: Type HdrNone, empty name)
ParsedOf(req, method, hdrs, hcap) ==
  LET cap == Cap(hcap)
      n   == Len(hdrs)
  IN [req |-> req, Method |-> method, N |-> n, PFlags |-> { hdrs[k].type : k \in 1..n },
      Hdrs |-> SubSeq([k \in 1..cap |-> IF k <= n THEN [Type |-> hdrs[k].type, NameLen |-> hdrs[k].nlen]
                                        ELSE [Type |-> HdrNone, NameLen |-> 0]], 1, cap)]
=============================================================================
