------------------------------ MODULE NameAddr ------------------------------
(***************************************************************************)
(* parse_from.go: ParseNameAddrPVal (From / To / Contact / Record-Route /    *)
(* Route / P-Asserted-Identity values), setFromParamVal, pUInt64Val;        *)
(* parse_pai.go: ParseOnePAI.                                               *)
(* One CASE arm per Go switch arm, same state names, same saved offsets,    *)
(* same order of side effects.                                              *)
(*                                                                         *)
(* Object = PFromBody: exported fields + PFromIState {state, soffs, pstart, *)
(* pend, vstart, vend}.  uint64 = 4 limbs, Expires (uint32) = 2 limbs, Q    *)
(* (uint16) and Type (HdrT) plain ints, ParamErr a verdict string ("ok" =   *)
(* 0), ErrOffs an int already truncated to OffsT.                           *)
(* The Go local `s` (saved component start; loaded from soffs on entry,     *)
(* stored back ONLY at moreBytes) is a parameter of NA_Run.                 *)
(***************************************************************************)
EXTENDS Lex, BigNat, Tables

NA_Ret(st, o, e) == [st |-> st, offs |-> o, err |-> e]
NA_Panicify(r, p) == IF p THEN [r EXCEPT !.err = PANIC] ELSE r

U64Max == <<65535, 65535, 65535, 65535>>

\* the 30 states of parse_from.go (fbTag* / fbPTag* are declared but never entered)
NA_States == {"fbInit", "fbNameOrURI", "fbNameOrURIEnd", "fbName", "fbQuoted", "fbURI", "fbURIFound",
              "fbNewPossibleParam", "fbPossibleParamName", "fbPossibleParamNameEnd", "fbNewParam",
              "fbParamName", "fbParamNameEnd", "fbNewParamVal", "fbParamVal", "fbParamValEnd",
              "fbNewPossibleVal", "fbPossibleVal", "fbPossibleValEnd", "fbQuotedVal", "fbQuotedPossibleVal",
              "fbTagT", "fbTagA", "fbTagG", "fbTagEq", "fbTagVal",
              "fbPTagT", "fbPTagA", "fbPTagG", "fbPTagEq", "fbPTagVal", "fbStar", "fbFIN"}

NA_Zero == [name |-> PF0, uri |-> PF0, tag |-> PF0, star |-> FALSE, lr |-> FALSE, hasexp |-> FALSE,
            type |-> 0, q |-> 0, expires |-> Zero(2), params |-> PF0, v |-> PF0,
            paramerr |-> OK, erroffs |-> 0,
            state |-> "fbInit", soffs |-> 0, pstart |-> 0, pend |-> 0, vstart |-> 0, vend |-> 0]
NameAddr_New(cfg)  == NA_Zero
NameAddr_Reset(st) == NA_Zero                       \* *fv = PFromBody{}

NA_Empty(st)   == st.state = "fbInit"
NA_Parsed(st)  == st.state = "fbFIN"
NA_Pending(st) == st.state # "fbFIN" /\ st.state # "fbInit"

NameAddr_Obs(st) ==
  [Name |-> PFObs(st.name), URI |-> PFObs(st.uri), Tag |-> PFObs(st.tag), Star |-> st.star, LR |-> st.lr,
   HasExpires |-> st.hasexp, Type |-> st.type, Q |-> st.q, Expires |-> st.expires,
   Params |-> PFObs(st.params), V |-> PFObs(st.v), ParamErr |-> st.paramerr, ErrOffs |-> st.erroffs,
   Empty |-> NA_Empty(st), Parsed |-> NA_Parsed(st), Pending |-> NA_Pending(st)]

NameAddr_Panicked(st) == IsPanicF(st.name) \/ IsPanicF(st.uri) \/ IsPanicF(st.tag)
                         \/ IsPanicF(st.params) \/ IsPanicF(st.v)

\* func multipleValsOk(h HdrT) bool
MultipleValsOk(h) == h \in {HdrContact, HdrRecordRoute, HdrRoute, HdrPAI}

----------------------------------------------------------------------------
\* func pUInt64Val(b []byte) (n uint64, err ErrorHdr): saturates at 2^64-1 with ErrHdrNumTooBig and
\* keeps checking the remaining chars; a non-digit returns ErrHdrValNotNumber with n as it is then.
RECURSIVE PU64From(_, _, _, _)
PU64From(b, j, n, e) ==
  IF j > Len(b) THEN [n |-> n, e |-> e]
  ELSE LET c == b[j] IN
    IF c < 48 \/ c > 57 THEN [n |-> n, e |-> NOTNUMBER]
    ELSE IF e # OK \/ MulAdd10Carry(n, c - 48) # 0          \* err != 0 || n > (^uint64(0)-d)/10
      THEN PU64From(b, j + 1, U64Max, TOOBIG)
    ELSE PU64From(b, j + 1, MulAdd10(n, c - 48), e)
PUInt64Val(b) == PU64From(b, 1, Zero(4), OK)

RECURSIVE NA_FindDot(_, _, _)
NA_FindDot(buf, i, vend) == IF i < vend /\ B(buf, i) # DOT THEN NA_FindDot(buf, i + 1, vend) ELSE i

\* the `q` branch of setFromParamVal
NA_SetQ(buf, pf) ==
  LET i == NA_FindDot(buf, pf.vstart, pf.vend) IN
  IF pf.vend - i <= 4 THEN
    LET ur   == PUInt64Val(Slice(buf, pf.vstart, i))
        more == (ur.e = OK \/ ur.e = TOOBIG) /\ i < pf.vend
        dr   == IF more THEN PUInt64Val(Slice(buf, i + 1, pf.vend)) ELSE [n |-> Zero(4), e |-> ur.e]
        u    == ur.n
        d    == dr.n
        err  == dr.e                                         \* `d, err = ...` overwrites err
    IN IF err = OK \/ err = TOOBIG THEN
         IF (~IsSmall(u) \/ Small(u) > 1) \/ (~IsSmall(d) \/ Small(d) > 999)
            \/ (IsSmall(u) /\ Small(u) = 1 /\ ~(IsSmall(d) /\ Small(d) = 0))
         THEN [pf EXCEPT !.paramerr = VALBAD, !.erroffs = Trunc(pf.vstart)]
         ELSE LET dl == pf.vend - (i + 1)
                  dd == CASE dl = 1 -> Small(d) * 100 [] dl = 2 -> Small(d) * 10 [] OTHER -> Small(d)
              IN [pf EXCEPT !.q = (Small(u) * 1000 + dd) % 65536]
       ELSE pf                                               \* NOTE: q=x.5 / q=1.x: nothing recorded, no ParamErr
  ELSE [pf EXCEPT !.paramerr = TOOLONG, !.erroffs = Trunc(pf.vend)]

\* func setFromParamVal(buf []byte, pf *PFromBody) ErrorHdr  (the returned error is ignored by every caller)
NA_SetFromParamVal(buf, pf) ==
  LET nm  == Slice(buf, pf.pstart, pf.pend)
      nl  == pf.pend - pf.pstart
      pf1 ==
        IF pf.pstart < pf.pend /\ pf.vstart < pf.vend THEN
          IF nl = 3 /\ CmpEq(nm, KW_tag) THEN [pf EXCEPT !.tag = PFSet(pf.vstart, pf.vend)]
          ELSE IF nl = 7 /\ CmpEq(nm, KW_expires) THEN
            LET x == PUInt64Val(Slice(buf, pf.vstart, pf.vend)) IN
              \* exp < 2^32-1 ? uint32(exp) : 2^32-1   (NOTE: also when the value is not a number: the digits so far)
              [pf EXCEPT !.hasexp = TRUE,
                         !.expires = IF x.n[3] = 0 /\ x.n[4] = 0 THEN SubSeq(x.n, 1, 2) ELSE U32Max]
          ELSE IF nl = 1 /\ CmpEq(nm, KW_q) THEN NA_SetQ(buf, pf)
          ELSE IF nl = 2 /\ CmpEq(nm, KW_lr) THEN [pf EXCEPT !.lr = TRUE]
          ELSE pf
        ELSE IF pf.pstart < pf.pend /\ pf.vstart = pf.vend THEN
          IF nl = 2 /\ CmpEq(nm, KW_lr) THEN [pf EXCEPT !.lr = TRUE] ELSE pf
        ELSE [pf EXCEPT !.paramerr = VALBAD, !.erroffs = Trunc(pf.vstart)]
  IN [pf1 EXCEPT !.pstart = 0, !.pend = 0, !.vstart = 0, !.vend = 0]

----------------------------------------------------------------------------
\* moreBytes: pfrom.soffs = s; return i, ErrHdrMoreBytes
NA_MoreBytes(st, s, i) == NA_Ret([st EXCEPT !.soffs = s], i, MORE)

NA_ResetUPT(st) == [st EXCEPT !.uri = PF0, !.params = PF0, !.tag = PF0]
NA_ParamsExtend(st, i) == [st EXCEPT !.params = PFExtend(st.params, i)]
NA_VExtend(st, i) == [st EXCEPT !.v = PFExtend(st.v, i)]

\* endOfHdr: i = first WS char (or the ','), n = line end, crl = its length, retOk = retOkErr
NA_EndOfHdr(h, buf, st, s, i, n, crl, retOk) ==
  LET fin(x) == NA_Ret([x EXCEPT !.state = "fbFIN", !.soffs = 0, !.type = h], n + crl, retOk)
      \* setFromParamVal; Params.Extend(i); V.Extend(i)
      valTail(x) == fin(NA_VExtend(NA_ParamsExtend(NA_SetFromParamVal(buf, x), i), i))
  IN
  CASE st.state \in {"fbURIFound", "fbNameOrURIEnd"} -> fin(st)
    [] st.state = "fbNameOrURI" ->
         fin([st EXCEPT !.uri = PFSet(s, i), !.v = PFExtend(st.v, i)])
    [] st.state \in {"fbNewParam", "fbParamNameEnd", "fbNewPossibleParam", "fbPossibleParamNameEnd",
                     "fbParamName", "fbPossibleParamName"} ->
         LET st1 == IF st.state \in {"fbParamName", "fbPossibleParamName"} THEN [st EXCEPT !.pend = i] ELSE st
             st2 == IF st1.pstart < st1.pend THEN NA_SetFromParamVal(buf, st1) ELSE st1
             st3 == IF st2.params.o # 0 THEN NA_ParamsExtend(st2, i) ELSE st2
         IN fin(NA_VExtend(st3, i))
    [] st.state \in {"fbParamValEnd", "fbPossibleValEnd"} -> valTail(st)
    [] st.state \in {"fbNewParamVal", "fbNewPossibleVal"} -> valTail([st EXCEPT !.vstart = i, !.vend = i])
    [] st.state \in {"fbParamVal", "fbPossibleVal"} -> valTail([st EXCEPT !.vend = i])
    [] st.state = "fbStar" -> fin([st EXCEPT !.star = TRUE, !.uri = st.v])
    [] st.state \in {"fbInit", "fbName", "fbURI", "fbQuoted", "fbQuotedVal", "fbQuotedPossibleVal"} ->
         NA_Ret(st, n + crl, BAD)
    [] OTHER -> NA_Ret(st, n + crl, BUG)

\* moreValues: retOkErr = ErrHdrMoreValues; n = i; crl = 1
NA_MoreValues(h, buf, st, s, i) == NA_EndOfHdr(h, buf, st, s, i, i, 1, MOREVALUES)

RECURSIVE NA_Run(_, _, _, _, _)

\* the LWS arm shared by {fbInit.., fbQuoted.., fbURIFound, fbStar}: on MoreBytes i = n
NA_LWS_A(h, buf, i, st, s) ==
  LET r == SkipLWS(buf, i, FALSE) IN
    CASE r.e = OK   -> NA_Run(h, buf, r.o, st, s)
      [] r.e = EOH  -> NA_EndOfHdr(h, buf, st, s, i, r.o, r.crl, OK)
      [] r.e = MORE -> NA_MoreBytes(st, s, r.o)
      [] OTHER      -> NA_Ret(st, r.o, r.e)

NA_IsLWS(c) == c = SP \/ c = HT \/ c = LF \/ c = CR

\* case fbInit, fbName, fbNameOrURI, fbNameOrURIEnd
NA_ArmName(h, buf, i, st, s, c) ==
  LET next(x, s1) == NA_Run(h, buf, i + 1, x, s1) IN
  CASE NA_IsLWS(c) ->
         LET st1 == IF st.state = "fbNameOrURI"
                    THEN [st EXCEPT !.uri = PFSet(s, i), !.v = PFExtend(st.v, i), !.state = "fbNameOrURIEnd"]
                    ELSE st
         IN NA_LWS_A(h, buf, i, st1, s)
    [] c = COMMA -> IF MultipleValsOk(h) THEN NA_MoreValues(h, buf, st, s, i)
                    ELSE next(st, s)                         \* NOTE: not even the default arm: state kept
    [] c = LT ->
         IF st.state # "fbInit"
         THEN next([NA_ResetUPT(st) EXCEPT !.name = PFSet(s, i), !.state = "fbURI"], i + 1)
         ELSE next([st EXCEPT !.v = PFSet(i, i), !.state = "fbURI"], i + 1)
    [] c = DQUOTE ->
         IF st.state = "fbInit"
         THEN next([st EXCEPT !.v = PFSet(i, i), !.state = "fbQuoted"], i)
         ELSE next([NA_ResetUPT(st) EXCEPT !.state = "fbQuoted"], s)
    [] c = SEMI ->
         (CASE st.state = "fbNameOrURI" ->
                 next([st EXCEPT !.uri = PFSet(s, i), !.v = PFExtend(st.v, i + 1),
                                 !.state = "fbNewPossibleParam"], i + 1)
            [] st.state = "fbNameOrURIEnd" -> next([st EXCEPT !.state = "fbNewPossibleParam"], s)
            [] OTHER -> NA_Ret(st, i, BADCHAR))
    [] c = GT -> NA_Ret(st, i, BADCHAR)
    [] c = STAR ->
         IF st.state = "fbInit"
         THEN next([st EXCEPT !.state = "fbStar", !.v = PFSet(i, i + 1)], i)
         ELSE next(st, s)                                    \* NOTE: '*' elsewhere: not the default arm either
    [] OTHER ->
         (CASE st.state = "fbInit" -> next([st EXCEPT !.v = PFSet(i, i), !.state = "fbNameOrURI"], i)
            [] st.state = "fbNameOrURIEnd" -> next([NA_ResetUPT(st) EXCEPT !.state = "fbName"], s)
            [] OTHER -> next(st, s))

\* case fbQuoted, fbQuotedVal, fbQuotedPossibleVal
NA_ArmQuoted(h, buf, i, st, s, c) ==
  LET next(x, s1) == NA_Run(h, buf, i + 1, x, s1) IN
  CASE c = DQUOTE ->
         next([st EXCEPT !.state = (CASE st.state = "fbQuoted" -> "fbName"
                                      [] st.state = "fbQuotedVal" -> "fbParamVal"
                                      [] OTHER -> "fbPossibleVal")], s)
    [] c = BSLASH ->                                          \* quoted-pair
         IF i + 1 < Len(buf) THEN
           IF B(buf, i + 1) = CR \/ B(buf, i + 1) = LF THEN NA_Ret(st, i + 1, BADCHAR)
           ELSE NA_Run(h, buf, i + 2, st, s)
         ELSE NA_MoreBytes(st, s, i)
    [] NA_IsLWS(c) -> NA_LWS_A(h, buf, i, st, s)
    [] OTHER -> next(st, s)

\* case fbURI
NA_ArmURI(h, buf, i, st, s, c) ==
  CASE c = GT -> NA_Run(h, buf, i + 1,
                        [st EXCEPT !.uri = PFSet(s, i), !.v = PFExtend(st.v, i + 1), !.state = "fbURIFound"], s)
    [] c = LT \/ NA_IsLWS(c) -> NA_Ret(st, i, BADCHAR)        \* not allowed inside <>
    [] OTHER -> NA_Run(h, buf, i + 1, st, s)

\* case fbURIFound
NA_ArmURIFound(h, buf, i, st, s, c) ==
  CASE NA_IsLWS(c) -> NA_LWS_A(h, buf, i, st, s)
    [] c = COMMA -> IF MultipleValsOk(h) THEN NA_MoreValues(h, buf, st, s, i) ELSE NA_Run(h, buf, i + 1, st, s)
    [] c = SEMI -> NA_Run(h, buf, i + 1, [st EXCEPT !.state = "fbNewParam"], 0)   \* s = 0
    [] OTHER -> NA_Run(h, buf, i + 1, st, s)                  \* NOTE: anything else after '>' is skipped

\* case fbNewParam, fbNewPossibleParam, fbParamName, fbPossibleParamName
NA_ArmPName(h, buf, i, st, s, c) ==
  LET next(x, s1) == NA_Run(h, buf, i + 1, x, s1) IN
  CASE NA_IsLWS(c) ->
         LET r == SkipLWS(buf, i, FALSE) IN
           IF r.e = MORE THEN NA_MoreBytes(st, s, i)          \* offset kept BEFORE the whitespace
           ELSE LET st1 == CASE st.state = "fbParamName" -> [st EXCEPT !.state = "fbParamNameEnd", !.pend = i]
                             [] st.state = "fbPossibleParamName" ->
                                  [st EXCEPT !.state = "fbPossibleParamNameEnd", !.pend = i]
                             [] OTHER -> st
                IN (CASE r.e = OK  -> NA_Run(h, buf, r.o, st1, s)
                      [] r.e = EOH -> NA_EndOfHdr(h, buf, st1, s, i, r.o, r.crl, OK)
                      [] OTHER     -> NA_Ret(st1, r.o, r.e))
    [] c = COMMA -> IF MultipleValsOk(h) THEN NA_MoreValues(h, buf, st, s, i) ELSE next(st, s)
    [] c = EQ ->
         (CASE st.state = "fbParamName" ->
                 next([st EXCEPT !.state = "fbNewParamVal", !.pend = i, !.vstart = i + 1], s)
            [] st.state = "fbPossibleParamName" ->
                 next([st EXCEPT !.state = "fbNewPossibleVal", !.pend = i, !.vstart = i + 1], s)
            [] OTHER -> NA_Ret(st, i, BADCHAR))               \* ";="
    [] c = LT \/ c = GT -> NA_Ret(st, i, BADCHAR)
    [] c = SEMI ->
         (CASE st.state = "fbParamName" ->
                 next(NA_SetFromParamVal(buf, [st EXCEPT !.state = "fbNewParam", !.pend = i]), s)
            [] st.state = "fbPossibleParamName" ->
                 next(NA_SetFromParamVal(buf, [st EXCEPT !.state = "fbNewPossibleParam", !.pend = i]), s)
            [] OTHER -> next(st, s))                          \* empty params allowed: ";;"
    [] OTHER ->
         LET st1 == CASE st.state = "fbNewParam" -> [st EXCEPT !.state = "fbParamName", !.pstart = i]
                      [] st.state = "fbNewPossibleParam" -> [st EXCEPT !.state = "fbPossibleParamName", !.pstart = i]
                      [] OTHER -> st
             \* NOTE: Params.Offs == 0 is the "not set" sentinel; Offs assigned directly, Len untouched
             st2 == IF st1.params.o = 0 THEN [st1 EXCEPT !.params = [o |-> Trunc(i), l |-> st1.params.l]] ELSE st1
         IN next(st2, s)

\* case fbParamNameEnd, fbPossibleParamNameEnd
NA_ArmPNameEnd(h, buf, i, st, s, c) ==
  CASE c = EQ ->
         NA_Run(h, buf, i + 1,
                [st EXCEPT !.state = IF st.state = "fbParamNameEnd" THEN "fbNewParamVal" ELSE "fbNewPossibleVal",
                           !.vstart = i + 1], s)
    [] c = SEMI ->
         NA_Run(h, buf, i + 1,
                NA_SetFromParamVal(buf,
                  [st EXCEPT !.state = IF st.state = "fbParamNameEnd" THEN "fbNewParam" ELSE "fbNewPossibleParam"]), s)
    [] c = COMMA ->                                           \* whitespace between the param name and ','
         IF MultipleValsOk(h)                                 \* retOkErr = MoreValues; n = i; crl = 1; i = pfrom.pend
         THEN NA_EndOfHdr(h, buf, st, s, st.pend, i, 1, MOREVALUES)
         ELSE NA_Ret(st, i, BADCHAR)
    [] OTHER -> NA_Ret(st, i, BADCHAR)

\* case fbNewParamVal, fbNewPossibleVal, fbParamVal, fbPossibleVal
NA_ArmPVal(h, buf, i, st, s, c) ==
  LET next(x, s1) == NA_Run(h, buf, i + 1, x, s1) IN
  CASE NA_IsLWS(c) ->
         LET r == SkipLWS(buf, i, FALSE) IN
           IF r.e = MORE THEN NA_MoreBytes(st, s, i)          \* offset kept BEFORE the whitespace
           ELSE LET st1 == CASE st.state \in {"fbNewParamVal", "fbNewPossibleVal"} ->
                                  IF r.e = OK THEN [st EXCEPT !.vstart = r.o] ELSE st
                             [] st.state = "fbParamVal" -> [st EXCEPT !.state = "fbParamValEnd", !.vend = i]
                             [] OTHER -> [st EXCEPT !.state = "fbPossibleValEnd", !.vend = i]
                IN (CASE r.e = OK  -> NA_Run(h, buf, r.o, st1, s)
                      [] r.e = EOH -> NA_EndOfHdr(h, buf, st1, s, i, r.o, r.crl, OK)
                      [] OTHER     -> NA_Ret(st1, r.o, r.e))
    [] c = COMMA -> IF MultipleValsOk(h) THEN NA_MoreValues(h, buf, st, s, i) ELSE next(st, s)
    [] c = SEMI ->
         IF st.state = "fbNewParamVal" \/ st.state = "fbParamVal"
         THEN next(NA_SetFromParamVal(buf, [st EXCEPT !.state = "fbNewParam", !.vend = i]), s)
         ELSE next(NA_SetFromParamVal(buf, [st EXCEPT !.state = "fbNewPossibleParam", !.vend = i]), s)
    [] c = EQ \/ c = LT \/ c = GT -> NA_Ret(st, i, BADCHAR)
    [] c = DQUOTE ->
         (CASE st.state = "fbParamVal"    -> next([st EXCEPT !.state = "fbQuotedVal"], s)
            [] st.state = "fbNewParamVal" -> next([st EXCEPT !.state = "fbQuotedVal", !.vstart = i], s)
            [] st.state = "fbPossibleVal" -> next([st EXCEPT !.state = "fbQuotedPossibleVal"], s)
            [] OTHER                      -> next([st EXCEPT !.state = "fbQuotedPossibleVal", !.vstart = i], s))
    [] OTHER ->
         (CASE st.state = "fbNewParamVal"    -> next([st EXCEPT !.state = "fbParamVal", !.vstart = i], s)
            [] st.state = "fbNewPossibleVal" -> next([st EXCEPT !.state = "fbPossibleVal", !.vstart = i], s)
            [] OTHER -> next(st, s))

\* case fbParamValEnd, fbPossibleValEnd
NA_ArmPValEnd(h, buf, i, st, s, c) ==
  CASE c = SEMI ->
         NA_Run(h, buf, i + 1,
                NA_SetFromParamVal(buf,
                  [st EXCEPT !.state = IF st.state = "fbParamValEnd" THEN "fbNewParam" ELSE "fbNewPossibleParam"]), s)
    [] c = COMMA ->                                           \* whitespace between the param value and ','
         IF MultipleValsOk(h)                                 \* retOkErr = MoreValues; n = i; crl = 1; i = pfrom.vend
         THEN NA_EndOfHdr(h, buf, st, s, st.vend, i, 1, MOREVALUES)
         ELSE NA_Ret(st, i, BADCHAR)
    [] OTHER -> NA_Ret(st, i, BADCHAR)

\* case fbStar
NA_ArmStar(h, buf, i, st, s, c) ==
  CASE NA_IsLWS(c) -> NA_LWS_A(h, buf, i, st, s)
    [] OTHER -> NA_Ret(st, i, BADCHAR)

NA_Run(h, buf, i, st, s) ==
  IF i >= Len(buf) THEN NA_MoreBytes(st, s, i)
  ELSE LET c == B(buf, i) IN
  CASE st.state \in {"fbInit", "fbName", "fbNameOrURI", "fbNameOrURIEnd"} -> NA_ArmName(h, buf, i, st, s, c)
    [] st.state \in {"fbQuoted", "fbQuotedVal", "fbQuotedPossibleVal"} -> NA_ArmQuoted(h, buf, i, st, s, c)
    [] st.state = "fbURI" -> NA_ArmURI(h, buf, i, st, s, c)
    [] st.state = "fbURIFound" -> NA_ArmURIFound(h, buf, i, st, s, c)
    [] st.state \in {"fbNewParam", "fbNewPossibleParam", "fbParamName", "fbPossibleParamName"} ->
         NA_ArmPName(h, buf, i, st, s, c)
    [] st.state \in {"fbParamNameEnd", "fbPossibleParamNameEnd"} -> NA_ArmPNameEnd(h, buf, i, st, s, c)
    [] st.state \in {"fbNewParamVal", "fbNewPossibleVal", "fbParamVal", "fbPossibleVal"} ->
         NA_ArmPVal(h, buf, i, st, s, c)
    [] st.state \in {"fbParamValEnd", "fbPossibleValEnd"} -> NA_ArmPValEnd(h, buf, i, st, s, c)
    [] st.state = "fbStar" -> NA_ArmStar(h, buf, i, st, s, c)
    [] OTHER -> NA_Run(h, buf, i + 1, st, s)                  \* fbTag* / fbPTag*: no arm (never entered)

\* func ParseNameAddrPVal(h HdrT, buf []byte, offs int, pfrom *PFromBody) (int, ErrorHdr)   -- raw
NameAddr_Parse(h, buf, offs, st) ==
  IF st.state = "fbFIN" THEN NA_Ret(st, offs, OK) ELSE NA_Run(h, buf, offs, st, st.soffs)

NameAddr_Call(buf, offs, st, cfg) ==
  LET r == NameAddr_Parse(cfg.flags, buf, offs, st) IN NA_Panicify(r, NameAddr_Panicked(r.st))

\* func ParseOnePAI(buf, offs, pfrom): '*' is not a valid PAI value                          -- raw
OnePAI_Parse(buf, offs, st) ==
  LET r == NameAddr_Parse(HdrPAI, buf, offs, st) IN
    IF (r.err = OK \/ r.err = MOREVALUES) /\ r.st.star THEN [r EXCEPT !.err = VALBAD] ELSE r
OnePAI_Call(buf, offs, st, cfg) ==
  LET r == OnePAI_Parse(buf, offs, st) IN NA_Panicify(r, NameAddr_Panicked(r.st))

\* func ParseOneContact(buf, offs, pfrom)                                                    -- raw
OneContact_Parse(buf, offs, st) == NameAddr_Parse(HdrContact, buf, offs, st)
=============================================================================
