------------------------------ MODULE PFieldM ------------------------------
(***************************************************************************)
(* parse_types.go: PField{Offs,Len OffsT} with the 16 bit truncation and    *)
(* the two panics.  A field is a record [o, l].  A panic is propagated as   *)
(* the sentinel field PANICF; *_Call operators turn any PANICF inside the   *)
(* object into the distinguished verdict "PANIC".                           *)
(***************************************************************************)
EXTENDS Bytes

PF0    == [o |-> 0, l |-> 0]                       \* zero value / Reset()
PANICF == [o |-> -1, l |-> -1]
IsPanicF(f) == f.o = -1

\* func (p *PField) Set(start, end int)
PFSet(start, end) == IF end < start THEN PANICF
                     ELSE [o |-> Trunc(start), l |-> Trunc(end - start)]
\* func (p *PField) Extend(newEnd int)
PFExtend(f, newEnd) == IF IsPanicF(f) \/ newEnd < f.o THEN PANICF
                       ELSE [o |-> f.o, l |-> Trunc(Trunc(newEnd) - f.o)]
PFEmpty(f) == f.l = 0
PFEnd(f)   == Trunc(f.o + f.l)                     \* f.Offs + f.Len in OffsT arithmetic
\* GetPField: buf[f.Offs : f.Offs+f.Len]; out of range is a Go panic
PFGetOk(buf, f) == ~IsPanicF(f) /\ f.o <= PFEnd(f) /\ PFEnd(f) <= Len(buf)
PFGet(buf, f)   == Slice(buf, f.o, f.o + f.l)
\* what a caller can read back: an empty field denotes the empty text, its offset is meaningless
PFObs(f) == IF f.l = 0 THEN <<0, 0>> ELSE <<f.o, f.l>>
=============================================================================
