------------------------------- MODULE Props -------------------------------
(***************************************************************************)
(* Property formulas over OBSERVATIONS (what a caller can read back; the    *)
(* same record shape is produced by the model's *_Obs operators and by the  *)
(* Go projection harness/obs.go, so every formula here can be evaluated by  *)
(* TLC on the model and on recorded real results alike).                    *)
(*   PField observation = <<offs, len>>, <<0,0>> for an empty field.        *)
(***************************************************************************)
EXTENDS Bytes

\* ---- field geometry (an empty field denotes the empty text and is exempt)
FEnd(f)        == f[1] + f[2]
NonEmpty(f)    == f[2] > 0
In(f, lo, hi)  == NonEmpty(f) => (lo <= f[1] /\ FEnd(f) <= hi)
Inside(f, g)   == NonEmpty(f) => (NonEmpty(g) /\ g[1] <= f[1] /\ FEnd(f) <= FEnd(g))
Before(f, g)   == (NonEmpty(f) /\ NonEmpty(g)) => FEnd(f) <= g[1]
IsLWSb(c)      == c = SP \/ c = HT \/ c = CR \/ c = LF
Trimmed(t, f)  == NonEmpty(f) => (~IsLWSb(B(t, f[1])) /\ ~IsLWSb(B(t, FEnd(f) - 1)))

\* a line break at position p (CR, LF or CRLF) that is NOT a fold (not followed by SP / HT)
RECURSIVE HardBreakIn(_, _, _)
HardBreakIn(t, p, hi) ==
  IF p >= hi THEN FALSE
  ELSE IF B(t, p) = CR \/ B(t, p) = LF THEN
         LET q == IF B(t, p) = CR /\ p + 1 < Len(t) /\ B(t, p + 1) = LF THEN p + 2 ELSE p + 1 IN
           IF q >= Len(t) \/ ~IsWS(B(t, q)) THEN TRUE ELSE HardBreakIn(t, q, hi)
  ELSE HardBreakIn(t, p + 1, hi)
\* the header's name and value lie inside the header's own (logical, possibly folded) line
SameLine(t, h) == ~HardBreakIn(t, h.Name[1], IF NonEmpty(h.Val) THEN FEnd(h.Val) ELSE FEnd(h.Name))
\* the value comes after the colon that follows the name (and optional white space).  NOTE: C05 speaks about every
\* input that parses successfully, also ill-formed ones the parsers tolerate (e.g. "From: ,<sip:a@b>" where the value
\* parser skips the comma): it demands containment, order and trimming, NOT that the value starts at the first byte
\* after the colon -- that is C07, for well-formed blocks.  (An earlier version demanded only LWS between the colon
\* and the value and raised alarms on such tolerated inputs; corrected.)
RECURSIVE OnlyLWS(_, _, _)
OnlyLWS(t, p, hi) == p >= hi \/ (IsLWSb(B(t, p)) /\ OnlyLWS(t, p + 1, hi))
RECURSIVE SkipWSp(_, _)
SkipWSp(t, p) == IF p < Len(t) /\ IsWS(B(t, p)) THEN SkipWSp(t, p + 1) ELSE p
ColonBetween(t, h) == NonEmpty(h.Val) =>
  LET c == SkipWSp(t, FEnd(h.Name)) IN c < h.Val[1] /\ B(t, c) = COLON

HdrOk(t, h, lo, hi) ==
  /\ NonEmpty(h.Name) /\ In(h.Name, lo, hi) /\ In(h.Val, lo, hi) /\ Before(h.Name, h.Val)
  /\ Trimmed(t, h.Name) /\ Trimmed(t, h.Val) /\ SameLine(t, h) /\ ColonBetween(t, h)
HEnd(h) == IF NonEmpty(h.Val) THEN FEnd(h.Val) ELSE FEnd(h.Name)

NameAddrNested(v) ==              \* display name, URI, parameters inside the value; tag inside the parameters
  /\ Inside(v.Name, v.V) /\ Inside(v.URI, v.V) /\ Inside(v.Params, v.V) /\ Inside(v.Tag, v.Params)
  /\ Before(v.Name, v.URI) /\ Before(v.URI, v.Params)

\* where the body starts: right after the first blank line (a line terminator directly followed by a line terminator)
\* at or after position p; Len(t) if there is none
RECURSIVE BlankLineEnd(_, _)
BlankLineEnd(t, p) ==
  IF p >= Len(t) THEN Len(t)
  ELSE IF B(t, p) = CR \/ B(t, p) = LF THEN
         LET q == IF B(t, p) = CR /\ p + 1 < Len(t) /\ B(t, p + 1) = LF THEN p + 2 ELSE p + 1 IN
           IF q < Len(t) /\ (B(t, q) = CR \/ B(t, q) = LF)
             THEN (IF B(t, q) = CR /\ q + 1 < Len(t) /\ B(t, q + 1) = LF THEN q + 2 ELSE q + 1)
             ELSE BlankLineEnd(t, q)
  ELSE BlankLineEnd(t, p + 1)

(***************************************************************************)
(* C05  FieldsNested(text, start, offs, ob): ob = observation of a          *)
(* successfully parsed message (Msg_Obs / Go msg projection).               *)
(***************************************************************************)
FieldsNested(t, start, offs, ob) ==
  LET fl == ob.FL  hs == ob.HL.Hdrs  pv == ob.PV
      bodyStart == IF NonEmpty(ob.Body) THEN ob.Body[1] ELSE offs
      flFields == <<fl.Method, fl.URI, fl.Version, fl.StatusCode, fl.Reason>>
  IN
  /\ start <= offs /\ offs <= Len(t)
  \* first line: inside the consumed region, in order, before every header
  /\ \A k \in 1..5 : In(flFields[k], start, offs)
  /\ (fl.Request  => Before(fl.Method, fl.URI) /\ Before(fl.URI, fl.Version))
  /\ (~fl.Request => Before(fl.Version, fl.StatusCode) /\ Before(fl.StatusCode, fl.Reason))
  /\ \A k \in 1..5, j \in 1..Len(hs) : Before(flFields[k], hs[j].Name)
  \* stored headers: in message order, no overlap, each inside its own line, value trimmed
  /\ \A j \in 1..Len(hs) : HdrOk(t, hs[j], start, bodyStart)
  /\ \A j \in 1..(Len(hs) - 1) : HEnd(hs[j]) <= hs[j + 1].Name[1] /\ HardBreakIn(t, HEnd(hs[j]), hs[j + 1].Name[1])
  \* first-of-type shortcuts denote stored-or-later headers of the consumed region
  /\ \A k \in 1..Len(ob.HL.First) : ob.HL.First[k].Type # 0 => HdrOk(t, ob.HL.First[k], start, bodyStart)
  \* header specific sub-fields nest
  /\ NameAddrNested(pv.From) /\ NameAddrNested(pv.To) /\ In(pv.From.V, start, bodyStart) /\ In(pv.To.V, start, bodyStart)
  /\ Inside(pv.From.V, ob.HL.First[1].Val) /\ Inside(pv.To.V, ob.HL.First[2].Val)
  /\ Inside(pv.Callid.CallID, ob.HL.First[3].Val)
  /\ Inside(pv.CSeq.CSeq, pv.CSeq.V) /\ Inside(pv.CSeq.Method, pv.CSeq.V) /\ Before(pv.CSeq.CSeq, pv.CSeq.Method)
  /\ Inside(pv.CSeq.V, ob.HL.First[4].Val)
  /\ Inside(pv.CLen.SVal, ob.HL.First[7].Val) /\ Inside(pv.Expires.SVal, ob.HL.First[9].Val)
  /\ \A k \in 1..Len(pv.Contacts.Vals) : NameAddrNested(pv.Contacts.Vals[k]) /\ In(pv.Contacts.Vals[k].V, start, bodyStart)
  /\ \A k \in 1..(Len(pv.Contacts.Vals) - 1) : Before(pv.Contacts.Vals[k].V, pv.Contacts.Vals[k + 1].V)
  /\ \A k \in 1..Len(pv.PAIs.Vals) : NameAddrNested(pv.PAIs.Vals[k]) /\ In(pv.PAIs.Vals[k].V, start, bodyStart)
  /\ In(pv.Contacts.LastHVal, start, bodyStart) /\ In(pv.PAIs.LastHVal, start, bodyStart)
  \* body: starts where the headers end (right after the blank line), ends at the returned offset
  /\ (NonEmpty(ob.Body) => (FEnd(ob.Body) = offs /\ ob.Body[1] > start /\ IsLWSb(B(t, ob.Body[1] - 1))))
  /\ LET bs == BlankLineEnd(t, start) IN              \* (a lone CR at the very end of t is not yet a blank line)
       (bs <= offs) => ob.Body = (IF offs = bs THEN <<0, 0>> ELSE <<bs, offs - bs>>)
  /\ \A j \in 1..Len(hs) : HEnd(hs[j]) <= bodyStart
  \* raw message = exactly the bytes from the start offset to the returned offset
  /\ (offs > start => ob.RawMsg = <<start, offs - start>>)

(***************************************************************************)
(* Relational formulas evaluated by the Go engine on pairs of REAL           *)
(* observations (harness/engine.go, modes.go, pipeline.go); stated here once.*)
(***************************************************************************)
\* C01/C02/C03/C04: ResumeEqFresh, Stable, OffsSane -- see Stream.tla.
\* C11  a run at start offset k equals the run at offset 0 shifted by k: with Shift(ob, k) the observation whose
\*      non-empty fields and error offsets are moved by k,  ShiftInvariant(r0, rk, k) ==
\*        rk.err = r0.err /\ rk.offs = r0.offs + k /\ rk.obs = Shift(r0.obs, k)
\* C12  ResetLikeNew(history) == Obs(Use(B) on Reset(Use(A, stop) on New(cfg))) = Obs(Use(B) on New(cfg))
\* C13  CapacityIndependent(small, ample, caps) == small.err = ample.err /\ small.offs = ample.offs
\*        /\ small.obs = Truncate(ample.obs, caps)      (stored lists cut to caps, More recomputed as N > cap)
\* C06  PipelineEqAlone(j) == Obs(message j parsed at its offset in the pipeline) = Shift(Obs(message j alone), offset j)
=============================================================================
