------------------------------- MODULE SIPMsg -------------------------------
(***************************************************************************)
(* parse_msg.go: PSIPMsg (FL, PV, HL, Body, Buf, RawMsg, state, offs),      *)
(* Init / Reset, ParseSIPMsg with the three flags.                          *)
(* Buf is represented by its length, RawMsg by [position in buf, length].   *)
(***************************************************************************)
EXTENDS HdrLine

SkipBodyF == 1  CLenReqF == 2  NoMoreDataF == 4
MFlag(flags, f) == (flags \div f) % 2 = 1

\* Init(nil, hdrs, contacts): nil arrays -> the built-in 10 element arrays
Msg_New(cfg) == [fl |-> FLine_New(cfg),
                 pv |-> PV_New([cfg EXCEPT !.ccap = CapOr(cfg.ccap, 10)]),
                 hl |-> HLst_New(CapOr(cfg.hcap, 10)),
                 body |-> PF0, buflen |-> 0, raw |-> <<0, 0>>, state |-> "SIPMsgInit", offs |-> 0]
\* func (m *PSIPMsg) Reset(): keeps Buf, the header array (all elements reset) and the contacts array
\* (elements 0..N reset by PContacts.Reset; for the built-in array the struct wipe clears all of it)
Msg_Reset(m) == [fl |-> FLine_New(<<>>), pv |-> PV_Reset(m.pv), hl |-> HLst_Reset(m.hl),
                 body |-> PF0, buflen |-> m.buflen, raw |-> <<0, 0>>, state |-> "SIPMsgInit", offs |-> 0]

Msg_Method(m) == IF PFEmpty(m.fl.scode) THEN m.fl.mno ELSE m.pv.cseq.mno
Msg_Obs(m) == [FL |-> FLine_Obs(m.fl), PV |-> PV_Obs(m.pv), HL |-> HLst_Obs(m.hl), Body |-> PFObs(m.body),
               RawMsg |-> IF m.raw[2] = 0 THEN <<0, 0>> ELSE m.raw,
               Parsed |-> m.state = "SIPMsgFIN", Err |-> m.state = "SIPMsgErr",
               Request |-> PFEmpty(m.fl.scode), Method |-> Msg_Method(m)]
Msg_Panicked(m) == FLine_Panicked(m.fl) \/ PV_Panicked(m.pv) \/ HLst_Panicked(m.hl) \/ IsPanicF(m.body)

MRet(m, o, e) == [st |-> m, offs |-> o, err |-> e]

\* errFL / errHL / errBUG:
Msg_Err(m, o, err, flags) ==
  IF err # MORE THEN MRet([m EXCEPT !.state = "SIPMsgErr"], o, err)
  ELSE IF MFlag(flags, NoMoreDataF) THEN MRet([m EXCEPT !.state = "SIPMsgErr"], o, TRUNC)
  ELSE MRet(m, o, err)

\* end:
Msg_End(m, o) == MRet([m EXCEPT !.body = PFExtend(m.body, o), !.buflen = o, !.raw = <<m.offs, o - m.offs>>,
                                !.state = "SIPMsgFIN"], o, OK)

\* case SIPMsgBody:
Msg_Body(buf, o, m0, flags) ==
  LET m == [m0 EXCEPT !.body = PFSet(o, o)]
      clenOk == m.pv.clen.state = "clFIN"
      clen == m.pv.clen.val[1] + m.pv.clen.val[2] * 65536        \* <= 2^24 when parsed (ParseCLenVal)
  IN IF MFlag(flags, SkipBodyF) THEN
          IF MFlag(flags, CLenReqF) /\ ~clenOk
            THEN MRet([m EXCEPT !.state = "SIPMsgNoCLen", !.buflen = o, !.raw = <<m.offs, o - m.offs>>], o, NOCLEN)
            ELSE Msg_End(m, o)                                                  \* msg.state = SIPMsgFIN; goto end
     ELSE IF clenOk THEN
          IF o + clen > Len(buf) THEN
               IF MFlag(flags, NoMoreDataF) THEN Msg_End(m, Len(buf))            \* allow truncated body
               ELSE MRet(m, o, MORE)                                             \* keep start-of-body offset
          ELSE Msg_End(m, o + clen)
     ELSE IF MFlag(flags, CLenReqF) THEN Msg_End(m, o)                           \* no CLen, assume it's 0
     ELSE Msg_End(m, Len(buf))                                                   \* no clen, use whole buffer

Msg_Headers(buf, o, m, flags) ==
  LET r == Headers_Parse(buf, o, m.hl, m.pv)
      m1 == [m EXCEPT !.hl = r.hl, !.pv = r.hb] IN
    IF r.err = PANIC THEN MRet(m1, r.offs, PANIC)
    ELSE IF r.err # OK THEN Msg_Err(m1, r.offs, r.err, flags)
    ELSE Msg_Body(buf, r.offs, [m1 EXCEPT !.state = "SIPMsgBody"], flags)

Msg_FLine(buf, o, m, flags) ==
  LET r == FLine_Parse(buf, o, m.fl)
      m1 == [m EXCEPT !.fl = r.st] IN
    IF r.err # OK THEN Msg_Err(m1, r.offs, r.err, flags)
    ELSE Msg_Headers(buf, r.offs, [m1 EXCEPT !.state = "SIPMsgHeaders"], flags)

\* func ParseSIPMsg(buf []byte, offs int, msg *PSIPMsg, flags uint8) (int, ErrorHdr)
Msg_Parse(buf, offs, m, flags) ==
  CASE m.state = "SIPMsgInit"    -> Msg_FLine(buf, offs, [m EXCEPT !.offs = offs, !.state = "SIPMsgFLine"], flags)
    [] m.state = "SIPMsgFLine"   -> Msg_FLine(buf, offs, m, flags)
    [] m.state = "SIPMsgHeaders" -> Msg_Headers(buf, offs, m, flags)
    [] m.state = "SIPMsgBody"    -> Msg_Body(buf, offs, m, flags)
    [] OTHER                     -> Msg_Err(m, offs, BUG, flags)
Msg_Call(buf, offs, m, cfg) ==
  LET r == Msg_Parse(buf, offs, m, cfg.flags) IN
    IF r.err = PANIC \/ Msg_Panicked(r.st) THEN [r EXCEPT !.err = PANIC] ELSE r
=============================================================================
