----------------------------- MODULE ScalarHdrs -----------------------------
(***************************************************************************)
(* parse_clen.go (ParseUIntVal, ParseCLenVal), parse_expires.go,            *)
(* parse_cseq.go (ParseCSeqVal), parse_callid.go (ParseCallIDVal).          *)
(* One CASE arm per Go switch arm, same state names, same side effects.     *)
(* Object state = exported fields + the unexported {state, soffs}.          *)
(* *_Call(buf, offs, st, cfg) = [st, offs, err].                            *)
(***************************************************************************)
EXTENDS Lookup, BigNat

Ret(st, o, e) == [st |-> st, offs |-> o, err |-> e]

----------------------------------------------------------------------------
\* PUIntBody {UIVal uint32; SVal PField; state uint8; soffs int}
UInt_New(cfg) == [state |-> "clInit", soffs |-> 0, val |-> Zero(2), sval |-> PF0]
UInt_Reset(st) == UInt_New(<<>>)
UInt_Obs(st) == [UIVal |-> st.val, SVal |-> PFObs(st.sval),
                 Empty |-> st.state = "clInit", Parsed |-> st.state = "clFIN",
                 Pending |-> st.state \notin {"clInit", "clFIN"}]
UInt_Panicked(st) == IsPanicF(st.sval)

\* endOfHdr: label of ParseUIntVal; i = first WS char, r = skipLWS result (n, crl)
UInt_EndOfHdr(st, i, r) ==
  CASE st.state = "clEnd"   -> Ret([st EXCEPT !.state = "clFIN", !.soffs = 0], r.o + r.crl, OK)
    [] st.state = "clFound" -> Ret([st EXCEPT !.sval = PFSet(st.soffs, i), !.state = "clFIN", !.soffs = 0],
                                   r.o + r.crl, OK)
    [] st.state = "clInit"  -> Ret(st, r.o + r.crl, BAD)
    [] OTHER                -> Ret(st, r.o + r.crl, BUG)

RECURSIVE UInt_Run(_, _, _)
UInt_Run(buf, i, st) ==
  IF i >= Len(buf) THEN Ret(st, i, MORE)                                       \* moreBytes:
  ELSE LET c == B(buf, i) IN
    IF IsLWSc(c) THEN
      IF st.state \in {"clFound", "clInit", "clEnd"} THEN
        LET st1 == IF st.state = "clFound"
                   THEN [st EXCEPT !.sval = PFSet(st.soffs, i), !.state = "clEnd"] ELSE st
            r == SkipLWS(buf, i, FALSE) IN
          CASE r.e = OK   -> UInt_Run(buf, r.o, st1)
            [] r.e = EOH  -> UInt_EndOfHdr(st1, i, r)
            [] r.e = MORE -> Ret(st1, r.o, MORE)
            [] OTHER      -> Ret(st1, r.o, r.e)
      ELSE UInt_Run(buf, i + 1, st)                                            \* inner switch: no arm (clFIN)
    ELSE IF IsDigit(c) THEN
      CASE st.state = "clInit"  -> UInt_Run(buf, i + 1, [st EXCEPT !.state = "clFound", !.soffs = i,
                                                                  !.val = NatLimbs(2, c - 48)])
        [] st.state = "clFound" -> LET v == MulAdd10(st.val, c - 48) IN
                                     IF MulAdd10Carry(st.val, c - 48) # 0 THEN Ret(st, i, TOOBIG)   \* UIVal > (max-d)/10
                                     ELSE UInt_Run(buf, i + 1, [st EXCEPT !.val = v])
        [] st.state = "clEnd"   -> Ret(st, i, BADCHAR)
        [] OTHER                -> UInt_Run(buf, i + 1, st)
    ELSE Ret(st, i, BADCHAR)

UInt_CallRaw(buf, offs, st) == IF st.state = "clFIN" THEN Ret(st, offs, OK) ELSE UInt_Run(buf, offs, st)
Panicify(r, p) == IF p THEN [r EXCEPT !.err = PANIC] ELSE r
UInt_Call(buf, offs, st, cfg) == LET r == UInt_CallRaw(buf, offs, st) IN Panicify(r, UInt_Panicked(r.st))

\* ParseCLenVal: MaxCLenValueSize = 9, MaxClenValue = 1 << 24
CLenMax == <<0, 256>>
CLen_CallRaw(buf, offs, st) ==
  LET r == UInt_CallRaw(buf, offs, st) IN
    IF r.err = OK /\ ~UInt_Panicked(r.st) /\ (r.st.sval.l > 9 \/ Less(CLenMax, r.st.val))
    THEN Ret(r.st, r.st.sval.o, TOOBIG) ELSE r
CLen_Call(buf, offs, st, cfg) == LET r == CLen_CallRaw(buf, offs, st) IN Panicify(r, UInt_Panicked(r.st))

----------------------------------------------------------------------------
\* PCallIDBody {CallID PField; state; soffs}
CallID_New(cfg) == [state |-> "ciInit", soffs |-> 0, callid |-> PF0]
CallID_Reset(st) == CallID_New(<<>>)
CallID_Obs(st) == [CallID |-> PFObs(st.callid),
                   Empty |-> st.state = "ciInit", Parsed |-> st.state = "ciFIN",
                   Pending |-> st.state \notin {"ciInit", "ciFIN"}]
CallID_Panicked(st) == IsPanicF(st.callid)

CallID_EndOfHdr(st, i, r) ==
  CASE st.state = "ciEnd"   -> Ret([st EXCEPT !.state = "ciFIN", !.soffs = 0], r.o + r.crl, OK)
    [] st.state = "ciFound" -> Ret([st EXCEPT !.callid = PFSet(st.soffs, i), !.state = "ciFIN", !.soffs = 0],
                                   r.o + r.crl, OK)
    [] st.state = "ciInit"  -> Ret(st, r.o + r.crl, BAD)
    [] OTHER                -> Ret(st, r.o + r.crl, BUG)

RECURSIVE CallID_Run(_, _, _)
CallID_Run(buf, i, st) ==
  IF i >= Len(buf) THEN Ret(st, i, MORE)
  ELSE LET c == B(buf, i) IN
    IF IsLWSc(c) THEN
      IF st.state \in {"ciFound", "ciInit", "ciEnd"} THEN
        LET st1 == IF st.state = "ciFound"
                   THEN [st EXCEPT !.callid = PFSet(st.soffs, i), !.state = "ciEnd"] ELSE st
            r == SkipLWS(buf, i, FALSE) IN
          CASE r.e = OK   -> CallID_Run(buf, r.o, st1)
            [] r.e = EOH  -> CallID_EndOfHdr(st1, i, r)
            [] r.e = MORE -> Ret(st1, r.o, MORE)
            [] OTHER      -> Ret(st1, r.o, r.e)
      ELSE CallID_Run(buf, i + 1, st)
    ELSE
      CASE st.state = "ciInit" -> CallID_Run(buf, i + 1, [st EXCEPT !.state = "ciFound", !.soffs = i])
        [] st.state = "ciEnd"  -> Ret(st, i, BADCHAR)
        [] OTHER               -> CallID_Run(buf, i + 1, st)

CallID_CallRaw(buf, offs, st) == IF st.state = "ciFIN" THEN Ret(st, offs, OK) ELSE CallID_Run(buf, offs, st)
CallID_Call(buf, offs, st, cfg) == LET r == CallID_CallRaw(buf, offs, st) IN Panicify(r, CallID_Panicked(r.st))

----------------------------------------------------------------------------
\* PCSeqBody {CSeqNo uint32; MethodNo; CSeq, Method, V PField; state; soffs}
CSeq_New(cfg) == [state |-> "csInit", soffs |-> 0, no |-> Zero(2), mno |-> MUndef,
                  cseq |-> PF0, method |-> PF0, v |-> PF0]
CSeq_Reset(st) == CSeq_New(<<>>)
CSeq_Obs(st) == [CSeqNo |-> st.no, MethodNo |-> st.mno, CSeq |-> PFObs(st.cseq),
                 Method |-> PFObs(st.method), V |-> PFObs(st.v),
                 Empty |-> st.state = "csInit", Parsed |-> st.state = "csFIN",
                 Pending |-> st.state \notin {"csInit", "csFIN"}]
CSeq_Panicked(st) == IsPanicF(st.cseq) \/ IsPanicF(st.method) \/ IsPanicF(st.v) \/ st.mno = LK_PANIC

\* MaxCSeqNValueSize = 10; `pcs.CSeqNo > MaxCSeqNValue` can never be true for a uint32
CSeq_Fin(buf, st, r) ==
  LET st1 == [st EXCEPT !.state = "csFIN"] IN
    IF st1.cseq.l > 10 THEN Ret(st1, st1.cseq.o, TOOBIG)
    ELSE IF ~PFGetOk(buf, st1.method) THEN Ret([st1 EXCEPT !.soffs = 0, !.mno = LK_PANIC], r.o + r.crl, OK)
    ELSE Ret([st1 EXCEPT !.soffs = 0, !.mno = GetMethodNo(PFGet(buf, st1.method))], r.o + r.crl, OK)

CSeq_EndOfHdr(buf, st, i, r) ==
  CASE st.state = "csEnd"         -> CSeq_Fin(buf, st, r)
    [] st.state = "csFoundMethod" -> CSeq_Fin(buf, [st EXCEPT !.method = PFSet(st.soffs, i), !.v = PFExtend(st.v, i)], r)
    [] st.state \in {"csInit", "csFoundDigit", "csEndDigit"} -> Ret(st, r.o + r.crl, BAD)
    [] OTHER                      -> Ret(st, r.o + r.crl, BUG)

RECURSIVE CSeq_Run(_, _, _)
CSeq_Run(buf, i, st) ==
  IF i >= Len(buf) THEN Ret(st, i, MORE)
  ELSE LET c == B(buf, i) IN
    IF IsLWSc(c) THEN
      IF st.state \in {"csFoundDigit", "csFoundMethod", "csInit", "csEndDigit", "csEnd"} THEN
        LET st1 == CASE st.state = "csFoundDigit"  -> [st EXCEPT !.cseq = PFSet(st.soffs, i), !.v = PFSet(st.soffs, i),
                                                                 !.state = "csEndDigit"]
                     [] st.state = "csFoundMethod" -> [st EXCEPT !.method = PFSet(st.soffs, i), !.v = PFExtend(st.v, i),
                                                                 !.state = "csEnd"]
                     [] OTHER -> st
            r == SkipLWS(buf, i, FALSE) IN
          CASE r.e = OK   -> CSeq_Run(buf, r.o, st1)
            [] r.e = EOH  -> CSeq_EndOfHdr(buf, st1, i, r)
            [] r.e = MORE -> Ret(st1, r.o, MORE)
            [] OTHER      -> Ret(st1, r.o, r.e)
      ELSE CSeq_Run(buf, i + 1, st)
    ELSE IF IsDigit(c) THEN
      CASE st.state = "csInit"       -> CSeq_Run(buf, i + 1, [st EXCEPT !.state = "csFoundDigit", !.soffs = i,
                                                                       !.no = NatLimbs(2, c - 48)])
        [] st.state = "csFoundDigit" -> LET v == MulAdd10(st.no, c - 48) IN
                                          IF MulAdd10Carry(st.no, c - 48) # 0 THEN Ret(st, i, TOOBIG)     \* CSeqNo > (max-d)/10
                                          ELSE CSeq_Run(buf, i + 1, [st EXCEPT !.no = v])
        [] st.state = "csEndDigit"   -> CSeq_Run(buf, i + 1, [st EXCEPT !.state = "csFoundMethod", !.soffs = i])
        [] st.state = "csEnd"        -> Ret(st, i, BADCHAR)
        [] OTHER                     -> CSeq_Run(buf, i + 1, st)
    ELSE
      CASE st.state \in {"csInit", "csFoundDigit"} -> Ret(st, i, BADCHAR)
        [] st.state = "csEndDigit"   -> CSeq_Run(buf, i + 1, [st EXCEPT !.state = "csFoundMethod", !.soffs = i])
        [] st.state = "csEnd"        -> Ret(st, i, BADCHAR)
        [] OTHER                     -> CSeq_Run(buf, i + 1, st)

CSeq_CallRaw(buf, offs, st) == IF st.state = "csFIN" THEN Ret(st, offs, OK) ELSE CSeq_Run(buf, offs, st)
CSeq_Call(buf, offs, st, cfg) == LET r == CSeq_CallRaw(buf, offs, st) IN Panicify(r, CSeq_Panicked(r.st))
=============================================================================
