------------------------------- MODULE SipURI -------------------------------
(***************************************************************************)
(* sipuri.go: ParseURI, PsipURI.Long / Short / Flat / Truncate / AdjustOffs.*)
(* One operator per Go function, one CASE arm per switch arm, same state    *)
(* names, same saved offsets, same order of side effects.                   *)
(*                                                                          *)
(* A PsipURI is the record                                                  *)
(*   [type, scheme, user, pass, host, port, params, headers, portno]        *)
(* with RAW PFields [o, l]: an empty field keeps the offset the code wrote  *)
(* (AdjustOffs uses `Offs != 0` as a presence test, so "sip:a@b:" has       *)
(* Port = {8,0} and that offset matters).  URI_Obs normalises with PFObs.   *)
(*                                                                          *)
(* Dead code (never reached by any input; Go statement coverage agrees):    *)
(*   - end-of-input `case uUser: if foundUser { return ErrURIBad }`          *)
(*     (sipuri.go:662): foundUser is only set when leaving uUser, so "bad"   *)
(*     is never returned;                                                    *)
(*   - end-of-input `default: return ErrURIBug` (sipuri.go:697) and the      *)
(*     model's OTHER arm of Step: uInit/uSIP/uSIPS/uTEL are never assigned   *)
(*     inside the loop;                                                      *)
(*   - the PANIC propagation: no PField.Set in ParseURI can see end < start. *)
(*                                                                          *)
(* Local variables of ParseURI that survive loop iterations are the fields  *)
(* of the loop record L:                                                    *)
(*   state, s (element start), fu (foundUser), po (passOffs),               *)
(*   pn (portNo), eh (errHeaders), u (the *puri being filled in).           *)
(***************************************************************************)
EXTENDS Lex, BigNat

\* ErrorURI names (harness/fn.go uriErrNames); OK, BADCHAR, BAD, BUG come from Lex
UE_SCHEME   == "scheme"
UE_HOST     == "host"
UE_PORT     == "port"
UE_HEADERS  == "headers"
UE_TOOSHORT == "tooshort"
URIErrors == {OK, BADCHAR, UE_SCHEME, UE_HOST, UE_PORT, UE_HEADERS, UE_TOOSHORT, BAD, BUG}

\* URIScheme
INVALIDuri == 0   SIPuri == 1   SIPSuri == 2   TELuri == 3

\* the zero value (`var u sipsp.PsipURI`); ParseURI itself never resets *puri
URI0 == [type |-> INVALIDuri, scheme |-> PF0, user |-> PF0, pass |-> PF0, host |-> PF0,
         port |-> PF0, params |-> PF0, headers |-> PF0, portno |-> 0]

URet(u, e, o) == [err |-> e, offs |-> o, uri |-> u]
UPanicked(u) == IsPanicF(u.scheme) \/ IsPanicF(u.user) \/ IsPanicF(u.pass) \/ IsPanicF(u.host)
                \/ IsPanicF(u.port) \/ IsPanicF(u.params) \/ IsPanicF(u.headers)

\* c | 0x20
Or20(c) == IF (c \div 32) % 2 = 0 THEN c + 32 ELSE c

\* one loop iteration either continues with a new loop record or returns
Go(L)         == [ret |-> FALSE, L |-> L]
Stop(u, e, i) == [ret |-> TRUE,  r |-> URet(u, e, i)]

\* `if portNo <= 65535 { portNo = portNo*10 + int(c-'0') }`   (else already invalid, avoid overflow)
PortAcc(pn, c) == IF pn <= 65535 THEN pn * 10 + (c - 48) ELSE pn

----------------------------------------------------------------------------
\* case uInitSIP, uInitSIPS, uInitTEL:
St_Init(c, i, L) ==
  CASE c = LBRACK                -> Go([L EXCEPT !.state = "uHost61", !.s = i])
    [] c = COLON \/ c = RBRACK   -> Stop(L.u, BADCHAR, i)
    [] OTHER                     -> Go([L EXCEPT !.state = "uUser", !.s = i])     \* NOTE: '@' ';' '?' included

\* case uUser:
St_User(c, i, L) ==
  CASE c = AT     -> Go([L EXCEPT !.u.user = PFSet(L.s, i), !.state = "uHost0", !.fu = TRUE, !.s = i + 1])
    [] c = COLON  -> Go([L EXCEPT !.u.user = PFSet(L.s, i), !.state = "uPass0", !.s = i + 1])
    [] c = SEMI   -> Go([L EXCEPT !.u.host = PFSet(L.s, i), !.state = "uParam0", !.s = i + 1])
    [] c = QM     -> Go([L EXCEPT !.u.host = PFSet(L.s, i), !.state = "uHeaders", !.s = i + 1])
    [] c = LBRACK \/ c = RBRACK -> Stop(L.u, BADCHAR, i)
    [] OTHER      -> Go(L)

\* case uPass0:  password or port
St_Pass0(c, i, L) ==
  CASE c = AT     -> Go([L EXCEPT !.u.pass = PFSet(L.s, i), !.pn = 0, !.state = "uHost0", !.fu = TRUE, !.s = i + 1])
    [] c = SEMI \/ c = QM ->
         LET u1 == [L.u EXCEPT !.port = PFSet(L.s, i)] IN
           IF L.pn > 65535 THEN Stop(u1, UE_PORT, i)                   \* Port already set, Host not yet fixed
           ELSE Go([L EXCEPT !.u = [u1 EXCEPT !.portno = L.pn, !.host = u1.user, !.user = PF0],
                             !.fu = TRUE, !.s = i + 1,
                             !.state = IF c = SEMI THEN "uParam0" ELSE "uHeaders"])
    [] IsDigit(c) -> Go([L EXCEPT !.pn = PortAcc(L.pn, c)])
    [] c = LBRACK \/ c = RBRACK \/ c = COLON -> Stop(L.u, BADCHAR, i)
    [] OTHER      -> Go([L EXCEPT !.pn = 0, !.state = "uPass1"])

\* case uPass1:
St_Pass1(c, i, L) ==
  CASE c = AT     -> Go([L EXCEPT !.u.pass = PFSet(L.s, i), !.state = "uHost0", !.fu = TRUE, !.s = i + 1])
    [] c = SEMI \/ c = QM \/ c = LBRACK \/ c = RBRACK \/ c = COLON -> Stop(L.u, BADCHAR, i)
    [] OTHER      -> Go(L)

\* case uHost0:
St_Host0(c, i, L) ==
  CASE c = LBRACK -> Go([L EXCEPT !.state = "uHost61"])
    [] c = COLON \/ c = SEMI \/ c = QM \/ c = AMP \/ c = AT -> Stop(L.u, UE_HOST, i)
    [] OTHER      -> Go([L EXCEPT !.state = "uHost1"])

\* case uHost1:
St_Host1(c, i, L) ==
  CASE c = COLON  -> Go([L EXCEPT !.u.host = PFSet(L.s, i), !.state = "uPort", !.s = i + 1])
    [] c = SEMI   -> Go([L EXCEPT !.u.host = PFSet(L.s, i), !.state = "uParam0", !.s = i + 1])
    [] c = QM     -> Go([L EXCEPT !.u.host = PFSet(L.s, i), !.state = "uHeaders", !.s = i + 1])
    [] c = AMP \/ c = AT -> Stop(L.u, BADCHAR, i)
    [] OTHER      -> Go(L)                                            \* NOTE: '[' and ']' pass

\* case uHost61:
St_Host61(c, i, L) ==
  CASE c = RBRACK -> Go([L EXCEPT !.state = "uHost6E"])
    [] c = LBRACK \/ c = AT \/ c = SEMI \/ c = QM \/ c = AMP -> Stop(L.u, UE_HOST, i)
    [] OTHER      -> Go(L)                                            \* NOTE: ':' '.' anything else

\* case uHost6E:
St_Host6E(c, i, L) ==
  CASE c = COLON  -> Go([L EXCEPT !.u.host = PFSet(L.s, i), !.state = "uPort", !.s = i + 1])
    [] c = SEMI   -> Go([L EXCEPT !.u.host = PFSet(L.s, i), !.state = "uParam0", !.s = i + 1])
    [] c = QM     -> Go([L EXCEPT !.u.host = PFSet(L.s, i), !.state = "uHeaders", !.s = i + 1])
    [] OTHER      -> Stop(L.u, UE_HOST, i)

\* case uPort:
St_Port(c, i, L) ==
  CASE IsDigit(c) -> Go([L EXCEPT !.pn = PortAcc(L.pn, c)])
    [] c = SEMI   -> LET u1 == [L.u EXCEPT !.port = PFSet(L.s, i)] IN
                       IF L.pn > 65535 THEN Stop(u1, UE_PORT, i)
                       ELSE Go([L EXCEPT !.u = [u1 EXCEPT !.portno = L.pn], !.state = "uParam0", !.s = i + 1])
    [] c = QM     -> LET u1 == [L.u EXCEPT !.port = PFSet(L.s, i)] IN
                       IF L.pn > 65535 THEN Stop(u1, UE_PORT, i)
                       ELSE Go([L EXCEPT !.u = [u1 EXCEPT !.portno = L.pn], !.state = "uHeaders", !.s = i + 1])
    [] OTHER      -> Stop(L.u, UE_PORT, i)

\* the `if foundUser == false {...}` body shared (textually duplicated in Go) by '@' in uParam0/1 and uHeaders:
\* what was taken for host[;params][?headers] is in fact the user [and password]
Backtrack(i, L) ==
  LET u1 == IF L.po # 0
            THEN [L.u EXCEPT !.user = PFSet(L.u.host.o, L.po), !.pass = PFSet(L.po + 1, i)]
            ELSE [L.u EXCEPT !.user = PFSet(L.u.host.o, i), !.pass = PF0]
  IN Go([L EXCEPT !.u = [u1 EXCEPT !.host = PF0, !.port = PF0, !.portno = 0, !.params = PF0, !.headers = PF0],
                  !.fu = TRUE, !.eh = FALSE, !.pn = 0, !.state = "uHost0", !.s = i + 1])   \* NOTE: po is not cleared; pn is (fix in /repo)

\* case uParam0, uParam1:
St_Param(c, i, L) ==
  CASE c = AT     -> IF ~L.fu THEN Backtrack(i, L) ELSE Stop(L.u, BADCHAR, i)
    [] c = COLON  -> IF ~L.fu
                     THEN (IF L.po # 0 THEN Go([L EXCEPT !.fu = TRUE, !.po = 0, !.state = "uParam1"])
                                       ELSE Go([L EXCEPT !.po = i, !.state = "uParam1"]))
                     ELSE Go([L EXCEPT !.state = "uParam1"])
    [] c = SEMI   -> IF L.po # 0 THEN Go([L EXCEPT !.po = 0, !.fu = TRUE, !.state = "uParam0"])
                                 ELSE Go([L EXCEPT !.state = "uParam0"])
    [] c = QM     -> LET L1 == [L EXCEPT !.u.params = PFSet(L.s, i), !.state = "uHeaders", !.s = i + 1] IN
                       IF L.po # 0 THEN Go([L1 EXCEPT !.po = 0, !.fu = TRUE]) ELSE Go(L1)
    [] OTHER      -> Go([L EXCEPT !.state = "uParam1"])

\* case uHeaders:
St_Headers(c, i, L) ==
  CASE c = AT     -> IF ~L.fu THEN Backtrack(i, L) ELSE Stop(L.u, BADCHAR, i)
    [] c = SEMI   -> IF L.fu \/ L.po # 0 THEN Stop(L.u, BADCHAR, i) ELSE Go([L EXCEPT !.eh = TRUE])
    [] c = COLON  -> IF ~L.fu
                     THEN (IF L.po # 0 THEN Go([L EXCEPT !.fu = TRUE, !.po = 0]) ELSE Go([L EXCEPT !.po = i]))
                     ELSE Go(L)
    [] c = QM     -> IF L.po # 0 THEN Go([L EXCEPT !.fu = TRUE, !.po = 0]) ELSE Go(L)
    [] OTHER      -> Go(L)

\* switch state { ... }  inside the for loop (uInit, uSIP, uSIPS, uTEL have no arm: nothing happens)
Step(c, i, L) ==
  CASE L.state \in {"uInitSIP", "uInitSIPS", "uInitTEL"} -> St_Init(c, i, L)
    [] L.state = "uUser"    -> St_User(c, i, L)
    [] L.state = "uPass0"   -> St_Pass0(c, i, L)
    [] L.state = "uPass1"   -> St_Pass1(c, i, L)
    [] L.state = "uHost0"   -> St_Host0(c, i, L)
    [] L.state = "uHost1"   -> St_Host1(c, i, L)
    [] L.state = "uHost61"  -> St_Host61(c, i, L)
    [] L.state = "uHost6E"  -> St_Host6E(c, i, L)
    [] L.state = "uPort"    -> St_Port(c, i, L)
    [] L.state \in {"uParam0", "uParam1"} -> St_Param(c, i, L)
    [] L.state = "uHeaders" -> St_Headers(c, i, L)
    [] OTHER                -> Go(L)

\* "uri type specific fixes" + `return 0, i`
Fin(u, i) == URet(IF u.type = TELuri THEN [u EXCEPT !.user = u.host, !.host = PF0] ELSE u, OK, i)

\* the switch after the loop (end of input)
URI_End(i, L) ==
  CASE L.state \in {"uInit", "uInitTEL", "uInitSIP", "uInitSIPS"} -> URet(L.u, UE_TOOSHORT, i)
    [] L.state = "uUser" ->
         IF L.fu THEN URet(L.u, BAD, i)                 \* NOTE: dead, foundUser is never set while in uUser
         ELSE Fin([L.u EXCEPT !.host = PFSet(L.s, i)], i)
    [] L.state \in {"uPass0", "uPass1"} ->
         IF L.fu \/ L.state = "uPass1" THEN URet(L.u, UE_PORT, i)
         ELSE LET u1 == [L.u EXCEPT !.port = PFSet(L.s, i)] IN
                IF L.pn > 65535 THEN URet(u1, UE_PORT, i)
                ELSE Fin([u1 EXCEPT !.portno = L.pn, !.host = u1.user, !.user = PF0], i)
    [] L.state \in {"uHost1", "uHost6E"} -> Fin([L.u EXCEPT !.host = PFSet(L.s, i)], i)
    [] L.state \in {"uHost0", "uHost61"} -> URet(L.u, UE_HOST, i)
    [] L.state = "uPort" ->
         LET u1 == [L.u EXCEPT !.port = PFSet(L.s, i)] IN
           IF L.pn > 65535 THEN URet(u1, UE_PORT, i) ELSE Fin([u1 EXCEPT !.portno = L.pn], i)
    [] L.state \in {"uParam0", "uParam1"} -> Fin([L.u EXCEPT !.params = PFSet(L.s, i)], i)
    [] L.state = "uHeaders" ->
         LET u1 == [L.u EXCEPT !.headers = PFSet(L.s, i)] IN
           IF L.eh THEN URet(u1, UE_HEADERS, i) ELSE Fin(u1, i)
    [] OTHER -> URet(L.u, BUG, i)                       \* NOTE: dead (uSIP, uSIPS, uTEL are never assigned)

\* for ; i < len(uri); i++ { ... }
RECURSIVE URI_Run(_, _, _)
URI_Run(buf, i, L) ==
  IF i >= Len(buf) THEN URI_End(i, L)
  ELSE LET x == Step(B(buf, i), i, L) IN
         IF x.ret THEN x.r
         ELSE IF UPanicked(x.L.u) THEN URet(x.L.u, PANIC, i)          \* PField.Set panicked (never happens)
         ELSE URI_Run(buf, i + 1, x.L)

\* func ParseURI(uri SIPStr, puri *PsipURI) (ErrorURI, int)   -- called on a zero PsipURI
URI_Parse(buf) ==
  IF Len(buf) < 5 THEN URet(URI0, UE_TOOSHORT, Len(buf))
  ELSE
    LET sch == <<Or20(B(buf, 0)), Or20(B(buf, 1)), Or20(B(buf, 2)), Or20(B(buf, 3))>>   \* | 0x20202020
        start(t, st, schLen) ==
          LET r == URI_Run(buf, schLen + 1,
                     [state |-> st, s |-> 0, fu |-> FALSE, po |-> 0, pn |-> 0, eh |-> FALSE,
                      u |-> [URI0 EXCEPT !.type = t, !.scheme = PFSet(0, schLen + 1)]])
          IN IF r.err # PANIC /\ UPanicked(r.uri) THEN [r EXCEPT !.err = PANIC] ELSE r
    IN
    CASE sch = <<115, 105, 112, 58>>  -> start(SIPuri, "uInitSIP", 3)       \* "sip:"  NOTE: 0x1a|0x20 = ':'
      [] sch = <<116, 101, 108, 58>>  -> start(TELuri, "uInitTEL", 3)       \* "tel:"
      [] sch = <<115, 105, 112, 115>> ->                                    \* "sips"
           IF B(buf, 4) = COLON THEN start(SIPSuri, "uInitSIPS", 4)
           ELSE URet(URI0, UE_SCHEME, 4)                                    \* URIType = INVALIDuri (already 0)
      [] OTHER                        -> URet(URI0, UE_SCHEME, 4)

----------------------------------------------------------------------------
\* Views.  `int(u.X.Offs+u.X.Len)` is a 16 bit sum (PFEnd); PField.Set panics when end < start.

\* func (u *PsipURI) Long() PField
URI_Long(u) ==
  IF      u.headers.l > 0 THEN PFSet(u.scheme.o, PFEnd(u.headers))
  ELSE IF u.params.l  > 0 THEN PFSet(u.scheme.o, PFEnd(u.params))
  ELSE IF u.port.l    > 0 THEN PFSet(u.scheme.o, PFEnd(u.port))
  ELSE IF u.host.l    > 0 THEN PFSet(u.scheme.o, PFEnd(u.host))
  ELSE IF u.pass.l    > 0 THEN PFSet(u.scheme.o, PFEnd(u.pass))
  ELSE IF u.user.l    > 0 THEN PFSet(u.scheme.o, PFEnd(u.user))
  ELSE PF0

\* func (u *PsipURI) Short() PField            NOTE: no Pass arm
URI_Short(u) ==
  IF      u.port.l > 0 THEN PFSet(u.scheme.o, PFEnd(u.port))
  ELSE IF u.host.l > 0 THEN PFSet(u.scheme.o, PFEnd(u.host))
  ELSE IF u.user.l > 0 THEN PFSet(u.scheme.o, PFEnd(u.user))
  ELSE PF0

\* func (u *PsipURI) Flat(buf []byte) []byte   (PANIC where the slice expression panics)
URI_FlatOk(buf, u) == PFGetOk(buf, URI_Long(u))
URI_Flat(buf, u)   == PFGet(buf, URI_Long(u))

\* func (u *PsipURI) Truncate()
URI_Truncate(u) == [u EXCEPT !.params = PF0, !.headers = PF0]

\* func (u *PsipURI) AdjustOffs(newpos PField) bool       newpos = [o, l]; all arithmetic is OffsT
\* result [panic, ok, uri]; when panic = TRUE, uri is what the caller's structure holds at the panic
URI_AdjustOffs(u, newpos) ==
  LET offs  == newpos.o
      end   == Trunc(offs + newpos.l)
      start == u.scheme.o
      fs    == <<u.user, u.pass, u.host, u.port, u.params, u.headers>>
      \* for _, f := range [...]PField{...} { if f.Offs != 0 && f.Offs+f.Len > uend { uend = f.Offs+f.Len } }
      UE[k \in 0..6] == IF k = 0 THEN Trunc(start + u.scheme.l)
                        ELSE IF fs[k].o # 0 /\ PFEnd(fs[k]) > UE[k - 1] THEN PFEnd(fs[k]) ELSE UE[k - 1]
      uend  == UE[6]
      mv(f) == IF f.o # 0 THEN [f EXCEPT !.o = Trunc(f.o - start + offs)] ELSE f
      \* last = offs, then overwritten by every component with Offs != 0, in order
      LA[k \in 0..6] == IF k = 0 THEN offs
                        ELSE IF fs[k].o # 0 THEN PFEnd(mv(fs[k])) ELSE LA[k - 1]
      u1    == [u EXCEPT !.scheme.o = offs, !.user = mv(u.user), !.pass = mv(u.pass), !.host = mv(u.host),
                         !.port = mv(u.port), !.params = mv(u.params), !.headers = mv(u.headers)]
  IN IF Trunc(uend - start) > newpos.l THEN [panic |-> FALSE, ok |-> FALSE, uri |-> u]
     ELSE IF LA[6] > end THEN [panic |-> TRUE, ok |-> FALSE, uri |-> u1]     \* panic("... offset past end")
     ELSE [panic |-> FALSE, ok |-> TRUE, uri |-> u1]

----------------------------------------------------------------------------
\* What the harness renders (obs.go `uri`, fn.go "ParseURI" / "AdjustOffs")
URI_Obs(u) == [URIType |-> u.type, Scheme |-> PFObs(u.scheme), User |-> PFObs(u.user), Pass |-> PFObs(u.pass),
               Host |-> PFObs(u.host), Port |-> PFObs(u.port), Params |-> PFObs(u.params),
               Headers |-> PFObs(u.headers), PortNo |-> u.portno]

PanicRes == [panic |-> TRUE]

\* the exported fields exactly as stored (offsets of empty fields included): read by the Decl predicates
URI_Raw(u) == [Scheme |-> <<u.scheme.o, u.scheme.l>>, User |-> <<u.user.o, u.user.l>>, Pass |-> <<u.pass.o, u.pass.l>>,
               Host |-> <<u.host.o, u.host.l>>, Port |-> <<u.port.o, u.port.l>>, Params |-> <<u.params.o, u.params.l>>,
               Headers |-> <<u.headers.o, u.headers.l>>, URIType |-> u.type, PortNo |-> u.portno]

URI_Res(buf) ==
  LET p == URI_Parse(buf) IN
    IF p.err = PANIC THEN PanicRes
    ELSE IF p.err # OK THEN [err |-> p.err, offs |-> p.offs, uri |-> URI_Obs(p.uri), raw |-> URI_Raw(p.uri)]
    ELSE IF IsPanicF(URI_Short(p.uri)) \/ IsPanicF(URI_Long(p.uri)) \/ ~URI_FlatOk(buf, p.uri) THEN PanicRes
    ELSE [err |-> p.err, offs |-> p.offs, uri |-> URI_Obs(p.uri), raw |-> URI_Raw(p.uri),
          Short |-> PFObs(URI_Short(p.uri)), Long |-> PFObs(URI_Long(p.uri)),
          Flat |-> URI_Flat(buf, p.uri), Trunc |-> URI_Obs(URI_Truncate(p.uri))]

AdjustOffs_Res(buf, offs, len) ==
  LET p == URI_Parse(buf) IN
    IF p.err = PANIC THEN PanicRes
    ELSE IF p.err # OK THEN [err |-> p.err]
    ELSE LET a == URI_AdjustOffs(p.uri, [o |-> Trunc(offs), l |-> Trunc(len)]) IN
           IF a.panic THEN PanicRes
           ELSE IF IsPanicF(URI_Short(a.uri)) \/ IsPanicF(URI_Long(a.uri)) THEN PanicRes
           ELSE [err |-> p.err, before |-> URI_Raw(p.uri), ok |-> a.ok, uri |-> URI_Obs(a.uri), raw |-> URI_Raw(a.uri),
                 Short |-> PFObs(URI_Short(a.uri)), Long |-> PFObs(URI_Long(a.uri))]
=============================================================================
