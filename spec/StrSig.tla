------------------------------- MODULE StrSig -------------------------------
(***************************************************************************)
(* msg_sig.go: the string part of the message signature.                   *)
(*   resCharSigFlag, getStrCharsSig (msg_sig.go:269-434), GetCallIDSig      *)
(*   (441-471), GetViaBrSig (475-535).                                      *)
(* A StrSigId is modelled as the SET of its bit numbers (0..15); SigInt     *)
(* gives the integer the code returns.                                      *)
(* Results:  CallIDSig(s) = [sig, slen]   ViaBrSig(s) = [sig, len]          *)
(*           StrCharsSig(s, skipOffs, skipLen) = [sig (set), skip]          *)
(* Declarative statements for C19 / C20 are at the end.                     *)
(***************************************************************************)
EXTENDS IPAddr, TokParam, FiniteSets

\* bit numbers of the StrSigId flags (1 << iota)
SB_IPStart == 0   SB_IPEnd == 1    SB_IPMiddle == 2   SB_At == 3      SB_Dot == 4    SB_Colon == 5
SB_Dash == 6      SB_Star == 7     SB_Div == 8        SB_Plus == 9    SB_Eq == 10    SB_Under == 11
SB_Pipe == 12     SB_Hex == 13     SB_B64 == 14       SB_DigBlocks == 15

RECURSIVE SS_Pow2(_)
SS_Pow2(k) == IF k = 0 THEN 1 ELSE 2 * SS_Pow2(k - 1)
RECURSIVE SS_Sum(_, _)
SS_Sum(S, k) == IF k > 15 THEN 0 ELSE (IF k \in S THEN SS_Pow2(k) ELSE 0) + SS_Sum(S, k + 1)
SigInt(S) == SS_Sum(S, 0)
SigBits(n) == { k \in 0..15 : (n \div SS_Pow2(k)) % 2 = 1 }

\* func resCharSigFlag(c byte): -1 = no flag
ResCharBit(c) ==
  CASE c = 64 -> SB_At    [] c = 46 -> SB_Dot  [] c = 58 -> SB_Colon [] c = 45 -> SB_Dash [] c = 95 -> SB_Under
    [] c = 42 -> SB_Star  [] c = 43 -> SB_Plus [] c = 47 -> SB_Div   [] c = 61 -> SB_Eq   [] c = 124 -> SB_Pipe
    [] OTHER -> -1
ReservedBits == {SB_At, SB_Dot, SB_Colon, SB_Dash, SB_Under, SB_Star, SB_Plus, SB_Div, SB_Eq, SB_Pipe}

\* locals of getStrCharsSig
SS_L0 == [sig |-> {}, sep |-> 0, sepNo |-> 0, hexM |-> 0, hexC |-> 0, hexB |-> 0,
          b64 |-> TRUE, hex |-> TRUE, dec |-> TRUE, lo |-> FALSE, up |-> FALSE, skip |-> 0]
\* if hexConsec > 0 { hexBlocks++; if hexConsec > hexMConsec { hexMConsec = hexConsec }; hexConsec = 0 }
SS_Close(L) == IF L.hexC > 0
               THEN [L EXCEPT !.hexB = L.hexB + 1, !.hexM = IF L.hexC > L.hexM THEN L.hexC ELSE L.hexM, !.hexC = 0]
               ELSE L
SS_IsHexLetter(c) == (c >= 65 /\ c <= 70) \/ (c >= 97 /\ c <= 102)
\* (s[i] >= 'E' && s[i] <= 'Z') || (s[i] >= 'e' && s[i] <= 'z')
SS_IsB64Rest(c)   == (c >= 69 /\ c <= 90) \/ (c >= 101 /\ c <= 122)

\* one iteration of `for i := 0; i < len(s); i++`
SS_Step(s, i, so, sl, L0) ==
  IF i >= so /\ i < so + sl THEN L0                                         \* ignore this part
  ELSE
    LET L1 == IF i = so + sl THEN SS_Close(L0) ELSE L0                      \* a new digit block after the ip
        c  == B(s, i)
        b  == ResCharBit(c)
    IN
    IF b # -1 THEN
      LET L2 == [L1 EXCEPT !.sig = @ \cup {b}] IN
      IF sl = 0 \/ (i # so + sl /\ i # so - 1) THEN
        \* not immediately after or before an ip
        LET b64n == IF ~L2.b64 THEN FALSE
                    ELSE IF ~(c = 43 \/ c = 47 \/ c = 61) THEN FALSE
                    ELSE IF c = 61 THEN (i = Len(s) - 1) \/ (i = Len(s) - 2 /\ B(s, i + 1) = 61)
                    ELSE TRUE
            sepn  == IF L2.sep = 0 THEN c ELSE L2.sep
            sepNn == IF L2.sep = 0 \/ L2.sep = c THEN L2.sepNo + 1 ELSE L2.sepNo
            diff  == i > 0 /\ sepn # c                                      \* different sep found
            L3 == [L2 EXCEPT !.b64 = b64n, !.sep = sepn, !.sepNo = sepNn,
                             !.dec = IF diff THEN FALSE ELSE @, !.hex = IF diff THEN FALSE ELSE @]
        IN SS_Close(L3)
      ELSE
        \* char just before ip or immediately after ip
        LET L3 == IF i = so + sl THEN SS_Close(L2) ELSE L2 IN [L3 EXCEPT !.skip = @ + 1]
    ELSE IF ~IsDigit(c) THEN
      LET L2 == [L1 EXCEPT !.dec = FALSE]
          L3 == IF ~SS_IsHexLetter(c)
                THEN [L2 EXCEPT !.hex = FALSE, !.b64 = IF ~SS_IsB64Rest(c) THEN FALSE ELSE @]
                ELSE [L2 EXCEPT !.hexC = @ + 1]
      IN IF c >= 97 /\ c <= 122 THEN [L3 EXCEPT !.lo = TRUE]
         ELSE IF c >= 65 /\ c <= 90 THEN [L3 EXCEPT !.up = TRUE] ELSE L3
    ELSE [L1 EXCEPT !.hexC = @ + 1]

RECURSIVE SS_Loop(_, _, _, _, _)
SS_Loop(s, i, so, sl, L) == IF i >= Len(s) THEN L ELSE SS_Loop(s, i + 1, so, sl, SS_Step(s, i, so, sl, L))

\* func getStrCharsSig(s []byte, skipOffs, skipLen int) (StrSigId, int)
StrCharsSig(s, so, sl) ==
  LET La == SS_Loop(s, 0, so, sl, SS_L0)
      l  == Len(s) - sl - La.skip - La.sepNo
      L  == SS_Close(La)
      enc == IF l >= 8 THEN
               IF /\ (L.dec \/ L.hex)
                  /\ (L.sep = 0 \/ (L.hexM >= 8 \/ (L.hexM > 0 /\ L.hexB >= 4)))
                  /\ ~(L.lo /\ L.up)
               THEN {SB_Hex} \cup (IF L.sep # 0 THEN {SB_DigBlocks} ELSE {})
               ELSE IF L.b64 /\ l % 4 = 0 THEN {SB_B64} ELSE {}
             ELSE {}
  IN [sig |-> L.sig \cup enc, skip |-> L.skip]

\* func GetCallIDSig(cid []byte) (StrSigId, uint8)     (dst = nil for both searches)
CallIDSpan(cid) ==
  LET r4 == IP4_ContainsDst(cid, 0) IN
    IF r4.ok THEN [has |-> TRUE, at |-> r4.at, len |-> r4.len]
    ELSE LET r6 == IP6_Contains(cid) IN [has |-> r6.ok, at |-> r6.at, len |-> r6.len]
CallIDSig(cid) ==
  LET sp  == CallIDSpan(cid)
      ipf == IF ~sp.has THEN {}
             ELSE IF sp.at = 0 THEN {SB_IPStart}
             ELSE IF sp.at + sp.len = Len(cid) THEN {SB_IPEnd} ELSE {SB_IPMiddle}
      g   == StrCharsSig(cid, sp.at, sp.len)
      cl  == ((Len(cid) - sp.len - g.skip) + 3) \div 4
  IN [sig |-> SigInt(ipf \cup g.sig), slen |-> IF cl > 255 THEN 255 ELSE cl]

\* func GetViaBrSig(viab []byte) (StrSigId, int)
ViaFlags == F_SemiSep + F_CommaTerm + F_InputEnd
BrName   == <<98, 114, 97, 110, 99, 104>>          \* "branch"
BrCookie == <<122, 57, 104, 71, 52, 98, 75>>       \* "z9hG4bK"
RECURSIVE SS_IndexAny(_, _, _)
SS_IndexAny(buf, i, S) == IF i >= Len(buf) THEN -1 ELSE IF B(buf, i) \in S THEN i ELSE SS_IndexAny(buf, i + 1, S)
V0 == [sig |-> 0, len |-> 0]
RECURSIVE VB_Loop(_, _)
VB_Loop(viab, offs) ==
  LET r == TokParam_Parse(viab, offs, TokParam_New(<<>>), ViaFlags) IN
  IF TokParam_Panicked(r.st) \/ r.err = PANIC THEN [panic |-> TRUE]
  ELSE IF r.err \in {OK, MOREVALUES, EOH} THEN
    IF r.st.name.l = 6 /\ PFGetOk(viab, r.st.name) /\ CmpEq(PFGet(viab, r.st.name), BrName) THEN
      \* found the "branch" parameter, stop here
      IF r.st.val.l > 0 THEN
        LET val == PFGet(viab, r.st.val) IN
          IF Len(val) > Len(BrCookie) /\ CmpEq(SubSeq(val, 1, Len(BrCookie)), BrCookie)
          THEN [sig |-> SigInt(StrCharsSig(SubSeq(val, Len(BrCookie) + 1, Len(val)), 0, 0).sig), len |-> Len(val) - Len(BrCookie)]
          ELSE [sig |-> SigInt(StrCharsSig(val, 0, 0).sig), len |-> Len(val)]
      ELSE V0
    ELSE IF r.err = MOREVALUES THEN VB_Loop(viab, r.offs)                   \* try next value (param.Reset())
    ELSE V0
  ELSE V0                                                                    \* more bytes / some error: exit
ViaBrSig(viab) ==
  LET o == SS_IndexAny(viab, 0, {SEMI, COMMA}) IN
    IF o = -1 \/ B(viab, o) = COMMA THEN V0 ELSE VB_Loop(viab, o + 1)

----------------------------------------------------------------------------
(***************************************************************************)
(* Declaratively (C19: "the character classes of Call-ID, From-tag and     *)
(* first-Via branch"; C20: "the call-id signature classifies the IP         *)
(* position from the search result").                                       *)
(***************************************************************************)
\* The character classes: digits, hex letters and other letters per letter case, every reserved character
\* by itself, everything else.  Two strings with the same class sequence (and, for digits, the same
\* dotted-quad structure -- the generators only exchange digits that keep every group <= 255) must get
\* the same signature.
CharClass(c) == IF IsDigit(c) THEN 1
                ELSE IF c >= 97 /\ c <= 102 THEN 2 ELSE IF c >= 65 /\ c <= 70 THEN 3
                ELSE IF c >= 103 /\ c <= 122 THEN 4 ELSE IF c >= 71 /\ c <= 90 THEN 5
                ELSE IF ResCharBit(c) # -1 THEN 1000 + c
                ELSE 6
ClassSeq(s) == SubSeq([k \in 1..Len(s) |-> CharClass(s[k])], 1, Len(s))

\* the documented meaning of the reserved-character flags: flag X is set iff X occurs outside [so, so+sl)
FlagDecl(s, so, sl, bits) ==
  \A b \in ReservedBits :
     (b \in bits) <=> \E i \in 0..(Len(s) - 1) : ~(i >= so /\ i < so + sl) /\ ResCharBit(B(s, i)) = b

\* r = [sig, slen] returned for cid
SS_Min(a, b) == IF a < b THEN a ELSE b
QuadEnds(s, i) == (i + 7)..SS_Min(i + 15, Len(s))          \* a dotted quad is 7..15 bytes long
HasQuad(s) == \E i \in 0..Len(s) : \E j \in QuadEnds(s, i) : IsDottedQuad(Slice(s, i, j))
NoV6Chance(s) == \A k \in 1..Len(s) : s[k] # COLON
SS_Adj(s, i, j) == (IF i > 0 /\ ResCharBit(B(s, i - 1)) # -1 THEN 1 ELSE 0) + (IF j < Len(s) /\ ResCharBit(B(s, j)) # -1 THEN 1 ELSE 0)
SS_Ceil4(n) == IF (n + 3) \div 4 > 255 THEN 255 ELSE (n + 3) \div 4
CallIDDecl(s, r) ==
  LET bits == SigBits(r.sig)
      ipb  == bits \cap {SB_IPStart, SB_IPEnd, SB_IPMiddle} IN
  /\ Cardinality(ipb) <= 1
  /\ ~(SB_Hex \in bits /\ SB_B64 \in bits)
  /\ (SB_DigBlocks \in bits => SB_Hex \in bits)
  /\ IF HasQuad(s) THEN
       \* some dotted quad of the text is the one that was classified: position flag, flags of the rest,
       \* length of the rest (without the reserved characters that touch the address) in units of four
       \E i \in 0..Len(s) : \E j \in QuadEnds(s, i) :
          /\ IsDottedQuad(Slice(s, i, j))
          /\ ipb = (IF i = 0 THEN {SB_IPStart} ELSE IF j = Len(s) THEN {SB_IPEnd} ELSE {SB_IPMiddle})
          /\ FlagDecl(s, i, j - i, bits)
          /\ r.slen = SS_Ceil4(Len(s) - (j - i) - SS_Adj(s, i, j))
     ELSE NoV6Chance(s) =>
          /\ ipb = {}
          /\ FlagDecl(s, 0, 0, bits)
          /\ r.slen = SS_Ceil4(Len(s))
\* C20's part of it: the position flag is the position of some dotted quad of the text; none without one
IPPosDecl(s, r) ==
  LET ipb == SigBits(r.sig) \cap {SB_IPStart, SB_IPEnd, SB_IPMiddle} IN
  /\ Cardinality(ipb) <= 1
  /\ IF HasQuad(s) THEN \E i \in 0..Len(s) : \E j \in QuadEnds(s, i) :
                           /\ IsDottedQuad(Slice(s, i, j))
                           /\ ipb = (IF i = 0 THEN {SB_IPStart} ELSE IF j = Len(s) THEN {SB_IPEnd} ELSE {SB_IPMiddle})
     ELSE NoV6Chance(s) => ipb = {}
\* RFC 3261 token characters (without the back quote)
BrTokenChar(c) == IsDigit(c) \/ IsUpper(c) \/ IsLower(c) \/ c \in {DASH, DOT, BANG, PCT, STAR, USCORE, PLUS, SQUOTE, TILDE}
\* r = [sig, len] for a branch value v (with or without the RFC 3261 cookie): flags of the part after the cookie
BranchDecl(v, r) ==
  LET rest == IF Len(v) > Len(BrCookie) /\ CmpEq(SubSeq(v, 1, Len(BrCookie)), BrCookie)
              THEN SubSeq(v, Len(BrCookie) + 1, Len(v)) ELSE v
      bits == SigBits(r.sig) IN
  \* (only for values the parameter parser takes as ONE token: a byte outside the token set ends or breaks the value)
  (Len(v) > 0 /\ \A k \in 1..Len(v) : BrTokenChar(v[k])) =>
  /\ bits \cap {SB_IPStart, SB_IPEnd, SB_IPMiddle} = {}
  /\ ~(SB_Hex \in bits /\ SB_B64 \in bits)
  /\ (SB_DigBlocks \in bits => SB_Hex \in bits)
  /\ FlagDecl(rest, 0, 0, bits)
  /\ r.len = Len(rest)
=============================================================================
