------------------------------- MODULE Stream -------------------------------
(***************************************************************************)
(* THE PROTOCOL SPEC.  One resumable parser object fed by a growing wire.   *)
(*                                                                         *)
(*   environment (peer + caller)                 parser object              *)
(*   Send(atom)   the wire grows                 obj  (exported + internal) *)
(*   Call         parse wire[0..len) from cont   cont (continuation offset) *)
(*   Reset        abandon / re-use the object    verdict (last ErrorHdr)    *)
(*                                                                         *)
(* The parser itself is a parameter: P_New(cfg), P_Call(buf, offs, st, cfg) *)
(* = [st, offs, err], P_Obs(st) (what the caller can read back),            *)
(* P_Reset(st).  Modules MC_* / Trace_* instantiate it per parser kind.     *)
(* The wire starts with cfg.start junk bytes (start offset, C11).           *)
(***************************************************************************)
EXTENDS Integers, Sequences

CONSTANTS P_New(_), P_Call(_, _, _, _), P_Obs(_), P_Reset(_),
          Atoms,          \* set of byte sequences the peer may send
          MaxLen,         \* bound on Len(wire) in bytes
          MaxAtoms,       \* bound on the number of Send steps (atoms may be several bytes long)
          Cfgs,           \* set of configurations [start, ...]
          Junk            \* the byte used for the cfg.start bytes before the text

VARIABLES wire,      \* bytes sent so far (junk prefix included)
          vis,       \* Len(wire) at the last Call (0 = not called yet)
          cont,      \* offset to pass to the next Call
          obj,       \* parser object state
          verdict,   \* verdict of the last Call, "more" initially
          cfg,       \* configuration, fixed per behaviour
          prev,      \* Len(wire) before the last Send (for the Stable check)
          na,        \* number of atoms sent
          hist       \* ghost: the cut points (vis values) of the Calls made; not in the VIEW

vars == <<wire, vis, cont, obj, verdict, cfg, prev, na, hist>>
view == <<wire, vis, cont, obj, verdict, cfg, prev, na>>

JunkSeq(k) == [j \in 1..k |-> Junk]

Init == /\ cfg \in Cfgs
        /\ wire = SubSeq(JunkSeq(cfg.start), 1, cfg.start)
        /\ vis = 0 /\ cont = cfg.start /\ obj = P_New(cfg) /\ verdict = "more"
        /\ prev = cfg.start /\ na = 0 /\ hist = <<>>

Send == /\ na < MaxAtoms
        /\ \E a \in Atoms : /\ Len(wire) + Len(a) <= MaxLen
                            /\ wire' = wire \o a
        /\ prev' = Len(wire) /\ na' = na + 1
        /\ UNCHANGED <<vis, cont, obj, verdict, cfg, hist>>

\* the caller calls again only while the parser asks for more bytes and new bytes arrived
Call == /\ vis < Len(wire) /\ verdict = "more"
        /\ LET r == P_Call(wire, cont, obj, cfg) IN
             /\ obj' = r.st /\ cont' = r.offs /\ verdict' = r.err
        /\ vis' = Len(wire) /\ hist' = Append(hist, Len(wire))
        /\ UNCHANGED <<wire, cfg, prev, na>>

Next == Send \/ Call
Spec == Init /\ [][Next]_vars

\* Beyond the listed properties (their schedules are strictly increasing): a spurious wake-up -- the caller calls
\* again although no new bytes arrived.  SpecA allows it; Idempotent says it changes nothing (same verdict, same
\* offset, same object state), so SpecA has exactly the states of Spec and every result about schedules
\* c1 < ... < ck carries over to c1 <= ... <= ck.
CallAgain == /\ vis = Len(wire) /\ vis > 0 /\ verdict = "more"
             /\ LET r == P_Call(wire, cont, obj, cfg) IN
                  /\ obj' = r.st /\ cont' = r.offs /\ verdict' = r.err
             /\ hist' = Append(hist, Len(wire))
             /\ UNCHANGED <<wire, vis, cfg, prev, na>>
NextA == Send \/ Call \/ CallAgain
SpecA == Init /\ [][NextA]_vars
\* Liveness (beyond the listed properties; checked on small instances without the VIEW): with a caller that keeps
\* calling (weak fairness of Call) every behaviour reaches, and stays in, a state where the parser has seen every byte
\* sent so far or has given a definitive verdict -- the protocol cannot get stuck with unseen bytes while "more" is
\* being asked for (Call is enabled exactly then).
FairSpec == Init /\ [][Next]_vars /\ WF_vars(Call)
CaughtUp == vis = Len(wire) \/ verdict # "more"
Progress == []<>CaughtUp
\* Also beyond the listed properties: while the parser asks for more bytes its continuation offset never moves
\* backwards (the caller may discard what lies before it).  An action property: [][...]_vars.
MonotoneCont == [][(verdict' = "more" /\ vis' > 0) => cont' >= cont]_vars
Idempotent == (vis = Len(wire) /\ vis > 0 /\ verdict = "more") =>
                LET r == P_Call(wire, cont, obj, cfg) IN r.err = "more" /\ r.offs = cont /\ r.st = obj

----------------------------------------------------------------------------
\* ---- explicit schedules for the replay on the real code.  hist is outside the VIEW and (when ResumeEqFresh holds with
\* equal internal state) every distinct state is first reached by the one-call schedule, so the record of a state
\* never makes the replayer RESUME a real object.  These operators run the model along a given cut schedule from a
\* new object; MC modules print them as additional oracle records (EmitTwo: everything but the last atom, then all;
\* EmitByte: a call after every byte).
RECURSIVE SRunSched(_, _, _, _)
SRunSched(cuts, k, offs, st) ==
  LET r == P_Call(SubSeq(wire, 1, cuts[k]), offs, st, cfg) IN
    IF r.err # "more" \/ k >= Len(cuts) THEN r ELSE SRunSched(cuts, k + 1, r.offs, r.st)
SchedRes(cuts) == SRunSched(cuts, 1, cfg.start, P_New(cfg))
HasTwo   == vis = Len(wire) /\ cfg.start < prev /\ prev < Len(wire)
TwoCuts  == <<prev, Len(wire)>>
HasByte  == vis = Len(wire) /\ Len(wire) - cfg.start >= 2
ByteCuts == SubSeq([j \in 1..(Len(wire) - cfg.start) |-> cfg.start + j], 1, Len(wire) - cfg.start)

\* A fresh one-shot parse of the first n bytes of the wire.
Fresh(n) == P_Call(SubSeq(wire, 1, n), cfg.start, P_New(cfg), cfg)

Definitive(e) == e # "more"

\* C01 / C02: after every Call, verdict and offset equal those of a fresh parser on the same
\* prefix; once definitive, so does everything the caller can read back.
ResumeEqFresh ==
  vis > 0 => LET f == Fresh(vis) IN
               /\ f.offs = cont /\ f.err = verdict
               /\ (Definitive(verdict) /\ verdict # "PANIC" => P_Obs(f.st) = P_Obs(obj))

\* C03: a definitive one-shot verdict on a prefix is the one-shot verdict on every extension.
\* Wires are prefix-closed under Send, so checking each wire against its parent is an induction.
Stable ==
  (prev < Len(wire) /\ prev > cfg.start) =>
     LET p == Fresh(prev)  q == Fresh(Len(wire)) IN
       (Definitive(p.err) /\ p.err # "PANIC") =>
           /\ q.err = p.err /\ q.offs = p.offs /\ P_Obs(q.st) = P_Obs(p.st)

\* C04 (model level): no panic; the returned offset is inside the buffer and, unless an error
\* is reported, not before the offset passed in.
IsErrVerdict(e) == e \notin {"ok", "more", "eoh", "empty", "morevalues"}
OffsSane ==
  vis > 0 => /\ verdict # "PANIC"
             /\ cont >= 0 /\ cont <= vis
             /\ (~IsErrVerdict(verdict) => cont >= cfg.start)
=============================================================================
