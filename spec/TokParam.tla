------------------------------ MODULE TokParam ------------------------------
(***************************************************************************)
(* parse_params.go (SkipQuoted, tokAllowedChar, ParseTokenParam),           *)
(* parse_uri_params.go (URIParamResolve, URIParam, URIParamsLst,            *)
(* ParseAllURIParams), parse_uri_hdrs.go (URIHdr, URIHdrsLst,               *)
(* ParseAllURIHdrs).  One operator per Go function / label, one arm per     *)
(* switch arm, same state names, same order of side effects.                *)
(*                                                                         *)
(*   PTokParam     = [state, all, name, val]                                *)
(*   URIParam      = [param : PTokParam, t : URIParamF]                     *)
(*   URIParamsLst  = [params : Seq(URIParam) (len = cap), n, types, tmp]    *)
(*   URIHdrsLst    = [hdrs : Seq(PTokParam) (len = cap), n, tmp]            *)
(*                                                                         *)
(* *_Call(buf, offs, st, cfg) = [st, offs, err]; cfg.flags = POptFlags,     *)
(* cfg.pcap = capacity of the caller supplied array.                        *)
(***************************************************************************)
EXTENDS Lex, Tables

TP_Ret(st, o, e) == [st |-> st, offs |-> o, err |-> e]
TP_Panicify(r, p) == IF p THEN [r EXCEPT !.err = PANIC] ELSE r

\* POptFlags (parse_utils.go:14-23); every F_* is a single bit
F_CommaTerm == 1   F_QmTerm == 2     F_SpTerm == 4      F_InputEnd == 8
F_SemiSep == 16    F_AmpSep == 32    F_URIParam == 64   F_URIHdr == 128
TP_Has(flags, m) == (flags \div m) % 2 = 1                 \* flags & m != 0   (m = 2^k)
TP_Or(flags, m)  == IF TP_Has(flags, m) THEN flags ELSE flags + m   \* flags | m    (m = 2^k)

----------------------------------------------------------------------------
\* func SkipQuoted(buf, offs) (int, ErrorHdr)                parse_params.go:39-97
\* result [o, e]
RECURSIVE SkipQuoted(_, _)
SkipQuoted(buf, i) ==
  IF i >= Len(buf) THEN [o |-> i, e |-> MORE]                               \* moreBytes:
  ELSE LET c == B(buf, i) IN
    CASE c = DQUOTE -> [o |-> i + 1, e |-> OK]
      [] c = BSLASH -> IF i + 1 < Len(buf)
                         THEN IF B(buf, i + 1) = CR \/ B(buf, i + 1) = LF
                                THEN [o |-> i + 1, e |-> BADCHAR]
                                ELSE SkipQuoted(buf, i + 2)
                         ELSE [o |-> i, e |-> MORE]                         \* goto moreBytes
      [] c = LF \/ c = CR \/ c = DEL -> [o |-> i, e |-> BADCHAR]
      [] OTHER -> IF c < 33 /\ c # SP /\ c # HT THEN [o |-> i, e |-> BADCHAR]
                  ELSE SkipQuoted(buf, i + 1)

\* SkipQuoted as a Stream kind: stateless, the continuation is the offset alone.
\* NOTE: the Go adapter prints `{}` for the object; TLC's ToJson cannot print an empty record
\* (every empty function is printed `[]`), hence the dummy field.
SkipQ_New(cfg)   == [dummy |-> 0]
SkipQ_Reset(st)  == [dummy |-> 0]
SkipQ_Obs(st)    == [dummy |-> 0]
SkipQ_Call(buf, offs, st, cfg) == LET r == SkipQuoted(buf, offs) IN TP_Ret(st, r.o, r.e)

----------------------------------------------------------------------------
\* func tokAllowedChar(c, flags) bool                        parse_params.go:100-134
TokAllowedChar(c, flags) ==
  IF c <= 32 \/ c >= 127 THEN FALSE
  ELSE IF IsDigit(c) \/ IsUpper(c) \/ IsLower(c) THEN TRUE
  ELSE CASE c \in {DASH, USCORE, DOT, BANG, TILDE, STAR, SQUOTE, LPAREN, RPAREN, PCT} -> TRUE
         [] c \in {LBRACK, RBRACK, SLASH, COLON, PLUS, DOLLAR} -> TRUE
         [] c = AMP -> TP_Has(flags, F_URIParam)                 \* allowed only inside an uri param
         [] c = QM  -> ~TP_Has(flags, F_URIParam)                \* allowed unless uri param
         [] OTHER   -> FALSE

----------------------------------------------------------------------------
\* PTokParam {All, Name, Val PField; state uint8}
TokParam_New(cfg) == [state |-> "paramInit", all |-> PF0, name |-> PF0, val |-> PF0]
TokParam_Reset(st) == TokParam_New(<<>>)
TokParam_Obs(st) == [All |-> PFObs(st.all), Name |-> PFObs(st.name), Val |-> PFObs(st.val),
                     Empty |-> PFEmpty(st.all)]
TokParam_Panicked(st) == IsPanicF(st.all) \/ IsPanicF(st.name) \/ IsPanicF(st.val)

TP_Sep(flags)  == IF TP_Has(flags, F_AmpSep) \/ TP_Has(flags, F_URIHdr) THEN AMP ELSE SEMI
\* term = 0: none (POptTokSpTermF "is handled differently")
TP_Term(flags) == IF TP_Has(flags, F_QmTerm) \/ TP_Has(flags, F_URIParam) THEN QM
                  ELSE IF TP_Has(flags, F_CommaTerm) THEN COMMA ELSE 0

\* endOfHdr: n = line end (or len(buf)), crl = its length     parse_params.go:540-555
TP_EndOfHdr(st, n, crl) ==
  CASE st.state \in {"paramInit", "paramInitNxtVal"} -> TP_Ret(st, n + crl, EOH)
    [] st.state \in {"paramFNxt", "paramName", "paramFEq", "paramFVal", "paramVal", "paramFSep"}
         -> TP_Ret([st EXCEPT !.state = "paramFIN"], n + crl, EOH)
    [] OTHER -> TP_Ret([st EXCEPT !.state = "paramERR"], n + crl, BUG)

\* moreBytes:                                                 parse_params.go:497-525
\* NOTE: with POptInputEndF the verdict is always EOH (retOkErr = ErrHdrOk is never used) and the
\* whole buffer is reported as parsed; an open quote still asks for more bytes.
TP_MoreBytes(buf, i, st, flags) ==
  IF TP_Has(flags, F_InputEnd) THEN
    CASE st.state \in {"paramInit", "paramInitNxtVal", "paramFNxt", "paramFSep", "paramFVal", "paramFEq"}
           -> TP_EndOfHdr(st, Len(buf), 0)
      [] st.state = "paramName"
           -> TP_EndOfHdr([st EXCEPT !.name = PFExtend(@, i), !.all = PFExtend(@, i)], Len(buf), 0)
      [] st.state = "paramVal"
           -> TP_EndOfHdr([st EXCEPT !.val = PFExtend(@, i), !.all = PFExtend(@, i)], Len(buf), 0)
      [] st.state = "paramQuotedVal" -> TP_Ret(st, i, MORE)                 \* error, open quote
      [] OTHER -> TP_Ret(st, i, BUG)                                        \* paramERR (paramFIN returns early)
  ELSE TP_Ret(st, i, MORE)

\* moreValues: i = first char of the new value               parse_params.go:526-539
TP_MoreValues(st, i) ==
  CASE st.state = "paramFNxt" -> TP_Ret([st EXCEPT !.state = "paramInitNxtVal"], i, MOREVALUES)
    [] OTHER -> TP_Ret([st EXCEPT !.state = "paramERR"], i, BUG)

RECURSIVE TP_Run(_, _, _, _), TP_WS(_, _, _, _, _)

\* the `case ' ', '\t', '\n', '\r':` arm of every state: skipLWS; on MoreBytes the state is kept (st) and
\* the offset stays before the white space; otherwise the arm's updates are applied first (st1).
TP_WS(buf, i, st, st1, flags) ==
  LET r == SkipLWS(buf, i, TP_Has(flags, F_InputEnd)) IN
    CASE r.e = MORE -> TP_MoreBytes(buf, i, st, flags)
      [] r.e = OK   -> TP_Run(buf, r.o, st1, flags)                  \* i = n; continue
      [] r.e = EOH  -> TP_EndOfHdr(st1, r.o, r.crl)
      [] OTHER      -> TP_Ret(st1, r.o, r.e)

\* the main loop
TP_Run(buf, i, st, flags) ==
  IF i >= Len(buf) THEN TP_MoreBytes(buf, i, st, flags)
  ELSE
    LET c      == B(buf, i)
        sep    == TP_Sep(flags)
        term   == TP_Term(flags)
        isWS   == c = SP \/ c = HT \/ c = LF \/ c = CR
        isTerm == c = term /\ term # 0
        ok     == TokAllowedChar(c, flags)
        Step(s) == TP_Run(buf, i + 1, s, flags)
        Bad    == TP_Ret([st EXCEPT !.state = "paramERR"], i, BADCHAR)
        \* "return separator pos (as expected)": the byte before the token if it is white space, else (no white
        \* space before the token, e.g. p="v"bar) the token start.  Does not depend on where the call started.
        prevWS == i > 0 /\ (B(buf, i - 1) = SP \/ B(buf, i - 1) = HT \/ B(buf, i - 1) = CR \/ B(buf, i - 1) = LF)
        SpTerm == TP_Ret([st EXCEPT !.state = "paramFIN"], IF prevWS THEN i - 1 ELSE i, OK)
    IN
    CASE st.state \in {"paramInit", "paramInitNxtVal", "paramFNxt"} ->
           IF isWS THEN TP_WS(buf, i, st, st, flags)
           ELSE IF c = sep THEN Step(st)                                     \* allow empty params, skip them
           ELSE IF isTerm THEN TP_Ret([st EXCEPT !.state = "paramFIN"], i, OK) \* terminator where a param could start
           ELSE IF ~ok THEN Bad
           ELSE IF st.state = "paramFNxt" THEN TP_MoreValues(st, i)
           ELSE Step([st EXCEPT !.state = "paramName", !.name = PFSet(i, i), !.all = PFSet(i, i)])
      [] st.state = "paramName" ->
           IF isWS THEN TP_WS(buf, i, st, [st EXCEPT !.state = "paramFEq", !.name = PFExtend(@, i),
                                                     !.all = PFExtend(@, i)], flags)
           ELSE IF c = EQ THEN Step([st EXCEPT !.name = PFExtend(@, i), !.all = PFExtend(@, i + 1),
                                               !.state = "paramFVal"])
           ELSE IF isTerm THEN TP_Ret([st EXCEPT !.name = PFExtend(@, i), !.all = PFExtend(@, i),
                                                 !.state = "paramFIN"], i, OK)
           ELSE IF c = sep THEN Step([st EXCEPT !.name = PFExtend(@, i), !.all = PFExtend(@, i),
                                                !.state = "paramFNxt"])
           ELSE IF ~ok THEN Bad
           ELSE Step(st)
      [] st.state = "paramFEq" ->
           IF isWS THEN TP_WS(buf, i, st, st, flags)
           ELSE IF c = EQ THEN Step([st EXCEPT !.state = "paramFVal"])       \* NOTE: All is not extended here
           ELSE IF isTerm THEN TP_Ret([st EXCEPT !.state = "paramFIN"], i, OK)
           ELSE IF c = sep THEN Step([st EXCEPT !.state = "paramFNxt"])
           ELSE IF ~ok THEN Bad
           ELSE IF TP_Has(flags, F_SpTerm) THEN SpTerm
           ELSE Bad
      [] st.state = "paramFVal" ->
           IF isWS THEN TP_WS(buf, i, st, st, flags)
           ELSE IF c = DQUOTE THEN Step([st EXCEPT !.val = PFSet(i, i), !.all = PFExtend(@, i),
                                                   !.state = "paramQuotedVal"])
           ELSE IF isTerm THEN TP_Ret([st EXCEPT !.val = PFSet(i, i), !.state = "paramFIN"], i, OK)  \* NOTE: All not extended
           ELSE IF c = sep THEN Step([st EXCEPT !.val = PFSet(i, i), !.all = PFExtend(@, i),
                                                !.state = "paramFNxt"])
           ELSE IF ~ok THEN Bad
           ELSE Step([st EXCEPT !.state = "paramVal", !.val = PFSet(i, i), !.all = PFExtend(@, i)])
      [] st.state = "paramVal" ->
           IF isWS THEN TP_WS(buf, i, st, [st EXCEPT !.state = "paramFSep", !.val = PFExtend(@, i),
                                                     !.all = PFExtend(@, i)], flags)
           ELSE IF isTerm THEN TP_Ret([st EXCEPT !.val = PFExtend(@, i), !.all = PFExtend(@, i),
                                                 !.state = "paramFIN"], i, OK)
           ELSE IF c = sep THEN Step([st EXCEPT !.val = PFExtend(@, i), !.all = PFExtend(@, i),
                                                !.state = "paramFNxt"])
           ELSE IF ~ok THEN Bad
           ELSE Step(st)
      [] st.state = "paramQuotedVal" ->
           LET q == SkipQuoted(buf, i) IN
             CASE q.e = MORE -> TP_MoreBytes(buf, q.o, st, flags)            \* i = n; goto moreBytes
               [] q.e = OK   -> TP_Run(buf, q.o, [st EXCEPT !.val = PFExtend(@, q.o), !.all = PFExtend(@, q.o),
                                                           !.state = "paramFSep"], flags)
               \* `if err == ErrHdrEOH { goto endOfHdr }` is dead code: SkipQuoted never returns EOH
               [] OTHER      -> TP_Ret(st, q.o, q.e)                         \* NOTE: state stays paramQuotedVal
      [] st.state = "paramFSep" ->
           IF isWS THEN TP_WS(buf, i, st, st, flags)
           ELSE IF isTerm THEN TP_Ret([st EXCEPT !.state = "paramFIN"], i, OK)
           ELSE IF c = sep THEN Step([st EXCEPT !.state = "paramFNxt"])
           ELSE IF ~ok THEN Bad
           ELSE IF TP_Has(flags, F_SpTerm) THEN SpTerm
           ELSE Bad
      [] OTHER -> Step(st)                                                   \* paramERR: no arm, i++

\* func ParseTokenParam(buf, offs, param, flags) (int, ErrorHdr)   -- raw: no PANIC verdict
TokParam_Parse(buf, offs, st, flags) ==
  IF st.state = "paramFIN" THEN TP_Ret(st, offs, OK)                         \* called again after finishing
  ELSE TP_Run(buf, offs, st, flags)

TokParam_Call(buf, offs, st, cfg) ==
  LET r == TokParam_Parse(buf, offs, st, cfg.flags) IN TP_Panicify(r, TokParam_Panicked(r.st))

----------------------------------------------------------------------------
\* URIParamF                                                  parse_uri_params.go:19-28
URIParamNone == 0     URIParamTransportF == 1   URIParamUserF == 2   URIParamMethodF == 4
URIParamTTLF == 8     URIParamMaddrF == 16      URIParamLRF == 32    URIParamOtherF == 64

\* func URIParamResolve(n []byte) URIParamF
URIParamResolve(n) ==
  CASE Len(n) = 9 /\ CmpEq(n, KW_transport) -> URIParamTransportF
    [] Len(n) = 2 /\ CmpEq(n, KW_lr)        -> URIParamLRF
    [] Len(n) = 5 /\ CmpEq(n, KW_maddr)     -> URIParamMaddrF
    [] Len(n) = 4 /\ CmpEq(n, KW_user)      -> URIParamUserF
    [] Len(n) = 6 /\ CmpEq(n, KW_method)    -> URIParamMethodF
    [] Len(n) = 3 /\ CmpEq(n, KW_ttl)       -> URIParamTTLF
    [] OTHER                                -> URIParamOtherF

TP_Cap(cfg) == IF cfg.pcap < 0 THEN 0 ELSE cfg.pcap
TP_Min(a, b) == IF a < b THEN a ELSE b
TP_Fill(k, e) == SubSeq([j \in 1..k |-> e], 1, k)

\* URIParam {Param PTokParam; T URIParamF}; Reset() = zero value
UP_El0 == [param |-> TokParam_New(<<>>), t |-> URIParamNone]

\* URIParamsLst {Params []URIParam; N int; Types URIParamF; tmp URIParam}; Init(pbuf) with a pristine array
URIParams_New(cfg) == [params |-> TP_Fill(TP_Cap(cfg), UP_El0), n |-> 0, types |-> URIParamNone, tmp |-> UP_El0]
\* Reset(): clears Params[0 .. min(N, len-1)] (N included: a possibly partially parsed param), keeps the array
URIParams_Reset(l) ==
  LET cap == Len(l.params) IN
    [params |-> SubSeq([j \in 1..cap |-> IF j - 1 <= l.n THEN UP_El0 ELSE l.params[j]], 1, cap),
     n |-> 0, types |-> URIParamNone, tmp |-> UP_El0]
UP_PNo(l) == TP_Min(l.n, Len(l.params))
URIParams_Obs(l) ==
  [N |-> l.n, Types |-> l.types, More |-> l.n > Len(l.params), Empty |-> l.n = 0,
   Params |-> SubSeq([j \in 1..UP_PNo(l) |-> [Param |-> TokParam_Obs(l.params[j].param), T |-> l.params[j].t]],
                     1, UP_PNo(l))]
URIParams_Panicked(l) ==
  \/ TokParam_Panicked(l.tmp.param)
  \/ \E j \in 1..Len(l.params) : TokParam_Panicked(l.params[j].param)

\* func ParseAllURIParams(buf, offs, l, flags) (int, int, ErrorHdr): the `for` loop.
\* p = &l.Params[l.N] if it exists, else the scratch element &l.tmp
RECURSIVE UP_Loop(_, _, _, _)
UP_Loop(buf, offs, l, flags) ==
  LET inArr  == l.n < Len(l.params)
      p      == IF inArr THEN l.params[l.n + 1] ELSE l.tmp
      Put(x, q) == IF inArr THEN [x EXCEPT !.params[l.n + 1] = q] ELSE [x EXCEPT !.tmp = q]
      r      == TokParam_Parse(buf, offs, p.param, flags)
      p1     == [p EXCEPT !.param = r.st]
  IN
  IF TokParam_Panicked(r.st) THEN TP_Ret(Put(l, p1), r.offs, PANIC)
  ELSE
    CASE r.err \in {OK, MOREVALUES, EOH} ->
           \* NOTE: an EOH verdict without any param (state paramInit, empty Name) is counted as a value of
           \* type URIParamOtherF too.
           IF ~PFGetOk(buf, r.st.name) THEN TP_Ret(Put(l, p1), r.offs, PANIC)   \* Name.Get(buf) out of range
           ELSE
             LET t  == URIParamResolve(PFGet(buf, r.st.name))
                 l1 == Put(l, [p1 EXCEPT !.t = t])
                 l2 == [l1 EXCEPT !.types = TP_Or(@, t), !.n = @ + 1]
                 l3 == IF inArr THEN l2 ELSE [l2 EXCEPT !.tmp = UP_El0]         \* l.tmp.Reset()
             IN IF r.err = MOREVALUES THEN UP_Loop(buf, r.offs, l3, flags)     \* offs = next; continue
                ELSE TP_Ret(l3, r.offs, r.err)
      [] r.err = MORE -> TP_Ret(Put(l, p1), r.offs, MORE)                        \* do nothing -> exit
      [] OTHER        -> TP_Ret(Put(l, UP_El0), r.offs, r.err)                   \* p.Reset()

URIParams_Parse(buf, offs, l, flags) == UP_Loop(buf, offs, l, TP_Or(flags, F_SemiSep))
URIParams_Call(buf, offs, l, cfg) == URIParams_Parse(buf, offs, l, cfg.flags)

----------------------------------------------------------------------------
\* type URIHdr PTokParam; URIHdrsLst {Hdrs []URIHdr; N int; tmp URIHdr}
UH_El0 == TokParam_New(<<>>)
URIHdrs_New(cfg) == [hdrs |-> TP_Fill(TP_Cap(cfg), UH_El0), n |-> 0, tmp |-> UH_El0]
URIHdrs_Reset(l) ==
  LET cap == Len(l.hdrs) IN
    [hdrs |-> SubSeq([j \in 1..cap |-> IF j - 1 <= l.n THEN UH_El0 ELSE l.hdrs[j]], 1, cap),
     n |-> 0, tmp |-> UH_El0]
UH_HNo(l) == TP_Min(l.n, Len(l.hdrs))
URIHdrs_Obs(l) ==
  [N |-> l.n, More |-> l.n > Len(l.hdrs), Empty |-> l.n = 0,
   Hdrs |-> SubSeq([j \in 1..UH_HNo(l) |-> TokParam_Obs(l.hdrs[j])], 1, UH_HNo(l))]
URIHdrs_Panicked(l) ==
  \/ TokParam_Panicked(l.tmp)
  \/ \E j \in 1..Len(l.hdrs) : TokParam_Panicked(l.hdrs[j])

\* func ParseAllURIHdrs(buf, offs, l, flags) (int, int, ErrorHdr): the `for` loop
RECURSIVE UH_Loop(_, _, _, _)
UH_Loop(buf, offs, l, flags) ==
  LET inArr  == l.n < Len(l.hdrs)
      h      == IF inArr THEN l.hdrs[l.n + 1] ELSE l.tmp
      Put(x, q) == IF inArr THEN [x EXCEPT !.hdrs[l.n + 1] = q] ELSE [x EXCEPT !.tmp = q]
      r      == TokParam_Parse(buf, offs, h, flags)
  IN
  IF TokParam_Panicked(r.st) THEN TP_Ret(Put(l, r.st), r.offs, PANIC)
  ELSE
    CASE r.err \in {OK, MOREVALUES, EOH} ->
           LET l1 == Put(l, r.st)
               l2 == [l1 EXCEPT !.n = @ + 1]
               l3 == IF inArr THEN l2 ELSE [l2 EXCEPT !.tmp = UH_El0]           \* l.tmp.Reset()
           IN IF r.err = MOREVALUES THEN UH_Loop(buf, r.offs, l3, flags)
              ELSE TP_Ret(l3, r.offs, r.err)
      [] r.err = MORE -> TP_Ret(Put(l, r.st), r.offs, MORE)
      [] OTHER        -> TP_Ret(Put(l, UH_El0), r.offs, r.err)                   \* h.Reset()

URIHdrs_Parse(buf, offs, l, flags) == UH_Loop(buf, offs, l, TP_Or(TP_Or(flags, F_AmpSep), F_URIHdr))
URIHdrs_Call(buf, offs, l, cfg) == URIHdrs_Parse(buf, offs, l, cfg.flags)
=============================================================================
