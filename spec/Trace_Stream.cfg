SPECIFICATION TSpec
CONSTANTS
  OffsMod = 65536
  TraceFile = "trace.ndjson"
INVARIANT Report
POSTCONDITION Accepted
CHECK_DEADLOCK FALSE
