---------------------------- MODULE Trace_Stream ----------------------------
(***************************************************************************)
(* Trace validation (code -> spec).  The Go harness records real executions *)
(* as ndjson, one event per public call, at its return (a sequential        *)
(* library: the linearisation point of every action is the call's return):  *)
(*   new{cfg}  send{bytes}  call{in,out,err,obs,fresh{out,err,obs}}         *)
(*   reset{}   nextmsg{}                                                     *)
(* This spec consumes them with the actions of the protocol spec (Stream):  *)
(* TSend = Send of the logged bytes, TCall = Call bound to the logged       *)
(* argument and compared with the logged result, TReset / TNextMsg = the    *)
(* object's Reset.  Every line is consumed (a linear behaviour):            *)
(*  - `drift` collects the lines where the model's Call result differs from *)
(*    the logged real result (model/code divergence -- never a verdict);    *)
(*  - `bad` collects the lines where a PROPERTY FORMULA evaluated on the    *)
(*    LOGGED REAL VALUES is false: ResumeEqFreshLogged (C01/C02: the real   *)
(*    resumed call vs a real fresh parser on the same prefix), OffsSaneLogged *)
(*    (C04).                                                                *)
(* Acceptance: POSTCONDITION Accepted (every line consumed).                *)
(***************************************************************************)
EXTENDS Kinds, Json, TLC

CONSTANT TraceFile
TraceLog == ndJsonDeserialize(TraceFile)

VARIABLES l,        \* next line of the trace
          wire, cont, obj, verdict, cfg,
          drift, bad
tvars == <<l, wire, cont, obj, verdict, cfg, drift, bad>>

Ev == TraceLog[l]
IsEvent(e) == l <= Len(TraceLog) /\ Ev.ev = e /\ l' = l + 1

Definitive(e) == e # "more" /\ e # "PANIC"
IsErrV(e) == e \notin {"ok", "more", "eoh", "empty", "morevalues"}

\* property formulas on logged real values
ResumeEqFreshLogged(e) ==
  /\ e.out = e.fresh.out /\ e.err = e.fresh.err
  /\ (Definitive(e.err) => e.obs = e.fresh.obs)
OffsSaneLogged(e, n) ==
  /\ e.err # "PANIC" /\ e.out >= 0 /\ e.out <= n /\ (~IsErrV(e.err) => e.out >= e.in)

TInit == /\ l = 1 /\ wire = <<>> /\ cont = 0 /\ verdict = "more" /\ drift = <<>> /\ bad = <<>>
         /\ cfg = [kind |-> "uint", start |-> 0, flags |-> 0, hcap |-> -1, ccap |-> -1, pcap |-> -1]
         /\ obj = KNew(cfg)

TNew == /\ IsEvent("new")
        /\ cfg' = Ev.cfg /\ obj' = KNew(Ev.cfg) /\ wire' = <<>> /\ cont' = Ev.cfg.start /\ verdict' = "more"
        /\ UNCHANGED <<drift, bad>>

TSend == /\ IsEvent("send")
         /\ wire' = wire \o Ev.bytes
         /\ UNCHANGED <<cont, obj, verdict, cfg, drift, bad>>

\* Stream!Call bound to the logged argument; the logged result is adopted (offset, verdict) so that one
\* divergence does not hide the rest of the trace
TCall == /\ IsEvent("call")
         /\ LET r == KCall(wire, Ev.in, obj, cfg)
                same == /\ Ev.in = cont /\ r.offs = Ev.out /\ r.err = Ev.err
                        /\ (Definitive(Ev.err) => KObs(r.st, cfg) = Ev.obs)
            IN /\ obj' = r.st /\ cont' = Ev.out /\ verdict' = Ev.err
               /\ drift' = IF same THEN drift ELSE Append(drift, l)
               /\ bad' = bad \o (IF ResumeEqFreshLogged(Ev) THEN <<>> ELSE << <<l, "resume">> >>)
                             \o (IF OffsSaneLogged(Ev, Len(wire)) THEN <<>> ELSE << <<l, "sane">> >>)
         /\ UNCHANGED <<wire, cfg>>

TReset == /\ IsEvent("reset")
          /\ obj' = KReset(obj, cfg) /\ wire' = <<>> /\ cont' = cfg.start /\ verdict' = "more"
          /\ UNCHANGED <<cfg, drift, bad>>

\* pipelining: Reset, then continue in the same buffer at the returned offset
TNextMsg == /\ IsEvent("nextmsg")
            /\ obj' = KReset(obj, cfg) /\ verdict' = "more"
            /\ UNCHANGED <<wire, cont, cfg, drift, bad>>

TNext == TNew \/ TSend \/ TCall \/ TReset \/ TNextMsg
TSpec == TInit /\ [][TNext]_tvars

\* printed once, in the final state
Report == (l = Len(TraceLog) + 1) => PrintT(<<"TRACE-RESULT", Len(TraceLog), drift, bad>>)
Accepted == TLCGet("stats").diameter - 1 = Len(TraceLog)
=============================================================================
