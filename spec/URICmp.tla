------------------------------- MODULE URICmp -------------------------------
(***************************************************************************)
(* sipuri.go: URICmpShort, URICmp, URIParseCmp, URIRawCmp;                  *)
(* parse_uri_params.go: URIParamsLstEq, URIParamsEq;                        *)
(* parse_uri_hdrs.go: URIHdrsLstEq, URIHdrsEq.                              *)
(* One operator per Go function, same order of tests, same early exits.     *)
(*                                                                          *)
(* ParseURI comes from SipURI (named instance SU: SipURI and TokParam both  *)
(* define a `Step`), the list parsers from TokParam.                        *)
(*                                                                          *)
(* Results that can panic are records [eq, panic] / verdict PANIC: the only *)
(* panics are PField.Get out of range (ParseAllURIParams reading a name),   *)
(* impossible for fields ParseURI has just set on the same buffer.          *)
(***************************************************************************)
EXTENDS TokParam

SU == INSTANCE SipURI

\* URICmpFlags
URICmpSkipPort == 1     URICmpSkipScheme == 2   URICmpSkipUser == 4
URICmpSkipPass == 8     URICmpSkipParams == 16  URICmpSkipHeaders == 32
UC_Has(flags, m) == (flags \div m) % 2 = 1

\* func URICmpShort(u1, buf1, u2, buf2, flags) bool
\* NOTE: the host is always compared (no skip flag); the port is compared as the NUMBER PortNo ("" = 0).
URICmpShort(u1, b1, u2, b2, flags) ==
  /\ (UC_Has(flags, URICmpSkipScheme) \/ u1.type = u2.type)
  /\ (UC_Has(flags, URICmpSkipPort)   \/ u1.portno = u2.portno)
  /\ (UC_Has(flags, URICmpSkipUser)   \/ PFGet(b1, u1.user) = PFGet(b2, u2.user))        \* bytes.Equal
  /\ (UC_Has(flags, URICmpSkipPass)   \/ PFGet(b1, u1.pass) = PFGet(b2, u2.pass))
  /\ CmpEq(PFGet(b1, u1.host), PFGet(b2, u2.host))

----------------------------------------------------------------------------
\* l.Types & (URIParamUserF | URIParamTTLF | URIParamMethodF | URIParamMaddrF) = bits 1..4, compared for equality only
UC_BMask(t) == (t \div 2) % 16

\* func URIParamsLstEq(l1, buf1, l2, buf2) bool: the two nested loops.
\* UPL_J: the inner `for j`; FALSE = `return false`, TRUE = go on with the next i (after `break` or when l2 is exhausted:
\* a parameter of l1 that l2 does not have is ignored)
RECURSIVE UPL_J(_, _, _, _, _, _), UPL_I(_, _, _, _, _)
UPL_J(l1, b1, l2, b2, i, j) ==
  IF j >= UP_PNo(l2) THEN TRUE
  ELSE LET p == l1.params[i + 1]
           q == l2.params[j + 1]
       IN IF p.t = q.t /\ (p.t # URIParamOtherF \/ CmpEq(PFGet(b1, p.param.name), PFGet(b2, q.param.name)))
          THEN CmpEq(PFGet(b1, p.param.val), PFGet(b2, q.param.val))          \* mismatch: return false; else break
          ELSE UPL_J(l1, b1, l2, b2, i, j + 1)
UPL_I(l1, b1, l2, b2, i) ==
  IF i >= UP_PNo(l1) THEN TRUE
  ELSE IF ~UPL_J(l1, b1, l2, b2, i, 0) THEN FALSE
  ELSE UPL_I(l1, b1, l2, b2, i + 1)
URIParamsLstEq(l1, b1, l2, b2) ==
  IF UC_BMask(l1.types) # UC_BMask(l2.types) THEN FALSE
  ELSE UPL_I(l1, b1, l2, b2, 0)

\* var pbuf1, pbuf2 [100]URIParam; plst.Init(pbuf[:])
UC_PL0 == URIParams_New([pcap |-> 100])
UC_PFlags == F_URIParam + F_InputEnd
\* func URIParamsEq(buf1, offs1, buf2, offs2) (bool, ErrorHdr)            result [eq, err]
\* NOTE: an empty text parses (verdict EOH) into ONE parameter with an empty name of type URIParamOtherF
\* (TokParam.UP_Loop), so "no parameters" is a list of length 1.
\* The *K operators are the function bodies with their PURE sub-calls handed in (here r1, r2 = the two
\* ParseAllURIParams results; TLC evaluates arguments lazily, so r2 is not needed when r1 failed, as in the code):
\* a caller that compares the same texts several times shares the sub-results instead of evaluating them again.
URIParamsParse(b, o) == URIParams_Parse(b, o, UC_PL0, UC_PFlags)
URIParamsEqK(r1, b1, r2, b2) ==
  IF r1.err # OK /\ r1.err # EOH THEN [eq |-> FALSE, err |-> r1.err]
  ELSE IF r2.err # OK /\ r2.err # EOH THEN [eq |-> FALSE, err |-> r2.err]
  ELSE [eq |-> URIParamsLstEq(r1.st, b1, r2.st, b2), err |-> OK]
URIParamsEq(b1, o1, b2, o2) == URIParamsEqK(URIParamsParse(b1, o1), b1, URIParamsParse(b2, o2), b2)

----------------------------------------------------------------------------
\* func URIHdrsLstEq(l1, buf1, l2, buf2) bool
\* UHL_J: the inner `for j`, returns `found`.
\* NOTE: on the first name match with a different value the code `break`s with found = false (the comment there says
\* "continue trying", the statement leaves the loop).
RECURSIVE UHL_J(_, _, _, _, _, _), UHL_I(_, _, _, _, _)
UHL_J(l1, b1, l2, b2, i, j) ==
  IF j >= UH_HNo(l2) THEN FALSE
  ELSE LET h == l1.hdrs[i + 1]
           g == l2.hdrs[j + 1]
       IN IF CmpEq(PFGet(b1, h.name), PFGet(b2, g.name))
          THEN CmpEq(PFGet(b1, h.val), PFGet(b2, g.val))
          ELSE UHL_J(l1, b1, l2, b2, i, j + 1)
UHL_I(l1, b1, l2, b2, i) ==
  IF i >= UH_HNo(l1) THEN TRUE
  ELSE IF ~UHL_J(l1, b1, l2, b2, i, 0) THEN FALSE                          \* present only in the first
  ELSE UHL_I(l1, b1, l2, b2, i + 1)
URIHdrsLstEq(l1, b1, l2, b2) ==
  IF UH_HNo(l1) # UH_HNo(l2) THEN FALSE                                    \* different number of headers
  ELSE UHL_I(l1, b1, l2, b2, 0)

UC_HL0 == URIHdrs_New([pcap |-> 100])
UC_HFlags == F_URIHdr + F_InputEnd
\* func URIHdrsEq(buf1, offs1, buf2, offs2) (bool, ErrorHdr)              result [eq, err]
\* NOTE: as for parameters, an empty text is a list of ONE header with an empty name.
URIHdrsParse(b, o) == URIHdrs_Parse(b, o, UC_HL0, UC_HFlags)
URIHdrsEqK(r1, b1, r2, b2) ==
  IF r1.err # OK /\ r1.err # EOH THEN [eq |-> FALSE, err |-> r1.err]
  ELSE IF r2.err # OK /\ r2.err # EOH THEN [eq |-> FALSE, err |-> r2.err]
  ELSE [eq |-> URIHdrsLstEq(r1.st, b1, r2.st, b2), err |-> OK]
URIHdrsEq(b1, o1, b2, o2) == URIHdrsEqK(URIHdrsParse(b1, o1), b1, URIHdrsParse(b2, o2), b2)

----------------------------------------------------------------------------
\* func URICmp(u1, buf1, u2, buf2, flags) bool                            result [eq, panic]
\* the error of URIParamsEq / URIHdrsEq is dropped (`ok, _ :=`): a list that does not parse compares as different
\* URICmpK: the body with ret0 = URICmpShort(...), pe = URIParamsEq(...), he = URIHdrsEq(...) handed in
URICmpK(ret0, pe, he, flags) ==
  LET doP  == ret0 /\ ~UC_Has(flags, URICmpSkipParams)
      ret1 == IF doP THEN pe.eq ELSE ret0
      doH  == ret1 /\ ~UC_Has(flags, URICmpSkipHeaders)
      ret2 == IF doH THEN he.eq ELSE ret1
  IN [eq |-> ret2, panic |-> (doP /\ pe.err = PANIC) \/ (doH /\ he.err = PANIC)]
URICmpX(u1, b1, u2, b2, flags) ==
  URICmpK(URICmpShort(u1, b1, u2, b2, flags),
          URIParamsEq(PFGet(b1, u1.params), 0, PFGet(b2, u2.params), 0),
          URIHdrsEq(PFGet(b1, u1.headers), 0, PFGet(b2, u2.headers), 0), flags)
URICmp(u1, b1, u2, b2, flags) == URICmpX(u1, b1, u2, b2, flags).eq

\* func URIParseCmp(rawURI1, rawURI2, flags, r1, r2) (bool, ErrorURI, int)
\* result [eq, err, which, r1, r2]; r1 / r2 = what the caller's (zeroed) structures hold afterwards.
\* URIParseCmpK is the body with its pure sub-calls handed in (p1 = ParseURI(raw1), p2 = ParseURI(raw2),
\* cmp = URICmp of the two results): the callers below share them instead of evaluating them again.
URIParseCmpK(p1, p2, cmp) ==
  IF p1.err # OK THEN [eq |-> FALSE, err |-> p1.err, which |-> 0, r1 |-> SU!URI0, r2 |-> SU!URI0]
  ELSE IF p2.err # OK THEN [eq |-> FALSE, err |-> p2.err, which |-> 1, r1 |-> p1.uri, r2 |-> SU!URI0]
  ELSE [eq |-> cmp, err |-> OK, which |-> 0, r1 |-> p1.uri, r2 |-> p2.uri]
URIParseCmp(raw1, raw2, flags) ==
  LET p1 == SU!URI_Parse(raw1)
      p2 == SU!URI_Parse(raw2)
  IN URIParseCmpK(p1, p2, URICmp(p1.uri, raw1, p2.uri, raw2, flags))
\* func URIRawCmp(rawURI1, rawURI2, flags) (bool, ErrorURI, int) = URIParseCmp(..., nil, nil)
URIRawCmpK(p1, p2, cmp) == LET r == URIParseCmpK(p1, p2, cmp) IN [eq |-> r.eq, err |-> r.err, which |-> r.which]
URIRawCmp(raw1, raw2, flags) == LET r == URIParseCmp(raw1, raw2, flags) IN [eq |-> r.eq, err |-> r.err, which |-> r.which]

----------------------------------------------------------------------------
\* What harness/fn.go renders: "URICmp", "URIParamsEq", "URIHdrsEq"
UC_PanicRes == [panic |-> TRUE]

\* URICmp_ResK: with the two ParseURI results (p1, p2) and the URICmpX result (c) handed in
URICmp_ResK(p1, s, p2, s2, flags, c) ==
  IF p1.err = PANIC \/ p2.err = PANIC THEN UC_PanicRes
  ELSE IF p1.err # OK \/ p2.err # OK THEN [err1 |-> p1.err, err2 |-> p2.err]
  ELSE LET pc == URIParseCmpK(p1, p2, c.eq)
           rc == URIRawCmpK(p1, p2, c.eq)
       IN IF c.panic THEN UC_PanicRes
          ELSE [err1 |-> p1.err, err2 |-> p2.err,
                eq |-> c.eq, eqshort |-> URICmpShort(p1.uri, s, p2.uri, s2, flags),
                peq |-> pc.eq, perr |-> pc.err, pwhich |-> pc.which,
                r1ok |-> pc.r1 = p1.uri, r2ok |-> pc.r2 = p2.uri,
                req |-> rc.eq, rerr |-> rc.err, rwhich |-> rc.which]
URICmp_ResP(p1, s, p2, s2, flags) == URICmp_ResK(p1, s, p2, s2, flags, URICmpX(p1.uri, s, p2.uri, s2, flags))
URICmp_Res(s, s2, flags) == URICmp_ResP(SU!URI_Parse(s), s, SU!URI_Parse(s2), s2, flags)

ListEq_Res(r) == IF r.err = PANIC THEN UC_PanicRes ELSE [eq |-> r.eq, err |-> r.err]
URIParamsEq_Res(s, s2) == ListEq_Res(URIParamsEq(s, 0, s2, 0))
URIHdrsEq_Res(s, s2)   == ListEq_Res(URIHdrsEq(s, 0, s2, 0))
=============================================================================
