------------------------------ MODULE URIProps ------------------------------
(***************************************************************************)
(* Declarative (Decl) predicates for the URI properties C14, C10 (port) and *)
(* C18, written from the property statements, not from the automaton.       *)
(* They are evaluated on a model result r = URI_Parse(s) = [err, offs, uri] *)
(* (uri with RAW PFields [o, l]).                                           *)
(***************************************************************************)
EXTENDS SipURI

Accepted(r) == r.err = OK

\* the seven components in the order the property lists them
Comps(u) == <<u.scheme, u.user, u.pass, u.host, u.port, u.params, u.headers>>
K_SCHEME == 1  K_USER == 2  K_PASS == 3  K_HOST == 4  K_PORT == 5  K_PARAMS == 6  K_HEADERS == 7

Text(s, f) == Slice(s, f.o, f.o + f.l)
InField(q, f) == f.o <= q /\ q < f.o + f.l
MaxOf(S) == CHOOSE x \in S : \A y \in S : y <= x

SchemeSip  == <<115, 105, 112, 58>>          \* "sip:"
SchemeSips == <<115, 105, 112, 115, 58>>     \* "sips:"
SchemeTel  == <<116, 101, 108, 58>>          \* "tel:"

(***************************************************************************)
(* C14.  Tiling(s, u, present): the components selected by `present`, in    *)
(* the order scheme,user,pass,host,port,params,headers, are increasing and  *)
(* disjoint; the first starts at 0; the gap in front of each one is exactly *)
(* the delimiter its kind requires (user: none; pass ':'; host '@' when a   *)
(* user or password precedes it, none directly after the scheme; port ':';  *)
(* params ';'; headers '?'); the last one ends at Len(s).                   *)
(*                                                                          *)
(* Which components are "present"?  Two readings, both stated:              *)
(*  - PresentRaw: non-empty, OR empty with a recorded (non-zero) offset.    *)
(*    The code records the position of an empty port / password / params /  *)
(*    headers ("sip:a@b:" -> Port {8,0}; "sip:a@b;" -> Params {8,0};        *)
(*    "sip:a:@b" -> Pass {6,0}), so with this reading the trailing or inner *)
(*    delimiter of an empty part is accounted for.  Used by Lossless.       *)
(*  - PresentNE: non-empty only (all a caller sees through PField.Get: the  *)
(*    offset of an empty field is meaningless, cf. PFObs).  With this       *)
(*    reading a delimiter followed by an empty part belongs to nothing.     *)
(*    Used by LosslessStrict; it fails exactly on URIs with an empty part   *)
(*    after its delimiter, which RFC 3261 does not allow but the code       *)
(*    accepts.                                                              *)
(***************************************************************************)
PresentRaw(f) == f.l > 0 \/ f.o > 0
PresentNE(f)  == f.l > 0

Delim(s, u, k, j) ==       \* required gap in front of component k whose present predecessor is j
  CASE k = K_USER    -> <<>>
    [] k = K_PASS    -> <<COLON>>
    [] k = K_HOST    -> IF j = K_SCHEME THEN <<>> ELSE <<AT>>
    [] k = K_PORT    -> <<COLON>>
    [] k = K_PARAMS  -> <<SEMI>>
    [] k = K_HEADERS -> <<QM>>

Tiling(s, u, present(_)) ==
  LET c == Comps(u)
      P == {k \in 1..7 : present(c[k])}
      prev(k) == MaxOf({j \in P : j < k})
  IN /\ K_SCHEME \in P /\ c[K_SCHEME].o = 0
     /\ \A k \in P : c[k].o + c[k].l <= Len(s)
     /\ \A k \in P \ {K_SCHEME} :
          LET j == prev(k) IN
            /\ c[j].o + c[j].l <= c[k].o                                   \* ordered, disjoint
            /\ Slice(s, c[j].o + c[j].l, c[k].o) = Delim(s, u, k, j)       \* exactly the delimiter
     /\ LET z == MaxOf(P) IN c[z].o + c[z].l = Len(s)                       \* nothing left over

\* the scheme component is the scheme name with its ':' (any letter case) and agrees with URIType
SchemeText(s, u) ==
  \/ u.type = SIPuri  /\ CmpEq(Text(s, u.scheme), SchemeSip)
  \/ u.type = SIPSuri /\ CmpEq(Text(s, u.scheme), SchemeSips)
  \/ u.type = TELuri  /\ CmpEq(Text(s, u.scheme), SchemeTel)

\* "';' and '?' before an '@' belong to the user part"
UserOwnsSemiQm(s, u) ==
  \A p \in 0..(Len(s) - 1), q \in 0..(Len(s) - 1) :
     (B(s, p) = AT /\ q < p /\ q >= u.scheme.l /\ B(s, q) \in {SEMI, QM}) => InField(q, u.user)

\* "bracketed IPv6 hosts keep their brackets"
BracketsKept(s, u) ==
  (u.host.l > 0 /\ B(s, u.host.o) = LBRACK) => B(s, u.host.o + u.host.l - 1) = RBRACK

LosslessWith(s, r, present(_)) ==
  /\ (Accepted(r) /\ r.uri.type \in {SIPuri, SIPSuri}) =>
        /\ r.offs = Len(s)
        /\ SchemeText(s, r.uri)
        /\ Tiling(s, r.uri, present)
        /\ UserOwnsSemiQm(s, r.uri)
        /\ BracketsKept(s, r.uri)
  /\ (Accepted(r) /\ r.uri.type = TELuri) =>            \* the number is the user, the host is empty
        /\ r.offs = Len(s)
        /\ SchemeText(s, r.uri)
        /\ r.uri.host.l = 0 /\ r.uri.user.l > 0
  /\ Accepted(r) => r.uri.type \in {SIPuri, SIPSuri, TELuri}
  /\ ~Accepted(r) => (0 <= r.offs /\ r.offs <= Len(s))

Lossless(s, r)       == LosslessWith(s, r, PresentRaw)
LosslessStrict(s, r) == LosslessWith(s, r, PresentNE)

\* KNOWN FAILURE of Lossless (SchemeText; reproduced on the Go code): the scheme is matched with
\* `| 0x20202020` on the first four bytes, and 0x1a | 0x20 = ':' -- so "sip\x1aa@b" is accepted as a sip: URI
\* (Scheme = "sip\x1a") and "tel\x1a123" as a tel: URI: the scheme delimiter is not ':'.  ("sips\x1a" is
\* rejected: that ':' is compared exactly.)  Exception set for LosslessExceptKnown only.
KnownSubColon(s) == Len(s) >= 4 /\ B(s, 3) = 26

\* Stronger readings of "nothing is ... attributed to the wrong component", kept separate so that
\* a failure is reported on its own:
\*  every '@' of an accepted sip:/sips: URI is the user-info delimiter, i.e. lies in no component
NoStrayAt(s, r) ==
  (Accepted(r) /\ r.uri.type \in {SIPuri, SIPSuri}) =>
     \A p \in 0..(Len(s) - 1) : B(s, p) = AT => \A k \in 1..7 : ~InField(p, Comps(r.uri)[k])
\*  tel: URIs decompose losslessly too (scheme, number as user, params, headers)
TelLossless(s, r) ==
  (Accepted(r) /\ r.uri.type = TELuri) => Tiling(s, r.uri, PresentRaw)

(***************************************************************************)
(* C10 (URI port): PortNo is the decimal value of the Port digit string,    *)
(* which is <= 65535; empty port => 0.  64 bit limbs: exact up to 19 digits.*)
(***************************************************************************)
PortExact(s, r) ==
  Accepted(r) =>
    LET ds == Text(s, r.uri.port) IN
      /\ \A k \in 1..Len(ds) : IsDigit(ds[k])
      /\ Len(ds) <= 19
      /\ DecValue(ds, 4) = NatLimbs(4, r.uri.portno)
      /\ r.uri.portno <= 65535

(***************************************************************************)
(* C18, views (on an accepted parse result):                                *)
(*  Long covers scheme .. end of the last non-empty component; Short stops  *)
(*  at host/port (= Long of the truncated URI) and is a prefix of Long;     *)
(*  Truncate removes exactly params and headers; Flat is the Long text.     *)
(***************************************************************************)
NonEmptyEnds(u) == {Comps(u)[k].o + Comps(u)[k].l : k \in {j \in 1..7 : Comps(u)[j].l > 0}}
DeclLong(u)  == [o |-> u.scheme.o, l |-> MaxOf(NonEmptyEnds(u)) - u.scheme.o]
DeclTrunc(u) == [u EXCEPT !.params = PF0, !.headers = PF0]

ViewsOk(s, r) ==
  Accepted(r) =>
    LET u == r.uri IN
      /\ URI_Long(u) = DeclLong(u)
      /\ URI_Short(u) = DeclLong(DeclTrunc(u))
      /\ URI_Short(u).o = URI_Long(u).o /\ URI_Short(u).l <= URI_Long(u).l
      /\ URI_Obs(URI_Truncate(u)) = URI_Obs(DeclTrunc(u))
      /\ URI_FlatOk(s, u) /\ URI_Flat(s, u) = Text(s, DeclLong(u))

\* KNOWN FAILURE of ViewsOk (reproduced on the Go code): an accepted tel: URI with a password, e.g.
\* "tel:a:b@c" -> User = "c"@8 (moved there by the tel: swap), Pass = "b"@6: the user lies AFTER the password,
\* Long() stops at the password ("tel:a:b") while Short() = "tel:a:b@c": Short is not a prefix of Long and
\* Long/Flat do not cover the last non-empty component.  Exception set for ViewsExceptKnown only.
KnownTelPass(r) == Accepted(r) /\ r.uri.type = TELuri /\ r.uri.pass.l > 0

(***************************************************************************)
(* C18, relocation.  s accepted (r0 = URI_Parse(s)), the same text is       *)
(* assumed at offs in another buffer, span length len, offs + Len(s) <=     *)
(* OffsMod - 1 (the quantifier: target offsets 0 .. 65535 - len(URI)).      *)
(* a = URI_AdjustOffs(r0.uri, [o |-> offs, l |-> len]) = [panic, ok, uri].  *)
(*  span >= URI length: ok, every component denotes the same bytes, i.e. a  *)
(*    non-empty component moved by exactly offs - (old start), an empty one *)
(*    is still empty; type and port number untouched;                       *)
(*  span <  URI length: refused, structure untouched.  Never a panic.       *)
(* The URI length is Len(s): the parser consumed the whole input.           *)
(***************************************************************************)
SameBytes(f, g, d) == IF f.l = 0 THEN g.l = 0 ELSE (g.l = f.l /\ g.o = f.o + d)

\* the target span is a span of some buffer: buffers have at most OffsMod - 1 bytes (16 bit offsets)
SpanInBuffer(offs, len) == 0 <= offs /\ 0 <= len /\ offs + len <= OffsMod - 1

RelocateOk(s, offs, len, a) ==
  LET u == URI_Parse(s).uri IN
    SpanInBuffer(offs, len) =>
      /\ ~a.panic
      /\ len >= Len(s) =>
           /\ a.ok
           /\ \A k \in 1..7 : SameBytes(Comps(u)[k], Comps(a.uri)[k], offs - u.scheme.o)
           /\ a.uri.type = u.type /\ a.uri.portno = u.portno
           \* and the views move along
           /\ SameBytes(URI_Long(u), URI_Long(a.uri), offs - u.scheme.o)
           /\ SameBytes(URI_Short(u), URI_Short(a.uri), offs - u.scheme.o)
      /\ len < Len(s) => (~a.ok /\ a.uri = u)

\* Outside the property's quantifier (a span {offs, len} with offs + len > 65535 is not a span of any buffer):
\* `end := offs + newpos.Len` wraps and AdjustOffs panics after rewriting the offsets.  Stated for the record.
RelocateNoPanic(s, offs, len, a) == ~a.panic
=============================================================================
