------------------------------ MODULE ValLists ------------------------------
(***************************************************************************)
(* parse_contact.go: PContacts (Vals, N, HNo, MaxExpires, MinExpires,       *)
(* LastHVal, last, first), VNo, GetContact, More, Reset, Init, Empty,       *)
(* Parsed, ParseAllContactValues;                                           *)
(* parse_pai.go: PPAIs (Vals [2], N, HNo, LastHVal, last), VNo, GetPAI,     *)
(* More, Reset, Empty, Parsed, ParseAllPAIValues.                           *)
(* Vals is a sequence of PFromBody records (NameAddr.tla): the caller's     *)
(* array for contacts (length = cfg.ccap, 0 for a nil / empty array), the   *)
(* built-in 2 element array for PAIs.                                       *)
(* A Go panic (PField.Set / Extend) stops the call at once: err = PANIC.    *)
(***************************************************************************)
EXTENDS NameAddr

VL_Max0(n) == IF n < 0 THEN 0 ELSE n
VL_Array(n) == SubSeq([j \in 1..n |-> NA_Zero], 1, n)

----------------------------------------------------------------------------
\* PContacts; Init(make([]PFromBody, ccap))
Contacts_New(cfg) == [vals |-> VL_Array(VL_Max0(cfg.ccap)), n |-> 0, hno |-> 0,
                      maxexp |-> Zero(2), minexp |-> Zero(2), lasthval |-> PF0,
                      last |-> NA_Zero, first |-> NA_Zero]

Contacts_VNo(c)   == IF c.n > Len(c.vals) THEN Len(c.vals) ELSE c.n
Contacts_More(c)  == c.n > Len(c.vals)
Contacts_Empty(c) == c.n = 0
Contacts_Parsed(c) == c.n > 0

\* func (c *PContacts) Reset(): for i := 0; i <= c.N && i < len(c.Vals); i++ { Vals[i].Reset() }; all else zero
Contacts_Reset(c) ==
  [vals |-> SubSeq([j \in 1..Len(c.vals) |-> IF j - 1 <= c.n THEN NA_Zero ELSE c.vals[j]], 1, Len(c.vals)),
   n |-> 0, hno |-> 0, maxexp |-> Zero(2), minexp |-> Zero(2), lasthval |-> PF0,
   last |-> NA_Zero, first |-> NA_Zero]

\* func (c *PContacts) GetContact(n int) *PFromBody: which object the returned pointer designates
\* ("null" = nil); the projection of a nil pointer is the record [nil |-> TRUE] (obs.go: {"nil":true}).
Contacts_GetSel(c, k) ==
  IF Contacts_VNo(c) > k THEN "vals"
  ELSE IF Contacts_Empty(c) THEN "null"
  ELSE IF c.n = k + 1 THEN "last"            \* NOTE: &c.last, whatever it holds now (it is re-used for the next value)
  ELSE IF k = 0 THEN "first"
  ELSE "null"
VL_NilObs == [nil |-> TRUE]
Contacts_GetObs(c, k) ==
  LET sel == Contacts_GetSel(c, k) IN
    CASE sel = "vals"  -> NameAddr_Obs(c.vals[k + 1])
      [] sel = "last"  -> NameAddr_Obs(c.last)
      [] sel = "first" -> NameAddr_Obs(c.first)
      [] OTHER         -> [nil |-> TRUE]

Contacts_Obs(c) ==
  [N |-> c.n, HNo |-> c.hno, MaxExpires |-> c.maxexp, MinExpires |-> c.minexp,
   LastHVal |-> PFObs(c.lasthval), More |-> Contacts_More(c), Empty |-> Contacts_Empty(c),
   Parsed |-> Contacts_Parsed(c),
   Vals |-> SubSeq([j \in 1..Contacts_VNo(c) |-> NameAddr_Obs(c.vals[j])], 1, Contacts_VNo(c)),
   First |-> Contacts_GetObs(c, 0),
   Last |-> IF c.n > 0 THEN Contacts_GetObs(c, c.n - 1) ELSE [nil |-> TRUE]]

Contacts_Panicked(c) == IsPanicF(c.lasthval) \/ NameAddr_Panicked(c.last) \/ NameAddr_Panicked(c.first)
                        \/ \E j \in 1..Len(c.vals) : NameAddr_Panicked(c.vals[j])

\* pf = &c.Vals[c.N] or &c.last
VL_UseLast(c)   == ~(c.n < Len(c.vals))
VL_Pf(c)        == IF VL_UseLast(c) THEN c.last ELSE c.vals[c.n + 1]
VL_SetPf(c, pf) == IF VL_UseLast(c) THEN [c EXCEPT !.last = pf] ELSE [c EXCEPT !.vals[c.n + 1] = pf]

\* LastHVal: 1st value of this header -> copy of pf.V, else Extend(int(pf.V.Offs + pf.V.Len)) (OffsT arithmetic)
VL_LastHVal(lhv, pf) == IF PFEmpty(lhv) THEN pf.v ELSE PFExtend(lhv, PFEnd(pf.v))

\* the for loop of ParseAllContactValues
RECURSIVE Contacts_Loop(_, _, _)
Contacts_Loop(buf, offs, c) ==
  LET useLast == VL_UseLast(c)
      r  == OneContact_Parse(buf, offs, VL_Pf(c))
      pf == r.st
      c1 == VL_SetPf(c, pf)                                   \* the callee wrote through the pointer
  IN
  IF NameAddr_Panicked(pf) THEN NA_Ret(c1, r.offs, PANIC)
  ELSE CASE r.err = OK \/ r.err = MOREVALUES ->
         LET lhv == VL_LastHVal(c1.lasthval, pf)
             mn0 == IF c1.n = 0 THEN U32Max ELSE c1.minexp
             c2  == [c1 EXCEPT !.minexp = IF Less(pf.expires, mn0) THEN pf.expires ELSE mn0,
                               !.lasthval = lhv,
                               !.n = c1.n + 1,
                               !.maxexp = IF Less(c1.maxexp, pf.expires) THEN pf.expires ELSE c1.maxexp]
             c3  == IF c2.n = 1 /\ Len(c2.vals) = 0 THEN [c2 EXCEPT !.first = pf] ELSE c2   \* c.first = *pf
         IN IF IsPanicF(lhv) THEN NA_Ret([c1 EXCEPT !.lasthval = lhv], r.offs, PANIC)
            ELSE IF r.err = MOREVALUES
              THEN Contacts_Loop(buf, r.offs, IF useLast THEN [c3 EXCEPT !.last = NA_Zero] ELSE c3)
            ELSE NA_Ret(c3, r.offs, r.err)
      [] r.err = MORE -> NA_Ret(c1, r.offs, r.err)
      [] OTHER -> NA_Ret(IF useLast THEN [c1 EXCEPT !.last = NA_Zero] ELSE c1, r.offs, r.err)

\* func ParseAllContactValues(buf []byte, offs int, c *PContacts) (int, ErrorHdr)            -- raw
Contacts_Parse(buf, offs, c) ==
  LET c0 == IF c.n >= Len(c.vals) /\ NA_Parsed(c.last) THEN [c EXCEPT !.last = NA_Zero] ELSE c
  IN Contacts_Loop(buf, offs, c0)
Contacts_Call(buf, offs, c, cfg) ==
  LET r == Contacts_Parse(buf, offs, c) IN NA_Panicify(r, Contacts_Panicked(r.st))

----------------------------------------------------------------------------
\* PPAIs: Vals [2]PFromBody
PAIs_New(cfg) == [vals |-> VL_Array(2), n |-> 0, hno |-> 0, lasthval |-> PF0, last |-> NA_Zero]
PAIs_Reset(c) == PAIs_New(<<>>)                               \* *c = PPAIs{}
PAIs_VNo(c)   == IF c.n > Len(c.vals) THEN Len(c.vals) ELSE c.n
PAIs_More(c)  == c.n > Len(c.vals)
PAIs_Empty(c) == c.n = 0
PAIs_Parsed(c) == c.n > 0
\* GetPAI(k): &c.Vals[k] if VNo() > k, else nil (the projection only reads the first VNo elements)

PAIs_Obs(c) ==
  [N |-> c.n, HNo |-> c.hno, LastHVal |-> PFObs(c.lasthval), More |-> PAIs_More(c),
   Empty |-> PAIs_Empty(c), Parsed |-> PAIs_Parsed(c),
   Vals |-> SubSeq([j \in 1..PAIs_VNo(c) |-> NameAddr_Obs(c.vals[j])], 1, PAIs_VNo(c))]

PAIs_Panicked(c) == IsPanicF(c.lasthval) \/ NameAddr_Panicked(c.last)
                    \/ \E j \in 1..Len(c.vals) : NameAddr_Panicked(c.vals[j])

RECURSIVE PAIs_Loop(_, _, _)
PAIs_Loop(buf, offs, c) ==
  LET useLast == VL_UseLast(c)
      r  == OnePAI_Parse(buf, offs, VL_Pf(c))
      pf == r.st
      c1 == VL_SetPf(c, pf)
  IN
  IF NameAddr_Panicked(pf) THEN NA_Ret(c1, r.offs, PANIC)
  ELSE CASE r.err = OK \/ r.err = MOREVALUES ->
         LET lhv == VL_LastHVal(c1.lasthval, pf)
             c2  == [c1 EXCEPT !.lasthval = lhv, !.n = c1.n + 1]
         IN IF IsPanicF(lhv) THEN NA_Ret([c1 EXCEPT !.lasthval = lhv], r.offs, PANIC)
            ELSE IF r.err = MOREVALUES
              THEN PAIs_Loop(buf, r.offs, IF useLast THEN [c2 EXCEPT !.last = NA_Zero] ELSE c2)
            ELSE NA_Ret(c2, r.offs, r.err)
      [] r.err = MORE -> NA_Ret(c1, r.offs, r.err)
      [] OTHER -> NA_Ret(IF useLast THEN [c1 EXCEPT !.last = NA_Zero] ELSE c1, r.offs, r.err)

\* func ParseAllPAIValues(buf []byte, offs int, c *PPAIs) (int, ErrorHdr)                    -- raw
PAIs_Parse(buf, offs, c) ==
  LET c0 == IF c.n >= Len(c.vals) /\ NA_Parsed(c.last) THEN [c EXCEPT !.last = NA_Zero] ELSE c
  IN PAIs_Loop(buf, offs, c0)
PAIs_Call(buf, offs, c, cfg) ==
  LET r == PAIs_Parse(buf, offs, c) IN NA_Panicify(r, PAIs_Panicked(r.st))
=============================================================================
