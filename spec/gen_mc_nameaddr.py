#!/usr/bin/env python3
"""Generates the atom sets / prefixes section of MC_NameAddr.tla (between the GENERATED markers) and the
MC_NameAddr_*.cfg files, and prints an estimate of the number of wires per configuration
(cfg files cannot hold tuples; TLC has no string -> bytes conversion).
Usage: python3 gen_mc_nameaddr.py [delta]     delta is subtracted from every MaxLen (quick runs).
NA_CFG_OUT=<dir> writes the cfg files elsewhere (scratch runs with absolute cfg paths).
L = bytes of text after the prefix for start = 0; MaxLen = len(prefix) + L (start = 3 cfgs get 3 bytes less).
Arm coverage: `bin/drift --coverage` does not terminate on this module (TLC's cost-model creation explodes on
the mutually recursive arm operators).  Coverage was measured on the Go side instead: with drift = 0 the
records reach exactly the same arms in the code; a `go test -cover -coverpkg=.../sipsp` replay of all records
of all cfgs leaves unreached only: the re-entry paths after a definitive verdict (fbFIN, last.Parsed()), the
`return n, err` after skipLWS (skipLWS never fails on a WS char), `default: ErrHdrBug`, the final else of
setFromParamVal (dead), GetContact's last `return nil`, the Reset()s and ParseFromVal."""
import sys, os, re
HERE = os.path.dirname(os.path.abspath(__file__))
OUT = os.environ.get("NA_CFG_OUT", HERE)      # where the cfg files go (scratch runs)

def T(s):
    return "<<" + ",".join(str(b) for b in s.encode("latin-1")) + ">>"

EOHX = "\r\nx"          # CRLF + first byte of the next header
U64P = "1844674407370955161"      # 2^64 = 18446744073709551616
U32P = "429496729"                # 2^32 = 4294967296

PREFIXES = {
    "PfxNone": "",
    "PfxABS": "<>;",
    "PfxAS": "a;",
    "PfxABVal": "<>;a=",
    "PfxAVal": "a;a=",
    "PfxQ": "<>;q=",
    "PfxQBig": "<>;q=" + U64P,
    "PfxQLong": "<>;q=0.11",
    "PfxExp": "<>;expires=",
    "PfxExpN": "<>;Expires",
    "PfxExp32": "<>;expires=" + U32P,
    "PfxExp64": "<>;expires=" + U64P,
    "PfxPExp64": "a;EXPIRES=" + U64P,
}

ATOMS = {
    # structure: name / uri / angle brackets / star / comma; CR and LF separately
    "AtomsStruct": ["a", "<", ">", ",", "*", " ", "\r", "\n"],
    # every header type: shallow
    "AtomsAllH": ["a", "<>", ",", ";", "*", " ", EOHX],
    # display names: quoted strings, quoted pairs
    "AtomsQuote": ["a", '"', "\\", " ", "\r", "\n", "<>"],
    # first token: name or URI ?  fbNameOrURI / fbNameOrURIEnd / fbName
    "AtomsName": ["a", " ", "\t", ";", "<", '"', ",", EOHX],
    "AtomsPoss": ["sip:a", ";", "=", "a", " ", ",", EOHX],
    # params: after "<>;" (fbNewParam..) or after "a;" (fbNewPossibleParam..)
    "AtomsParams": ["a", ";", "=", " ", ",", "\r", "\n"],
    "AtomsParams2": ["a", "=", "<", ">", '"', ";", EOHX],
    # quoted param values: after "<>;a=" / "a;a="
    "AtomsQuoteV": ['"', "\\", "a", " ", ";", ",", EOHX],
    # known params after "<>;" / "a;"
    "AtomsKnown": ["tag", "lr", "q", "=", "1", ";", EOHX],
    "AtomsKnownW": ["tag", "LR", "=", " ", ";", ",", EOHX],
    "AtomsKnownE": [" ", "=", "1", ";", ",", EOHX],      # after "<>;Expires"
    # q values after "<>;q="
    "AtomsQ": ["0", "1", ".", "a", ";"],
    "AtomsQ2": ["0", "1", "9", ".", EOHX],
    "AtomsQBig": ["5", "6", ".", "a", ";"],
    "AtomsQLong": ["1", "0", "a", ".", ";", EOHX],
    # expires values after "<>;expires="...
    "AtomsExp": ["0", "9", "a", ";", " ", ",", EOHX],
    "AtomsExpBig": ["4", "5", "6", "a", ";", EOHX],
    # value lists
    "AtomsList": ["<>", "a", ",", "*", ";", " ", "\r", "\n"],
    "AtomsListN": ["a", ",", " ", EOHX],
    "AtomsListS": ["a", ",", "*", ";", EOHX],
    "AtomsListE": ["a;expires=1,", "a;expires=9,", "a,", "a" + EOHX, "a;expires=5" + EOHX, "a;expires=5,"],
    "AtomsListQ": ["a", ",", '"', "\\", "<>", EOHX],
}

# name, kind, atoms, cfgs, L (text bytes after the prefix, for start = 0), prefix, invariants, note
ALLINV = "ResumeEqFresh Stable OffsSane Emit EmitTwo EmitByte"
CFGS = [
    ("struct",   "nameaddr", "AtomsStruct",  "CfgsNA18",  5, "PfxNone"),
    ("allh",     "nameaddr", "AtomsAllH",    "CfgsNA",    5, "PfxNone"),
    ("quote",    "nameaddr", "AtomsQuote",   "CfgsNA1",   6, "PfxNone"),
    ("name",     "nameaddr", "AtomsName",    "CfgsNA18",  5, "PfxNone"),
    ("poss",     "nameaddr", "AtomsPoss",    "CfgsNA18",  6, "PfxNone"),
    ("params",   "nameaddr", "AtomsParams",  "CfgsNA18",  5, "PfxABS"),
    ("params2",  "nameaddr", "AtomsParams2", "CfgsNA8",   6, "PfxABS"),
    ("pparams",  "nameaddr", "AtomsParams",  "CfgsNA18",  5, "PfxAS"),
    ("pparams2", "nameaddr", "AtomsParams2", "CfgsNA8",   6, "PfxAS"),
    ("quotev",   "nameaddr", "AtomsQuoteV",  "CfgsNA8",   6, "PfxABVal"),
    ("pquotev",  "nameaddr", "AtomsQuoteV",  "CfgsNA8",   6, "PfxAVal"),
    ("known",    "nameaddr", "AtomsKnown",   "CfgsNA12",  7, "PfxABS"),
    ("knownw",   "nameaddr", "AtomsKnownW",  "CfgsNA12",  7, "PfxABS"),
    ("pknown",   "nameaddr", "AtomsKnown",   "CfgsNA1",   7, "PfxAS"),
    ("pknownw",  "nameaddr", "AtomsKnownW",  "CfgsNA8",   7, "PfxAS"),
    ("knowne",   "nameaddr", "AtomsKnownE",  "CfgsNA8",   6, "PfxExpN"),
    ("q",        "nameaddr", "AtomsQ",       "CfgsNA8",   6, "PfxQ"),
    ("qlong",    "nameaddr", "AtomsQLong",   "CfgsNA8",   5, "PfxQLong"),
    ("q2",       "nameaddr", "AtomsQ2",      "CfgsNA8",   7, "PfxQ"),
    ("qbig",     "nameaddr", "AtomsQBig",    "CfgsNA8",   5, "PfxQBig"),
    ("exp",      "nameaddr", "AtomsExp",     "CfgsNA8",   5, "PfxExp"),
    ("exp32",    "nameaddr", "AtomsExpBig",  "CfgsNA8",   5, "PfxExp32"),
    ("exp64",    "nameaddr", "AtomsExpBig",  "CfgsNA8",   5, "PfxExp64"),
    ("pexp64",   "nameaddr", "AtomsExpBig",  "CfgsNA1",   5, "PfxPExp64"),
    ("onepai",   "onepai",   "AtomsList",    "CfgsPAI1",  5, "PfxNone"),
    ("contacts",  "contacts", "AtomsList",   "CfgsCont",  4, "PfxNone"),
    ("contactsn", "contacts", "AtomsListN",  "CfgsCont",  8, "PfxNone"),
    ("contactss", "contacts", "AtomsListS",  "CfgsCont",  7, "PfxNone"),
    ("contactse", "contacts", "AtomsListE",  "CfgsCont", 28, "PfxNone"),
    ("contactsq", "contacts", "AtomsListQ",  "CfgsCont0", 6, "PfxNone"),
    ("pais",     "pais",     "AtomsList",    "CfgsPAIs",  5, "PfxNone"),
    ("paisn",    "pais",     "AtomsListN",   "CfgsPAIs",  9, "PfxNone"),
    ("paiss",    "pais",     "AtomsListS",   "CfgsPAIs",  7, "PfxNone"),
]
# per cfg overrides: invariants removed because the CODE violates them (see the comment written into the cfg)
OVERRIDE = {}
NCFG = {"CfgsNA": (5, 5), "CfgsNA18": (2, 2), "CfgsNA1": (1, 1), "CfgsNA8": (1, 1), "CfgsNA12": (1, 1),
        "CfgsPAI1": (1, 1), "CfgsCont": (3, 3), "CfgsCont0": (3, 0), "CfgsPAIs": (1, 1)}   # (#start0, #start3)

def count(lens, L):
    if L < 0: return 0
    f = [0] * (L + 1); f[0] = 1
    for n in range(1, L + 1):
        f[n] = sum(f[n - l] for l in lens if n - l >= 0)
    return sum(f)

def main():
    delta = int(sys.argv[1]) if len(sys.argv) > 1 else 0
    gen = ["\\* ---- GENERATED by gen_mc_nameaddr.py: prefixes and atom sets as byte tuples ----"]
    for k, v in PREFIXES.items():
        gen.append("%s == %s   \\* %r" % (k, T(v), v))
    for k, v in ATOMS.items():
        gen.append("%s == {%s}   \\* %s" % (k, ", ".join(T(a) for a in v), " ".join(repr(a) for a in v)))
    gen.append("\\* ---- END GENERATED ----")
    p = os.path.join(HERE, "MC_NameAddr.tla")
    src = open(p).read()
    src = re.sub(r"\\\* ---- GENERATED by.*?\\\* ---- END GENERATED ----", lambda m: "\n".join(gen), src, flags=re.S)
    open(p, "w").write(src)
    for c in CFGS:
        name, kind, atoms, cfgs, L, pfx = c[:6]
        L -= delta
        inv, note = OVERRIDE.get(name, (ALLINV, ""))
        maxlen = len(PREFIXES[pfx]) + L
        s = ""
        if note: s += "".join("\\* " + ln + "\n" for ln in note.split("\n"))
        s += ("SPECIFICATION SpecP\nVIEW view\nCONSTANTS\n  OffsMod = 65536\n  Kind = \"%s\"\n  Atoms <- %s\n"
              "  Prefix <- %s\n  MaxLen = %d\n  MaxAtoms = 99\n  Cfgs <- %s\n  Junk = 34\n  EmitOn = TRUE\nINVARIANTS %s\n"
              "CHECK_DEADLOCK FALSE\n") % (kind, atoms, pfx, maxlen, cfgs, inv)
        open(os.path.join(OUT, "MC_NameAddr_%s.cfg" % name), "w").write(s)
        lens = [len(a) for a in ATOMS[atoms]]
        n0, n3 = NCFG[cfgs]
        print("%-10s MaxLen=%-3d wires~%d" % (name, maxlen, n0 * count(lens, L) + n3 * count(lens, L - 3)))

main()
