#!/usr/bin/env python3
# Generates Texts.tla: literal texts used by the generator modules (Gen*.tla) as byte tuples.
# Pure literal conversion: no parsing, no offsets -- composition and the intended decomposition
# ("ghost") are computed in TLA+ (Gen.tla).
def T(s): return "<<" + ",".join(str(b) for b in s.encode("latin-1")) + ">>"
txt = {
 # header names in several spellings (type is decided in TLA+ by GetHdrTypeDecl = the documented table)
 "N_From": "From", "N_from": "from", "N_FROM": "FROM", "N_f": "f", "N_F": "F",
 "N_To": "To", "N_t": "t", "N_tO": "tO",
 "N_CallID": "Call-ID", "N_callid": "call-id", "N_i": "i",
 "N_CSeq": "CSeq", "N_cseq": "cseq",
 "N_Via": "Via", "N_v": "v",
 "N_MaxFwd": "Max-Forwards", "N_maxfwd": "max-forwards",
 "N_CLen": "Content-Length", "N_clen": "content-length", "N_l": "l", "N_L": "L",
 "N_Contact": "Contact", "N_m": "m", "N_CONTACT": "CONTACT",
 "N_Expires": "Expires", "N_expires": "eXpires",
 "N_UA": "User-Agent",
 "N_RR": "Record-Route", "N_Route": "Route",
 "N_PAI": "P-Asserted-Identity", "N_pai": "p-asserted-identity",
 "N_X": "X-Foo", "N_Subject": "Subject", "N_s": "s", "N_Fro": "Fro", "N_Fromm": "Fromm", "N_ContentLengt": "Content-Lengt",
 # values
 "V_from1": "<sip:alice@a.example>;tag=1928301774", "V_from2": "\"A. \\\" <x>;,\" <sip:a@b>;tag=x;foo", "V_from3": "sip:a@b;tag=1",
 "V_from4": "Bob  <sips:bob@b.example>",
 "V_to1": "<sip:bob@b.example>", "V_to2": "Bob <sip:bob@b.example;user=phone> ; tag = abc",
 "V_callid1": "a84b4c76e66710@pc33.a.example", "V_callid2": "192.168.1.1-abc", "V_callid3": "x",
 "V_cseq1": "314159 INVITE", "V_cseq2": "1 REGISTER", "V_cseq3": "2  ACK", "V_cseq4": "7 FOO",
 "V_via1": "SIP/2.0/UDP pc33.a.example;branch=z9hG4bK776asdhds", "V_via2": "SIP/2.0/TCP 10.0.0.1:5060;rport;branch=z9hG4bKabc123;received=1.2.3.4",
 "V_via3": "SIP/2.0/UDP h", "V_maxfwd": "70",
 "V_contact1": "<sip:alice@pc33.a.example>", "V_contact2": "<sip:a@b>;expires=3600, \"x,y\" <sip:c@d>;q=0.5;expires=60",
 "V_contact3": "*", "V_contact4": "sip:a@b;expires=10", "V_contact5": "<sip:a@b>,\r\n <sip:c@d>;lr",
 "V_contact6": "<sip:1@h>, <sip:2@h>, <sip:3@h>",
 "V_contact7": "<sip:a@host>;q=0.7;tag=xyz , <sip:c@host>", "V_pai4": "<sip:a@b>;x=y;tag=q1 \t, \"C\" <sip:c@d>;tag=r",
 "V_expires1": "3600", "V_expires2": "0",
 "V_ua": "Softphone Beta1.5", "V_rr": "<sip:p1.example;lr>", "V_route": "<sip:p2.example;lr>, <sip:p3.example>",
 "V_pai1": "\"Cullen\" <sip:fluffy@c.example>", "V_pai2": "<sip:a@b>, <tel:+14085264000>", "V_pai3": "<sip:a@b>, <sip:c@d>, <sip:e@f>",
 "V_x1": "bar", "V_x2": "a b\tc", "V_x3": "folded\r\n value", "V_x4": "lf\n\tfold", "V_x5": "cr\r fold", "V_empty": "",
 "V_subj": "I know you're there, pick up the phone: and talk!",
 "V_big1": "16777217", "V_big2": "4294967296", "V_big3": "0000000568", "V_big4": "99999999999", "V_big5": "4000000000", "V_big6": "4294967295",
 "VC_e10": "<sip:a@b>;expires=10", "VC_e60_5": "<sip:c@d>;expires=60, \"x\" <sip:e@f>;expires=5;q=0.1", "VC_e7200": "sip:g@h;expires=7200",
 "VC_e3": "<sip:i@j>;EXPIRES=3 ;foo", "VC_e3600z": "<sip:k@l>;expires=000000000000000000003600", "V_expires3": "100",
 # first lines
 "FL_inv": "INVITE sip:bob@b.example SIP/2.0", "FL_reg": "REGISTER sip:r.example SIP/2.0", "FL_opt": "OPTIONS sip:x SIP/2.0",
 "FL_foo": "FOO sip:x@y SIP/2.0", "FL_ack": "ACK sip:bob@b.example;transport=tcp SIP/2.0",
 "FL_200": "SIP/2.0 200 OK", "FL_180": "sip/2.0 180 Ringing the bell", "FL_404": "SIP/2.0 404 ",
 # bodies
 "BODY3": "v=0", "BODY0": "", "BODY12": "v=0\r\no=- 1\r\n",
 # white space / terminators
 "WS0": "", "WS1": " ", "WS2": " \t", "WSF": "\r\n ", "CRLF": "\r\n", "LFONLY": "\n", "CRONLY": "\r",
 # name-addr parts (GenNameAddr)
 "D_none": "", "D_tok": "Bob", "D_toks": "Bob T. Builder", "D_q": "\"Bob\"", "D_qesc": "\"B \\\" , ; < > o\\\\\"", "D_qempty": "\"\"", "D_tokq": "Bob \"the \\\"builder\\\"\"", "D_qq": "\"Bob\" \"x\"",
 "U_sip": "sip:bob@b.example", "U_sips": "sips:a@[::1]:5061", "U_tel": "tel:+1-408", "U_params": "sip:a@b;transport=tcp?h=v", "U_x": "x",
 "P_tag": "tag", "P_TAG": "TaG", "P_expires": "expires", "P_EXPIRES": "EXPIRES", "P_q": "q", "P_Q": "Q", "P_lr": "lr", "P_LR": "LR",
 "P_other": "foo", "P_received": "received", "P_instance": "+sip.instance", "P_x": "x", "P_xlifetime": "x-lifetime", "P_tagx": "tagx", "P_ta": "ta",
 "PV_tok": "abc", "PV_num": "3600", "PV_0": "0", "PV_big": "4294967296", "PV_q5": "0.5", "PV_q1": "1", "PV_q1000": "1.000", "PV_q05": ".05", "PV_q2": "2",
 "PV_quoted": "\"q v\tw\"", "PV_qesc": "\"a\\\"b;c,d\"",
 "U_inner": "sip:a@b;tag=in;lr;expires=5;q=0.1", "WSFH": "\r\n\t", "WSSF": " \r\n ",
 "D_qfold": "\"A\r\n B\"", "PV_qfold": "\"a\r\n\tb\"", "PV_q1dot": "1.", "PV_q0005": "0.005", "PV_q0999": "0.999",
 "P_expire": "expire", "P_expiress": "expiress", "P_qq": "qq", "P_l": "l", "P_lrx": "lrx", "P_Expires": "Expires", "P_tAG": "tAG", "P_Lr": "Lr",
 "PV_max": "4294967295", "PV_huge": "99999999999999999999999", "PV_60": "60", "PV_q0000": "0.000", "PV_q025": "0.25", "U_comma": "sip:a,b@h;x=1,2", "WSH": "\t",
 # URI component values of the URI-pair generator (GenURI.tla, C15)
 "GU_sip": "sip", "GU_sips": "sips", "GU_e": "", "GU_al": "al", "GU_Al": "Al", "GU_pw": "pw", "GU_Pw": "Pw",
 "GU_hx": "h.x", "GU_Hx": "H.x", "GU_gy": "g.y", "GU_v6": "[2001:db8::a]", "GU_v4": "10.0.0.1", "GU_5060": "5060", "GU_5070": "5070",
 "GU_transport": "transport", "GU_user": "user", "GU_ttl": "ttl", "GU_method": "method", "GU_maddr": "maddr",
 "GU_lr": "lr", "GU_foo": "foo", "GU_bar": "bar", "GU_a": "a", "GU_A": "A", "GU_b": "b",
 "GU_s": "s", "GU_S": "S", "GU_t": "t", "GU_acb": "a,b",
 # parameter lists (GenParams.tla, C17): URI parameter names in several letter cases, near misses, URI header / plain names, values
 "UP_transport": "transport", "UP_Transport": "Transport", "UP_TRANSPORT": "TRANSPORT", "UP_tRaNsPoRt": "tRaNsPoRt",
 "UP_user": "user", "UP_USER": "USER", "UP_uSer": "uSer", "UP_method": "method", "UP_METHOD": "METHOD", "UP_Method": "Method",
 "UP_ttl": "ttl", "UP_TTL": "TTL", "UP_tTl": "tTl", "UP_maddr": "maddr", "UP_MADDR": "MADDR", "UP_mAddR": "mAddR",
 "UP_lr": "lr", "UP_LR": "LR", "UP_Lr": "Lr", "UP_lR": "lR",
 "UP_transpor": "transpor", "UP_transports": "transports", "UP_transp0rt": "transp0rt", "UP_ransport": "ransport", "UP_trans_port": "trans-port",
 "UP_use": "use", "UP_users": "users", "UP_usor": "usor", "UP_metho": "metho", "UP_methods": "methods", "UP_mathod": "mathod",
 "UP_tt": "tt", "UP_ttll": "ttll", "UP_tti": "tti", "UP_madd": "madd", "UP_maddrs": "maddrs", "UP_naddr": "naddr",
 "UP_l": "l", "UP_r": "r", "UP_lrr": "lrr", "UP_rl": "rl", "UP_lr_": "lr-", "UP_xlr": "xlr", "UP_l_hi": "l\xf2", "UP_at_lr": "Lr\x00",
 "UP_foo": "foo", "UP_amp": "a&b", "UP_x": "x",
 "UH_subject": "subject", "UH_To": "To", "UH_qm": "a?b", "UH_xh": "x-h",
 "PN_tag": "tag", "PN_foo": "foo", "PN_qm": "a?b", "PN_marks": "-_.!~*'()%[]/:+$", "PN_a": "a",
 "PV_marks": "1-_.!~*'()%[]/:+$z", "PQ_esc": "\"a\\\"b;c&d,e?f =\\\\\"", "PQ_empty": "\"\"",
 "MT_hdrs": "h=v&i=j", "MT_comma": " <sip:x@y>;p", "MT_tok": "tok", "MT_ab": "ab", "MT_cd": "cd", "MT_n": "n", "MT_qab": "\"ab\"",
 # C19 signature generator (MC_GenSig): method names, request tail, alternative values that keep the fingerprinted
 # strings (From tag 1928301774, first Via branch z9hG4bK-776.asd_hds) and change everything else
 "M_invite": "INVITE", "M_register": "REGISTER", "M_options": "OPTIONS", "M_foo": "FOO", "T_ruri": " sip:bob@b.example SIP/2.0",
 "N_ua": "user-agent",
 "V_from1b": "\"Alice\" <sips:al@x.example:5061>;x=y;tag=1928301774",
 "V_via4": "SIP/2.0/UDP pc33.a.example;branch=z9hG4bK-776.asd_hds", "V_via4b": "SIP/2.0/TCP 10.1.1.1:5061;branch=z9hG4bK-776.asd_hds;rport",
 "V_via5": "SIP/2.0/UDP h, SIP/2.0/UDP g;branch=z9hG4bK-a.b_c", "V_via6": "SIP/2.0/UDP g;branch=z9hG4bK-a.b_c",
 "V_via7": "SIP/2.0/UDP h;rport", "V_via8": "SIP/2.0/UDP h;rport, SIP/2.0/UDP g;branch=z9hG4bK-a.b_c",
 "V_via4q1": "SIP/2.0/UDP pc33.a.example;foo=\"bar\";branch=z9hG4bK-776.asd_hds", "V_via4q2": "SIP/2.0/UDP pc33.a.example;foo=\"b;branch=x\\\"r,\" ;branch=z9hG4bK-776.asd_hds",
 "V_via4q3": "SIP/2.0/UDP pc33.a.example;rport;received=\"1.2.3.4\";x=\"\";branch=z9hG4bK-776.asd_hds;y=\"z\"", "V_via4q4": "SIP/2.0/UDP pc33.a.example ; ttl = 1 ;maddr=224.2.0.1;branch=z9hG4bK-776.asd_hds , SIP/2.0/UDP g;branch=other",
 "V_via4q5": "SIP/2.0/UDP pc33.a.example;BRANCH=z9hG4bK-776.asd_hds", "V_via4q6": "SIP/2.0/UDP [2001:db8::1]:5060;branchx=1;xbranch=2;branch=z9hG4bK-776.asd_hds;branc=second",
 "V_via9": "SIP/2.0/UDP h;received=1.2.3.4-x_y;branch", "V_via10": "SIP/2.0/UDP h;maddr=a.b-c;branch=;rport", "V_via11": "SIP/2.0/UDP h;x=z9hG4bK-a.b;branch ;ttl=1-2",
 "V_maxfwd2": "0", "V_ua2": "x/2 (y)", "V_cseq5": "1 INVITE",
}

# header names of RFC 3261 and of common extensions (long and compact); the type of each is whatever the documented
# table says (Lookup!GetHdrTypeDecl) -- most are "other" and must stay so
RFC_NAMES = ["Accept", "Accept-Encoding", "Accept-Language", "Alert-Info", "Allow", "Authentication-Info", "Authorization", "Call-Info",
 "Content-Disposition", "Content-Encoding", "Content-Language", "Content-Type", "Date", "Error-Info", "In-Reply-To", "Min-Expires",
 "MIME-Version", "Organization", "Priority", "Proxy-Authenticate", "Proxy-Authorization", "Proxy-Require", "Reply-To", "Require",
 "Retry-After", "Server", "Subject", "Supported", "Timestamp", "Unsupported", "Warning", "WWW-Authenticate", "Event", "Allow-Events",
 "Subscription-State", "Refer-To", "Referred-By", "Replaces", "RAck", "RSeq", "Session-Expires", "Min-SE", "Path", "Service-Route",
 "P-Preferred-Identity", "P-Called-Party-ID", "P-Associated-URI", "Privacy", "Reason", "P-Access-Network-Info", "P-Charging-Vector",
 "History-Info", "Diversion", "Remote-Party-ID", "Accept-Contact", "Reject-Contact", "Request-Disposition", "Security-Client",
 "Security-Server", "Security-Verify", "SIP-ETag", "SIP-If-Match", "Identity", "Identity-Info", "Join", "Target-Dialog", "Geolocation",
 "User-to-User", "X-Forwarded-For", "Client", "Agent", "User", "Call", "ID", "Forwards", "Length", "Content", "Record", "Max",
 "a", "b", "c", "d", "e", "j", "k", "n", "o", "r", "s", "u", "x", "y", "UA", "To-Tag", "From-Tag", "Via-Branch", "Contacts", "Routes"]
out = ["------------------------------- MODULE Texts -------------------------------",
       "(* GENERATED by gen_texts.py -- literal texts as byte tuples (no structure, no offsets) *)", "EXTENDS Integers, Sequences", ""]
for k, v in txt.items():
    out.append("%s == %s" % (k, T(v)))
out.append("RfcNames == <<%s>>" % ", ".join(T(n) for n in RFC_NAMES))
out.append("=============================================================================")
open("Texts.tla", "w").write("\n".join(out) + "\n")
