#!/usr/bin/env python3
# Generates the MC_TokParam_*.cfg files (model-checking configurations of MC_TokParam.tla).
# Re-run after editing (cd /verif/spec && python3 gen_tokparam_cfgs.py); the output is committed.
# Gate per cfg:  cd /verif && bin/drift MC_TokParam MC_TokParam_<name>.cfg --workers 6   ->  TLC ok, drift=0
import os
ALL      = "ResumeEqFresh Stable OffsSane Emit"
NOSTABLE = "ResumeEqFresh OffsSane Emit"

C_END = ["Stable is not checked: POptInputEndF (8) declares the end of the buffer to be the end of the input, so a",
         "verdict on a prefix is by construction not the verdict on an extension, e.g. \" \" -> (eoh,1) but",
         "\" \\n\" -> (eoh,2); \"a\" -> (eoh,1) with Name=[0,1] but \"aa\" -> (eoh,2) with Name=[0,2]."]
C_SP = ["POptTokSpTermF (4) with quoted values: the separator position returned when a new token follows the value",
        "is `i-1` iff buf[i-1] is LWS, else i (wire a=\"\"a -> (ok,4) one-shot and resumed at 4); it does not depend on",
        "the offset the call started at, so ResumeEqFresh holds."]

# (name, kind, atoms, maxlen, flags, pcaps, starts, invariants, comment lines)
M = []
def add(name, kind, atoms, maxlen, flags, inv, pcaps=(0,), starts=(0, 3), comment=()):
    c = list(comment)
    if inv in (NOSTABLE,) : c += C_END
    M.append((name, kind, atoms, maxlen, flags, pcaps, starts, inv, c))

# ---- tokparam: one "structure" configuration per flag set
add("tok_f0_semi",    "tokparam", "AtomsSemi",  6, (0,),   ALL)
add("tok_f1_comma",   "tokparam", "AtomsComma", 6, (1,),   ALL)
add("tok_f2_qm",      "tokparam", "AtomsQm",    6, (2,),   ALL)
add("tok_f4_semi",    "tokparam", "AtomsSemi",  6, (4,),   ALL)
add("tok_f8_semi",    "tokparam", "AtomsSemi",  6, (8,),   NOSTABLE)
add("tok_f9_comma",   "tokparam", "AtomsComma", 6, (9,),   NOSTABLE)
add("tok_f12_semi",   "tokparam", "AtomsSemi",  6, (12,),  NOSTABLE)
add("tok_f16_semi",   "tokparam", "AtomsSemi",  6, (16,),  ALL)
add("tok_f32_amp",    "tokparam", "AtomsAmp",   6, (32,),  ALL)
add("tok_f64_qm",     "tokparam", "AtomsQm",    6, (64,),  ALL)
add("tok_f72_qm",     "tokparam", "AtomsQm",    6, (72,),  NOSTABLE)
add("tok_f128_amp",   "tokparam", "AtomsAmp",   6, (128,), ALL)
add("tok_f136_amp",   "tokparam", "AtomsAmp",   6, (136,), NOSTABLE)
# ---- tokparam: quoted values
add("tok_g0_quote2",   "tokparam", "AtomsQuote2",  6, (0, 1, 2, 16, 64), ALL)
add("tok_gA_quote2",   "tokparam", "AtomsQuote2A", 6, (32, 128),         ALL)
add("tok_f4_quote2",   "tokparam", "AtomsQuote2",  7, (4,),              ALL, comment=C_SP)
add("tok_g8_quote2",   "tokparam", "AtomsQuote2",  6, (8, 9, 72),        NOSTABLE)
add("tok_f12_quote2",  "tokparam", "AtomsQuote2",  7, (12,),             NOSTABLE)
add("tok_f136_quote2", "tokparam", "AtomsQuote2A", 7, (136,),            NOSTABLE)
add("tok_f0_quote",    "tokparam", "AtomsQuote",   6, (0,),              ALL)
add("tok_f4_quote",    "tokparam", "AtomsQuote",   6, (4,),              ALL, comment=C_SP)
add("tok_f8_quote",    "tokparam", "AtomsQuote",   6, (8,),              NOSTABLE)
add("tok_g0_quote3",   "tokparam", "AtomsQuote3",  6, (0, 1, 2, 64),     ALL)
add("tok_f4_quote3",   "tokparam", "AtomsQuote3",  7, (4,),              ALL, comment=C_SP)
add("tok_g8_quote3",   "tokparam", "AtomsQuote3",  6, (9, 12, 72),       NOSTABLE)
# ---- tokparam: every separator / terminator byte under every flag set; illegal bytes
add("tok_g0_punct",    "tokparam", "AtomsPunct",   5, (0, 1, 2, 4, 16, 32, 64, 128), ALL)
add("tok_g8_punct",    "tokparam", "AtomsPunct",   5, (8, 9, 12, 72, 136),           NOSTABLE)
add("tok_g0_bad",      "tokparam", "AtomsBad",     5, (0, 4, 64, 128),               ALL, starts=(0,))
add("tok_g8_bad",      "tokparam", "AtomsBad",     5, (8, 136),                      NOSTABLE, starts=(0,))
add("tok_g0_badq",     "tokparam", "AtomsBadQ",    5, (0, 128),                      ALL)
add("tok_g0_tokch",    "tokparam", "AtomsTokCh",   5, (0, 64),                       ALL, starts=(0,))
# ---- uriparams (ParseAllURIParams), capacities 0, 1, 2
add("up_f64_qm",       "uriparams", "AtomsQm",     5, (64,), ALL,      pcaps=(0, 1, 2))
add("up_f72_qm",       "uriparams", "AtomsQm",     5, (72,), NOSTABLE, pcaps=(0, 1, 2))
add("up_f64_p1_qm",    "uriparams", "AtomsQm",     6, (64,), ALL,      pcaps=(1,))
add("up_f64_names",    "uriparams", "AtomsNames",  7, (64,), ALL,      pcaps=(1, 2))
add("up_f72_names",    "uriparams", "AtomsNames",  6, (72,), NOSTABLE, pcaps=(0, 1, 2))
add("up_f64_names2",   "uriparams", "AtomsNames2", 10, (64,), ALL,     pcaps=(0, 1, 2))
add("up_f64_lstq",     "uriparams", "AtomsLstQ",   6, (64,), ALL,      pcaps=(0, 1, 2))
add("up_f72_lstq",     "uriparams", "AtomsLstQ",   6, (72,), NOSTABLE, pcaps=(0, 1, 2))
# ---- urihdrs (ParseAllURIHdrs), capacities 0, 1, 2
add("uh_f128_amp",     "urihdrs", "AtomsUHdr",     5, (128,), ALL,      pcaps=(0, 1, 2))
add("uh_f136_amp",     "urihdrs", "AtomsUHdr",     5, (136,), NOSTABLE, pcaps=(0, 1, 2))
add("uh_f128_p1_amp",  "urihdrs", "AtomsUHdr",     6, (128,), ALL,      pcaps=(1,))
add("uh_f128_lstq",    "urihdrs", "AtomsLstQA",    6, (128,), ALL,      pcaps=(0, 1, 2))
add("uh_f136_lstq",    "urihdrs", "AtomsLstQA",    6, (136,), NOSTABLE, pcaps=(0, 1, 2))
# ---- skipquoted (SkipQuoted as a stateless Stream kind)
C_SQ = ["The object is stateless; TLC cannot print an empty record, so the model emits obs = {\"dummy\":0} and the Go",
        "adapter (harness/kinds.go skipQuotedObj.obs) prints the same."]
add("sq_a",            "skipquoted", "AtomsSkipQ",  6, (0,), ALL, comment=C_SQ)
add("sq_b",            "skipquoted", "AtomsSkipQ2", 6, (0,), ALL, comment=C_SQ)

def S(t): return "{" + ", ".join(str(x) for x in t) + "}"
here = os.path.dirname(os.path.abspath(__file__))
for name, kind, atoms, maxlen, flags, pcaps, starts, inv, comment in M:
    out = ["\\* GENERATED by gen_tokparam_cfgs.py"] + ["\\* " + c for c in comment]
    out += ["SPECIFICATION Spec", "VIEW view", "CONSTANTS", "  OffsMod = 65536", '  Kind = "%s"' % kind,
            "  Atoms <- %s" % atoms, "  MaxLen = %d" % maxlen, "  Cfgs <- CfgsOf", "  Starts = " + S(starts),
            "  FlagSet = " + S(flags), "  PCaps = " + S(pcaps), "  Junk = 34", "  EmitOn = TRUE",
            "INVARIANTS " + inv, "CHECK_DEADLOCK FALSE"]
    open(os.path.join(here, "MC_TokParam_%s.cfg" % name), "w").write("\n".join(out) + "\n")
if __name__ == "__main__":
    print(" ".join(m[0] for m in M))
